"""Translator-level battery for C01 (run: /venv/bin/python translator/c01_battery.py): shapes that are syntactically obvious
equivalents of the current source must translate to the same tables (SAME); look-alike shapes that change the behaviour
must give different tables (DIFF) or fail closed (FAIL). Edits are made on a scratch copy of the five files read."""
import sys, shutil, re
sys.path.insert(0, str(__import__('pathlib').Path(__file__).resolve().parent.parent))
from pathlib import Path
from translator import c01 as tr
from harness.core import TranslationError
BASE = Path(__import__('tempfile').mkdtemp(prefix='c01_battery_'))
FILES = ['pyxel/pipelines/pipeline.py', 'pyxel/pipelines/processor.py', 'pyxel/pipelines/model_group.py',
         'pyxel/pipelines/model_function.py', 'pyxel/exposure/exposure.py']
REPO = Path(__import__('os').environ.get('VERIF_REPO', '/repo'))
ORIG = {f: (REPO / f).read_text() for f in FILES}

def run(name, expect, edits):
    root = BASE / 'tree'
    if root.exists(): shutil.rmtree(root)
    for f in FILES:
        (root / f).parent.mkdir(parents=True, exist_ok=True)
        (root / f).write_text(ORIG[f])
    for f, old, new in edits:
        s = (root / f).read_text()
        assert old in s, (name, old[:50])
        (root / f).write_text(s.replace(old, new, 1))
        compile((root / f).read_text(), f, 'exec')
    try:
        t = tr.translate(root, runtime=False)
        got = 'SAME' if t == tr.FALLBACK else 'DIFF'
        detail = '' if got == 'SAME' else ' | '.join(a for a, b in zip(t.splitlines(), tr.FALLBACK.splitlines()) if a != b)[:200]
    except TranslationError as ex:
        got, detail = 'FAIL', str(ex)[:160].replace('\n', ' ')
    ok = got in expect
    print(('ok   ' if ok else 'WRONG'), name, got, '' if ok and got == 'SAME' else detail)
    return ok

MG = 'pyxel/pipelines/model_group.py'; MF = 'pyxel/pipelines/model_function.py'; PR = 'pyxel/pipelines/processor.py'; PL = 'pyxel/pipelines/pipeline.py'
ITER = '''        for model in self.models:
            if model.enabled:
                yield model
'''
RP = '''            models_grp: ModelGroup | None = getattr(self.pipeline, group_name)
            if not models_grp:
                continue

            self._log.info("Processing group: %r", group_name)
            models_grp.run(
                detector=self.detector,
                debug=debug,
            )
'''
RPLOOP = '        for group_name in self.pipeline.model_group_names:\n            # Get a group of models\n' + RP
CALL = '        self.func(detector, **self.arguments)\n'
SG = '''        self._scene_generation: ModelGroup | None = (
            ModelGroup(scene_generation, name="scene_generation")
            if scene_generation
            else None
        )
'''
res = []
E = ['SAME']; B = ['DIFF', 'FAIL']
res.append(run('iter: yield from genexp', E, [(MG, ITER, '        yield from (m for m in self.models if m.enabled)\n')]))
res.append(run('iter: return genexp', E, [(MG, ITER, '        return (m for m in self.models if m.enabled)\n')]))
res.append(run('iter: return filter(lambda)', E, [(MG, ITER, '        return filter(lambda m: m.enabled, self.models)\n')]))
res.append(run('iter: alias of self.models + nested if', E, [(MG, ITER, '        all_models = self.models\n        for m in all_models:\n            if not m.enabled:\n                pass\n            else:\n                yield m\n')]))
res.append(run('iter: EAGER list (not equivalent: laziness)', B, [(MG, ITER, '        return iter([m for m in self.models if m.enabled])\n')]))
res.append(run('iter: guard dropped', B, [(MG, ITER, '        for model in self.models:\n            yield model\n')]))
res.append(run('iter: extra condition', B, [(MG, ITER, '        for model in self.models:\n            if model.enabled and model.name:\n                yield model\n')]))
res.append(run('run_pipeline: lazy genexp of groups', E, [(PR, RPLOOP, '        for models_grp in (getattr(self.pipeline, n) for n in self.pipeline.model_group_names):\n            if models_grp:\n                models_grp.run(detector=self.detector, debug=debug)\n')]))
res.append(run('run_pipeline: helper with guard-clause return', E, [(PR, RP, '            self._run_group(group_name, debug)\n\n    def _run_group(self, name: str, debug: bool) -> None:\n        grp = getattr(self.pipeline, name)\n        if grp is None:\n            return\n        self._log.info("Processing group: %r", name)\n        grp.run(detector=self.detector, debug=debug)\n')]))
res.append(run('run_pipeline: helper drops debug', B, [(PR, RP, '            self._run_group(group_name)\n\n    def _run_group(self, name: str, debug: bool = False) -> None:\n        grp = getattr(self.pipeline, name)\n        if grp is None:\n            return\n        grp.run(detector=self.detector, debug=debug)\n')]))
res.append(run('run_pipeline: iterate MODEL_GROUPS directly', E, [(PR, 'self.pipeline.model_group_names:', 'self.pipeline.MODEL_GROUPS:')]))
res.append(run('run_pipeline: `and` in one test', E, [(PR, RP, '            models_grp = getattr(self.pipeline, group_name)\n            if models_grp is not None and models_grp:\n                models_grp.run(detector=self.detector, debug=debug)\n')]))
res.append(run('run_pipeline: guard not inverted', B, [(PR, RP, '            models_grp = getattr(self.pipeline, group_name)\n            if models_grp:\n                continue\n            models_grp.run(detector=self.detector, debug=debug)\n')]))
res.append(run('run_pipeline: extra debug condition', B, [(PR, RP, '            models_grp = getattr(self.pipeline, group_name)\n            if not models_grp or (debug and group_name == "phasing"):\n                continue\n            models_grp.run(detector=self.detector, debug=debug)\n')]))
res.append(run('run_pipeline: unguarded call', B, [(PR, RP, '            models_grp = getattr(self.pipeline, group_name)\n            models_grp.run(detector=self.detector, debug=debug)\n')]))
res.append(run('call: alias of private _arguments', E, [(MF, CALL, '        kwargs = self._arguments\n        self.func(detector, **kwargs)\n')]))
res.append(run('call: helper', E, [(MF, CALL, '        self._invoke(detector)\n\n    def _invoke(self, det) -> None:\n        fn = self.func\n        fn(det, **self.arguments)\n')]))
res.append(run('call: alias before reassignment', B, [(MF, CALL, '        kwargs = self._arguments\n        self._arguments = Arguments({})\n        self.func(detector, **kwargs)\n')]))
res.append(run('call: copied kwargs (not an alias)', B, [(MF, CALL, '        kwargs = {k: v for k, v in self.arguments.items() if v is not None}\n        self.func(detector, **kwargs)\n')]))
res.append(run('ctor: if/else statements', E, [(PL, SG, '        if scene_generation:\n            self._scene_generation = ModelGroup(scene_generation, name="scene_generation")\n        else:\n            self._scene_generation = None\n')]))
res.append(run('ctor: default then override', E, [(PL, SG, '        self._scene_generation = None\n        if scene_generation:\n            self._scene_generation = ModelGroup(scene_generation, name="scene_generation")\n')]))
res.append(run('ctor: inverted conditional expression', E, [(PL, SG, '        self._scene_generation = None if not scene_generation else ModelGroup(models=scene_generation, name="scene_generation")\n')]))
res.append(run('ctor: wrong keyword fed', B, [(PL, SG, '        self._scene_generation = ModelGroup(photon_collection, name="scene_generation") if scene_generation else None\n')]))
res.append(run('ctor: branches swapped, test not inverted', B, [(PL, SG, '        self._scene_generation = None if scene_generation else ModelGroup(scene_generation, name="scene_generation")\n')]))
res.append(run('property: alias', E, [(PL, '        return self._phasing\n', '        grp = self._phasing\n        return grp\n')]))
res.append(run('property: other group', B, [(PL, '        return self._phasing\n', '        return self._charge_generation\n')]))
res.append(run('model_group_names: type(self)', E, [(PL, '        return self.MODEL_GROUPS\n', '        return type(self).MODEL_GROUPS\n')]))
res.append(run('group.run: alias + iter()', E, [(MG, '        for model in self:\n', '        enabled_models = self\n        for model in iter(enabled_models):\n')]))
res.append(run('group.run: over self.models', B, [(MG, '        for model in self:\n', '        for model in self.models:\n')]))
res.append(run('setstate: helper shared with __init__', E, [(MG, '''    def __setstate__(self, state: Mapping) -> None:
        self._log = logging.getLogger(__name__)
''', '''    def _init_log(self) -> None:
        self._log = logging.getLogger(__name__)

    def __setstate__(self, state: Mapping) -> None:
        self._init_log()
''')]))
res.append(run('setstate: forgets _log', B, [(MG, '''    def __setstate__(self, state: Mapping) -> None:
        self._log = logging.getLogger(__name__)
''', '''    def __setstate__(self, state: Mapping) -> None:
''')]))
# ---- round 2d: alias of a bound helper, keyword calls, walrus in an if-test, try block moved to a module function
HELPER_OK = '\n    @staticmethod\n    def _mk(seq, label):\n        return ModelGroup(seq, name=label) if seq else None\n\n    def __repr__(self) -> str:\n'
REPR = '\n    def __repr__(self) -> str:\n'
SG_ALIAS = '        mk = self._mk\n        self._scene_generation = mk(scene_generation, label="scene_generation")\n'
res.append(run('ctor: local alias of a staticmethod helper, keyword call', E, [(PL, SG, SG_ALIAS), (PL, REPR, HELPER_OK)]))
res.append(run('ctor: alias through the class name, both by keyword', E, [(PL, SG, '        mk = DetectionPipeline._mk\n        self._scene_generation = mk(label="scene_generation", seq=scene_generation)\n'), (PL, REPR, HELPER_OK)]))
res.append(run('ctor: aliased helper tests `is not None` (empty list gives a group)', B, [(PL, SG, SG_ALIAS), (PL, REPR, HELPER_OK.replace('if seq else', 'if seq is not None else'))]))
res.append(run('ctor: aliased helper fed another keyword', B, [(PL, SG, '        mk = self._mk\n        self._scene_generation = mk(photon_collection, label="scene_generation")\n'), (PL, REPR, HELPER_OK)]))
res.append(run('ctor: aliased helper, keywords crossed', B, [(PL, SG, '        mk = self._mk\n        self._scene_generation = mk(label=scene_generation, seq="scene_generation")\n'), (PL, REPR, HELPER_OK)]))
res.append(run('ctor: alias rebound to another helper before use', B, [(PL, SG, '        mk = self._mk\n        mk = self._mk2\n        self._scene_generation = mk(scene_generation, label="scene_generation")\n'), (PL, REPR, HELPER_OK + '        pass\n\n    @staticmethod\n    def _mk2(seq, label):\n        return None\n\n    def __repr2__(self) -> str:\n')]))
res.append(run('run_pipeline: walrus in the if-test', E, [(PR, RP, '            if grp := getattr(self.pipeline, group_name):\n                grp.run(detector=self.detector, debug=debug)\n')]))
res.append(run('run_pipeline: walrus under not + continue', E, [(PR, RP, '            if not (grp := getattr(self.pipeline, group_name)):\n                continue\n            grp.run(detector=self.detector, debug=debug)\n')]))
res.append(run('run_pipeline: walrus as left operand of a comparison, first operand of and', E, [(PR, RP, '            if (grp := getattr(self.pipeline, group_name)) is not None and grp:\n                grp.run(detector=self.detector, debug=debug)\n')]))
res.append(run('run_pipeline: walrus, wrong polarity', B, [(PR, RP, '            if (grp := getattr(self.pipeline, group_name)) is None:\n                grp.run(detector=self.detector, debug=debug)\n')]))
res.append(run('run_pipeline: walrus with an extra condition', B, [(PR, RP, '            if (grp := getattr(self.pipeline, group_name)) and not debug:\n                grp.run(detector=self.detector, debug=debug)\n')]))
res.append(run('run_pipeline: walrus in the second operand (conditionally bound)', B, [(PR, RP, '            if debug and (grp := getattr(self.pipeline, group_name)):\n                grp.run(detector=self.detector, debug=debug)\n')]))
res.append(run('run_pipeline: walrus fetches from another object', B, [(PR, RP, '            if grp := getattr(self, group_name, None):\n                grp.run(detector=self.detector, debug=debug)\n')]))
TRY = """            try:
                model(detector)
            except Exception as exc:
                if sys.version_info >= (3, 11):
                    note = (
                        f"This error is raised in group '{self._name}' at "
                        f"model '{model.name}' ({model._func_name})."
                    )
                    exc.add_note(note)

                raise
"""
CLS = '# TODO: These methods could also be as a `abc.Sequence` with magical methods:\n'
FN = """def _apply(det, m, where):
    try:
        m(det)
    except Exception as err:
        if sys.version_info >= (3, 11):
            err.add_note(f"This error is raised in group '{where}' at model '{m.name}' ({m._func_name}).")
        raise


"""
res.append(run('group.run: try block moved to a module function, keyword call', E, [(MG, TRY, '            _apply(m=model, det=detector, where=self._name)\n'), (MG, CLS, FN + CLS)]))
res.append(run('group.run: module function bound to a local first', E, [(MG, TRY, '            apply(detector, model, self._name)\n'), (MG, '        for model in self:\n', '        apply = _apply\n        for model in self:\n'), (MG, CLS, FN + CLS)]))
res.append(run('group.run: module function calls the model twice (retry)', B, [(MG, TRY, '            _apply(detector, model, self._name)\n'), (MG, CLS, FN.replace('        raise\n', '        m(det)\n') + CLS)]))
res.append(run('group.run: module function, arguments crossed', B, [(MG, TRY, '            _apply(model, detector, self._name)\n'), (MG, CLS, FN + CLS)]))
res.append(run('group.run: module function runs the model on a copy', B, [(MG, TRY, '            _apply(detector, model, self._name)\n'), (MG, CLS, FN.replace('        m(det)\n', '        m(copy.copy(det))\n') + CLS)]))
res.append(run('call: alias of a bound helper method', E, [(MF, CALL, '        invoke = self._invoke\n        invoke(det=detector)\n\n    def _invoke(self, det) -> None:\n        self.func(det, **self.arguments)\n')]))
res.append(run('call: alias of a bound helper that drops the arguments', B, [(MF, CALL, '        invoke = self._invoke\n        invoke(det=detector)\n\n    def _invoke(self, det) -> None:\n        self.func(det)\n')]))
print(sum(res), '/', len(res))
shutil.rmtree(BASE, ignore_errors=True)
sys.exit(0 if all(res) else 1)
