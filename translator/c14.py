"""pyxel/data_structure/charge.py + pyxel/detectors/geometry.py -> Gen_C14.v

NORMALISATIONS applied before any shape is matched (translator/c14_norm.py; general, never keyed on a text):
  * the straight-line functions (convert_df_to_array, convert_array_to_df, the two geometry functions, the njit
    kernel's prelude and loop body) are read SYMBOLICALLY, statement by statement: a name stands for the expression
    it was last assigned, expanded at the time of the assignment (so aliases `geo = self._geo`, named intermediate
    results, renamed / reassigned locals, `x += e`, tuple unpacking of tuple literals, annotations, docstrings,
    comments, logging calls all disappear; an alias taken BEFORE a reassignment keeps the old value); in-place update
    of a local that has an alias fails closed
  * a name assigned exactly once at module level to a literal is replaced by the literal
  * a call of a helper defined in the same module / class (`h(..)`, `self.h(..)`, `Charge.h(..)`, `cls.h(..)`,
    static / class / instance method) whose body is itself straight-line is replaced by its returned expression with
    parameters bound to the arguments (positional / keyword / literal defaults); other calls are left for the matcher
  * call shapes (round 2d): `f(*(a, b))` == `f(a, b)`; `f(**{"k": v})` / `f(**dict(k=v))` (also through a local bound
    to the display; a display that is updated in place fails closed) == `f(k=v)`; `functools.partial(g, a, k=v)(b, m=w)`
    (recognised by its import, through any local name) == `g(a, b, k=v, m=w)`
  * create_charges (round 2d): the column mapping may be a dict display, `dict(k=v, ..)` or
    `dict(zip(KEYS, VALUES[, strict=..]))` with tuple / list displays of equal length; names in it are resolved through
    single-assignment locals and module-level literal constants (the key tuple may live at module level); names bound
    by a match capture, walrus, loop, `with`, `except`, import, nested def are opaque
  * records (round 2d): a module-level `class R(NamedTuple)` with only annotated fields: `R(a, b).first`, `R(a, b)[0]`,
    `x, y = R(a, b)` stand for the constructor's arguments (positional / keyword / literal defaults)
  * helpers in ANOTHER module of the package (round 2d): a call of a plain straight-line function imported (absolute,
    relative, late import, re-exported by a package `__init__`) from a module of the same top-level package is
    followed like a same-module helper, read in its own module (its constants, its helpers)
  * object identity (round 2d): `self._array = A if c else B` is one binding per branch; `a or b` / `a and b` IS one of
    its operands (no longer classified as a new object)
  * the mask recognises "the first / second index array" by what it COMPUTES (it translates to the same integral
    Gallina expression), not by its name, so it may be built before the `.astype(int)`, in named pieces, by a helper
  * the kernel: `enumerate`, `range(len(V))`, `range(0, len(V), 1)`, `range(V.size)`, `range(V.shape[0])`, manual
    counter (`i = 0` before, `i += 1` last), loop-local names, aliases of the parameters; or no kernel at all:
    `np.add.at(array, (I, J), V)` on the local zeros array
  * the geometry helpers are recognised by what they are IMPORTED from, and may be given positional arguments
  * object identity: private helper methods called as statements are read as part of their caller; the result of a
    private helper (method / module function) is classified by its own `return`s (a returned parameter stands for the
    argument); in-place accumulation into a local alias of `self._array` counts as accumulation into `self._array`

Extracted (fail closed on any other shape):
  * Charge.convert_df_to_array
      - the inner njit loop: `for i, v in enumerate(VALS): ARR[A[i], B[i]] += v` (or `for i in range(len(VALS))`),
        which parameter is the FIRST subscript, which the SECOND, is it `+=`            -> src_loop_accumulates
      - the call of the loop: what is bound to those parameters; every masked argument must carry the same
        mask; the array must be `np.zeros((self._geo.row, self._geo.col))`
      - the expression of the first / second subscript as a function of the cluster's position_ver,
        position_hor and the two pixel sizes (floor_divide, //, floor, trunc, ceil, rint, astype(int),
        + - * /)                                                                        -> src_iv, src_ih
      - the mask as a boolean expression over the two index arrays, geo.row, geo.col    -> src_keep
        (no mask = everything is handed to the loop)
      - which frame column is accumulated                                               -> src_value_is_number
  * Charge.convert_array_to_df: row-major flattening, the comparison selecting the entries that become
    clusters                                                                            -> src_thr
    and that number / position_ver / position_hor receive the selected entries and the selected pixel centres
  * Charge.create_charges: the dictionary feeding the three columns from the three keyword parameters
  * geometry.get_vertical_pixel_center_pos / get_horizontal_pixel_center_pos: the centre polynomial in
    (k, pixel size) and the layout (repeat per column / tile per row)                   -> src_cv, src_ch
  * OBJECT IDENTITY (who shares memory with whom; record hsrc : heapparams of Model/ChargeHeap.v).  Every
    expression that is bound to `self._array` / `self._frame`, returned by a read, or handed to xarray is
    classified as FRESH (a new object: np.zeros, arithmetic, .copy(), np.array, pd.concat, convert_* ...), an alias
    of the STORED array / frame, an alias of what the `array` property returns, or an alias of a PARAMETER of the
    method (the bare name, np.asarray(x), x.view(), x[...], x.reshape(), x.T, x.astype(.., copy=False), ...):
      - Charge.add_charge_array: every statement that (re)binds or writes `self._array`
            `self._array += array` / `np.add(self._array, array, out=self._array)`      -> src_add_mode := AddInPlace
            `self._array = self._array + array` / `np.add(self._array, array)`          -> AddFresh
            any path binding `self._array` to an alias of the argument                  -> AddAdopt
        and whether any statement writes into the argument                              -> src_add_writes_arg
      - the `array` property returns the stored object or a copy                        -> src_array_exposes
      - `__array__` returns (an alias of) what the property returns, or a copy          -> src_np_exposes
      - `to_xarray` hands xarray a fresh copy                                           -> src_xr_copies
      - Charge.add_charge_dataframe binds `self._frame` to / writes into its argument   -> src_df_adopts
      - any other method of Charge binds `self._array` / `self._frame` to, or writes into, a parameter
                                                                                        -> src_binds_param
      - empty(), remove_from_frame() and the `array` property REPLACE the content of the stored array by binding
        `self._array` to a new array (true) or by overwriting the stored array in place (`self._array[...] = ..`,
        `.fill(..)`, np.copyto) (false)          -> src_reset_fresh, src_remove_fresh, src_rebuild_fresh
"""
from __future__ import annotations

import ast
from fractions import Fraction
from pathlib import Path

from harness.core import TranslationError

from .c14_norm import Sym, imported_names, inline_method_calls
from .common import HEADER, body_no_doc, fail, find_func, parse

CHARGE = "pyxel/data_structure/charge.py"
GEOM = "pyxel/detectors/geometry.py"
_REPO: list = [None]                      # set by translate(): where modules of the package are read from


def _modname(rel: str) -> str:
    return rel[:-3].replace("/", ".")


def _loader(mod: str):
    """`pkg.mod` -> (tree, is_package) read from the repository being translated, or None"""
    rel = mod.replace(".", "/")
    for cand, pkg in ((rel + ".py", False), (rel + "/__init__.py", True)):
        try:
            return parse(_REPO[0], cand), pkg
        except Exception:
            continue
    return None

PRELUDE = (HEADER +
           "From Coq Require Import ZArith QArith Qround List Bool.\n"
           "From PyxelV Require Import Model.Charge Model.ChargeHeap.\n"
           "Open Scope Q_scope.\n")


# ------------------------------------------------------------------------------------------ small helpers


def _np_call(node: ast.AST, names) -> bool:
    """`np.<name>(...)` / `numpy.<name>(...)` for one of `names`."""
    return (isinstance(node, ast.Call) and isinstance(node.func, ast.Attribute) and node.func.attr in names
            and isinstance(node.func.value, ast.Name) and node.func.value.id in ("np", "numpy"))


def _geo_attr(node: ast.AST) -> str | None:
    """self._geo.<attr> -> attr"""
    if (isinstance(node, ast.Attribute) and isinstance(node.value, ast.Attribute) and node.value.attr == "_geo"
            and isinstance(node.value.value, ast.Name) and node.value.value.id == "self"):
        return node.attr
    return None


def _num(node: ast.AST) -> Fraction | None:
    if isinstance(node, ast.Constant) and isinstance(node.value, (int, float)) and not isinstance(node.value, bool):
        return Fraction(node.value)
    if isinstance(node, ast.UnaryOp) and isinstance(node.op, ast.USub):
        v = _num(node.operand)
        return None if v is None else -v
    return None


def _q(fr: Fraction) -> str:
    return f"({fr.numerator} # {fr.denominator})"


def _args(call: ast.Call, params: list[str]) -> dict[str, ast.AST]:
    """Bind positional and keyword arguments to parameter names."""
    if any(isinstance(a, ast.Starred) for a in call.args) or any(k.arg is None for k in call.keywords):
        fail(call, "star arguments not accepted")
    if len(call.args) > len(params):
        fail(call, "too many positional arguments")
    out = dict(zip(params, call.args))
    for k in call.keywords:
        if k.arg not in params or k.arg in out:
            fail(call, f"unexpected or repeated keyword {k.arg!r}")
        out[k.arg] = k.value
    return out


# ------------------------------------------------------------------------------------------ convert_df_to_array


QUANT = {"position_ver": "pv", "position_hor": "ph"}
SIZES = {"pixel_vert_size": "sv", "pixel_horz_size": "sh"}
INT_TYPES = ("int", "np.int64", "np.int32", "np.intp", "np.int_", "numpy.int64")


def _frame_quantity(node: ast.AST) -> str | None:
    """self.get_frame_values(quantity="x") / self.get_frame_values("x") / self._frame["x"].values -> x"""
    if (isinstance(node, ast.Call) and isinstance(node.func, ast.Attribute) and node.func.attr == "get_frame_values"
            and isinstance(node.func.value, ast.Name) and node.func.value.id == "self"):
        a = _args(node, ["quantity", "id_list"])
        if "id_list" in a and not (isinstance(a["id_list"], ast.Constant) and a["id_list"].value is None):
            fail(node, "get_frame_values with an id_list")
        qn = a.get("quantity")
        if isinstance(qn, ast.Constant) and isinstance(qn.value, str):
            return qn.value
        fail(node, "quantity must be a string literal")
    return None


class _IndexExpr:
    """Index expression -> Gallina.  kind 'Z' = integral value (text : Z), 'Q' = rational (text : Q)."""

    def __init__(self, env):
        self.env = env
        self.depth = 0

    def tr(self, node: ast.AST) -> tuple[str, str]:
        self.depth += 1
        if self.depth > 60:
            fail(node, "index expression too deep")
        try:
            return self._tr(node)
        finally:
            self.depth -= 1

    def q(self, node) -> str:
        k, t = self.tr(node)
        return t if k == "Q" else f"(inject_Z {t})"

    def _tr(self, node):
        if isinstance(node, ast.Name):
            if node.id in self.env:
                return self.tr(self.env[node.id])
            fail(node, "unknown name in an index expression")
        fq = _frame_quantity(node)
        if fq is not None:
            if fq not in QUANT:
                fail(node, "an index may only depend on position_ver / position_hor")
            return "Q", QUANT[fq]
        ga = _geo_attr(node)
        if ga is not None:
            if ga not in SIZES:
                fail(node, "an index may only depend on the two pixel sizes")
            return "Q", SIZES[ga]
        v = _num(node)
        if v is not None:
            return "Q", _q(v)
        if isinstance(node, ast.BinOp):
            if isinstance(node.op, ast.FloorDiv):
                return "Z", f"(Qfloor ({self.q(node.left)} / {self.q(node.right)}))"
            ops = {ast.Add: "+", ast.Sub: "-", ast.Mult: "*", ast.Div: "/"}
            if type(node.op) in ops:
                return "Q", f"({self.q(node.left)} {ops[type(node.op)]} {self.q(node.right)})"
            fail(node, "operator not accepted in an index expression")
        if isinstance(node, ast.UnaryOp) and isinstance(node.op, ast.USub):
            return "Q", f"(- {self.q(node.operand)})"
        if _np_call(node, ("floor_divide",)):
            a = _args(node, ["x1", "x2"])
            if len(a) != 2:
                fail(node, "floor_divide needs two arguments")
            return "Z", f"(Qfloor ({self.q(a['x1'])} / {self.q(a['x2'])}))"
        if _np_call(node, ("divide", "true_divide")):
            a = _args(node, ["x1", "x2"])
            if len(a) != 2:
                fail(node, "divide needs two arguments")
            return "Q", f"({self.q(a['x1'])} / {self.q(a['x2'])})"
        for names, fn in ((("floor",), "Qfloor"), (("trunc", "fix"), "Qtrunc"), (("ceil",), "Qceiling"),
                          (("rint", "round", "around"), "Qrint")):
            if _np_call(node, names):
                if len(node.args) != 1 or node.keywords:
                    fail(node, "rounding function with extra arguments")
                return "Z", f"({fn} {self.q(node.args[0])})"
        # X.astype(int) : conversion to integer truncates toward zero
        if (isinstance(node, ast.Call) and isinstance(node.func, ast.Attribute) and node.func.attr == "astype"
                and len(node.args) == 1 and not node.keywords):
            if ast.unparse(node.args[0]) not in INT_TYPES:
                fail(node, "astype target must be an integer type")
            k, t = self.tr(node.func.value)
            return "Z", t if k == "Z" else f"(Qtrunc {t})"
        fail(node, "index expression shape not accepted")


def _mask_expr(node: ast.AST, tf: str, ts: str) -> str:
    """Boolean mask (fully expanded expression) over the two index arrays -> Gallina bool over iv ih rows cols : Z.
    An operand IS the first / second index array when it translates to the same integral Gallina expression
    (`tf` / `ts`) -- whatever it is called and whether or not the `.astype(int)` has been applied yet."""
    ix = _IndexExpr({})

    def z(n) -> str:
        try:
            k, t = ix.tr(n)
        except TranslationError:
            k = t = None
        if k == "Z" and t == tf:
            return "iv"
        if k == "Z" and t == ts:
            return "ih"
        if isinstance(n, ast.Name):
            fail(n, "the mask may only mention the two index arrays handed to the loop")
        ga = _geo_attr(n)
        if ga == "row":
            return "rows"
        if ga == "col":
            return "cols"
        v = _num(n)
        if v is not None and v.denominator == 1:
            return f"({v.numerator})"
        if isinstance(n, ast.BinOp) and isinstance(n.op, (ast.Add, ast.Sub)):
            return f"({z(n.left)} {'+' if isinstance(n.op, ast.Add) else '-'} {z(n.right)})"
        fail(n, "mask operand not accepted")

    def cmp1(a, op, b) -> str:
        x, y = z(a), z(b)
        if isinstance(op, ast.LtE):
            return f"({x} <=? {y})%Z"
        if isinstance(op, ast.Lt):
            return f"({x} <? {y})%Z"
        if isinstance(op, ast.GtE):
            return f"({y} <=? {x})%Z"
        if isinstance(op, ast.Gt):
            return f"({y} <? {x})%Z"
        if isinstance(op, ast.Eq):
            return f"({x} =? {y})%Z"
        if isinstance(op, ast.NotEq):
            return f"(negb ({x} =? {y})%Z)"
        fail(a, "comparison operator not accepted in the mask")

    def b(n, depth=0) -> str:
        if depth > 40:
            fail(n, "mask too deep")
        if isinstance(n, ast.BinOp) and isinstance(n.op, (ast.BitAnd, ast.BitOr)):
            return f"({b(n.left, depth + 1)} {'&&' if isinstance(n.op, ast.BitAnd) else '||'} {b(n.right, depth + 1)})"
        if isinstance(n, ast.UnaryOp) and isinstance(n.op, ast.Invert):
            return f"(negb {b(n.operand, depth + 1)})"
        if _np_call(n, ("logical_and", "logical_or")) and len(n.args) == 2 and not n.keywords:
            op = "&&" if n.func.attr == "logical_and" else "||"
            return f"({b(n.args[0], depth + 1)} {op} {b(n.args[1], depth + 1)})"
        if _np_call(n, ("logical_not",)) and len(n.args) == 1 and not n.keywords:
            return f"(negb {b(n.args[0], depth + 1)})"
        if isinstance(n, ast.Compare):
            parts, left = [], n.left
            for op, right in zip(n.ops, n.comparators):
                parts.append(cmp1(left, op, right))
                left = right
            out = parts[0]
            for p in parts[1:]:
                out = f"({out} && {p})"
            return out
        fail(n, "mask shape not accepted")

    return b(node)


def _loop(inner: ast.FunctionDef):
    """-> (params, array param, first-subscript param, second-subscript param, value param, accumulates)

    Accepted headers (i = the position of the current cluster, v = its value):
        for i, v in enumerate(VALS)              for i in range(len(VALS)) / range(VALS.size) / range(VALS.shape[0])
        i = 0; for v in VALS: ...; i += 1        (manual counter, initialised to 0 just before the loop, incremented
                                                  by 1 as the LAST statement of the body)
    Body: any number of assignments of loop-local names (substituted), then ONE store `ARR[A[i], B[i]] += v`."""
    if inner.args.vararg or inner.args.kwarg or inner.args.kwonlyargs or inner.args.posonlyargs or inner.args.defaults:
        fail(inner, "inner loop function parameter kinds")
    decs = [ast.unparse(d.func if isinstance(d, ast.Call) else d) for d in inner.decorator_list]
    if decs not in (["njit"], ["numba.njit"], ["jit"], ["numba.jit"], []):
        fail(inner, "inner loop function decorators")
    params = [a.arg for a in inner.args.args]
    body = [st for st in body_no_doc(inner) if not isinstance(st, ast.Pass)]
    # straight-line prelude (aliases of the parameters, the counter of a manual loop), then the loop, then the return
    k = next((i for i, st in enumerate(body) if isinstance(st, ast.For)), None)
    if k is None or len(body) != k + 2 or not isinstance(body[-1], ast.Return) or body[k].orelse:
        fail(inner, "inner loop function must be `for ...: ...` followed by `return <array>`")
    sym = Sym(ast.Module(body=[], type_ignores=[]))
    pre: dict[str, ast.AST] = {}
    sym.run(body[:k], pre, where=inner.name)
    for name in pre:
        if name in params:
            fail(inner, f"{inner.name}: parameter {name} is rebound before the loop")
    loop, ret = body[k], body[-1]
    retv = sym.expand(ret.value, {n: v for n, v in pre.items() if isinstance(v, ast.Name)})
    if not (isinstance(retv, ast.Name) and retv.id in params):
        fail(ret, "the loop function must return its array parameter")
    arr = retv.id

    def as_param(n):
        """a parameter, possibly through an alias taken before the loop"""
        n = sym.expand(n, pre)
        return n.id if isinstance(n, ast.Name) and n.id in params else None

    it = sym.expand(loop.iter, pre)
    val_param = idx = val_name = None
    lbody = [st for st in loop.body if not isinstance(st, ast.Pass)]
    if (isinstance(it, ast.Call) and isinstance(it.func, ast.Name) and it.func.id == "enumerate" and len(it.args) == 1
            and not it.keywords and isinstance(it.args[0], ast.Name) and isinstance(loop.target, ast.Tuple)
            and len(loop.target.elts) == 2 and all(isinstance(e, ast.Name) for e in loop.target.elts)):
        val_param, idx, val_name = it.args[0].id, loop.target.elts[0].id, loop.target.elts[1].id
    elif (isinstance(it, ast.Call) and isinstance(it.func, ast.Name) and it.func.id == "range" and not it.keywords
          and isinstance(loop.target, ast.Name) and 1 <= len(it.args) <= 3):
        if len(it.args) >= 2 and _num(it.args[0]) != 0:
            fail(it, "range(...) must start at 0")
        if len(it.args) == 3 and _num(it.args[2]) != 1:
            fail(it, "range(...) must step by 1")
        a = it.args[0] if len(it.args) == 1 else it.args[1]
        if (isinstance(a, ast.Call) and isinstance(a.func, ast.Name) and a.func.id == "len" and len(a.args) == 1
                and isinstance(a.args[0], ast.Name)):
            val_param = a.args[0].id
        elif isinstance(a, ast.Attribute) and a.attr == "size" and isinstance(a.value, ast.Name):
            val_param = a.value.id
        elif (isinstance(a, ast.Subscript) and isinstance(a.value, ast.Attribute) and a.value.attr == "shape"
              and isinstance(a.value.value, ast.Name) and _num(a.slice) == 0):
            val_param = a.value.value.id
        else:
            fail(it, "range(...) must run over the length of the value array")
        idx = loop.target.id
    elif isinstance(it, ast.Name) and it.id in params and isinstance(loop.target, ast.Name):
        # manual counter
        cnt = [n for n, v in pre.items() if _num(v) == 0]
        last = lbody[-1] if lbody else None
        if not (isinstance(last, ast.AugAssign) and isinstance(last.op, ast.Add) and isinstance(last.target, ast.Name)
                and last.target.id in cnt and _num(last.value) == 1):
            fail(loop, "loop over the values without enumerate: the last statement must increment a counter "
                       "initialised to 0 before the loop")
        val_param, idx, val_name = it.id, last.target.id, loop.target.id
        lbody = lbody[:-1]
        if any(isinstance(e, ast.Name) and e.id == idx and isinstance(e.ctx, ast.Store)
               for st in lbody for e in ast.walk(st)):
            fail(loop, "the counter is assigned inside the loop")
    else:
        fail(loop, "loop header not accepted")
    if val_param not in params:
        fail(loop, "the loop must run over a parameter")
    if not lbody:
        fail(loop, "empty loop body")
    # loop-local names: substituted into the store
    env = {n: v for n, v in pre.items() if n != idx}
    sym.run(lbody[:-1], env, where=inner.name)
    for name in set(env) - set(pre):
        if name in params or name in (idx, val_name):
            fail(loop, f"{name} is rebound inside the loop")
    st = lbody[-1]
    if isinstance(st, ast.AugAssign) and isinstance(st.op, ast.Add):
        tgt, rhs, acc = sym.expand(st.target, env), sym.expand(st.value, env), True
    elif isinstance(st, ast.Assign) and len(st.targets) == 1:
        tgt, rhs, acc = sym.expand(st.targets[0], env), sym.expand(st.value, env), False
        # `a[i, j] = a[i, j] + v` is an accumulation too
        if isinstance(rhs, ast.BinOp) and isinstance(rhs.op, ast.Add):
            l, r = ast.unparse(rhs.left), ast.unparse(rhs.right)
            if l == ast.unparse(tgt):
                rhs, acc = rhs.right, True
            elif r == ast.unparse(tgt):
                rhs, acc = rhs.left, True
    else:
        fail(st, "loop statement not accepted")

    def elem(n) -> str:
        if (isinstance(n, ast.Subscript) and isinstance(n.value, ast.Name) and n.value.id in params
                and isinstance(n.slice, ast.Name) and n.slice.id == idx):
            return n.value.id
        fail(n, "expected <parameter>[<loop index>]")

    if not (isinstance(tgt, ast.Subscript) and isinstance(tgt.value, ast.Name) and tgt.value.id == arr):
        fail(st, "the loop must store into <array>[<first>, <second>]")
    sl = tgt.slice
    if isinstance(sl, ast.Tuple) and len(sl.elts) == 2:
        first, second = elem(sl.elts[0]), elem(sl.elts[1])
    else:
        fail(st, "the loop must store into <array>[<first>, <second>]")
    if val_name is not None and isinstance(rhs, ast.Name) and rhs.id == val_name:
        pass
    elif elem(rhs) == val_param:
        pass
    else:
        fail(st, "the stored value must be the current element of the value array")
    if len({arr, first, second, val_param}) != 4:
        fail(inner, "array, first index, second index and values must be four different parameters")
    return params, arr, first, second, val_param, acc


KEEP_CALLS = ("get_frame_values", "create_charges", "convert_array_to_df", "convert_df_to_array",
              "get_vertical_pixel_center_pos", "get_horizontal_pixel_center_pos")


def _charge_sym(tree) -> Sym:
    cands = [n for n in ast.walk(tree) if isinstance(n, ast.ClassDef) and n.name == "Charge"]
    if len(cands) != 1:
        fail(None, "class Charge not found exactly once")
    return Sym(tree, cands[0], keep=KEEP_CALLS, modname=_modname(CHARGE), loader=_loader)


ADD_AT = "__c14_add_at__"


def _df_to_array(tree) -> dict:
    fn = find_func(tree, "convert_df_to_array", "Charge")
    inner = [st for st in body_no_doc(fn) if isinstance(st, ast.FunctionDef)]
    if len(inner) > 1:
        fail(fn, "convert_df_to_array must define ONE loop function and return its result")
    inner = inner[0] if inner else None
    sym = _charge_sym(tree)
    if inner is not None:
        sym.keep.add(inner.name)
    env: dict[str, ast.AST] = {}

    def on_expr(st, env, aliases):
        """`np.add.at(x, (I, J), V)` with x a local array nobody else refers to: the unbuffered in-place
        `x[I[k], J[k]] += V[k]` for k = 0, 1, ... -- the loop, written as one numpy call"""
        c = st.value
        if not (isinstance(c, ast.Call) and ast.unparse(c.func) in ("np.add.at", "numpy.add.at") and not c.keywords
                and len(c.args) == 3 and isinstance(c.args[0], ast.Name) and c.args[0].id in env):
            return False
        x = c.args[0].id
        if aliases.get(x):
            fail(st, f"np.add.at on {x}, which has an alias")
        env[x] = ast.Call(func=ast.Name(id=ADD_AT, ctx=ast.Load()),
                          args=[env[x], sym.expand(c.args[1], env), sym.expand(c.args[2], env)], keywords=[])
        return True

    # straight-line code read symbolically: aliases, named intermediate results and same-module helpers disappear
    call = sym.run(body_no_doc(fn), env, where="convert_df_to_array", skip=(ast.FunctionDef,), on_expr=on_expr)
    if call is None:
        fail(fn, "convert_df_to_array must return the accumulated array")
    if inner is not None and inner.name in env:
        fail(fn, f"{inner.name} is rebound")
    if isinstance(call, ast.Call) and isinstance(call.func, ast.Name) and call.func.id == ADD_AT:
        idx = call.args[1]
        if not (isinstance(idx, ast.Tuple) and len(idx.elts) == 2):
            fail(call, "np.add.at must be given the pair (first subscripts, second subscripts)")
        arr, first, second, vals, acc = "array", "first", "second", "vals", True
        bound = {arr: call.args[0], first: idx.elts[0], second: idx.elts[1], vals: call.args[2]}
    else:
        if inner is None:
            fail(fn, "convert_df_to_array must define the loop function and return its result")
        params, arr, first, second, vals, acc = _loop(inner)
        if not (isinstance(call, ast.Call) and isinstance(call.func, ast.Name) and call.func.id == inner.name):
            fail(call, "convert_df_to_array must return the call of its loop function")
        bound = _args(call, params)
        if set(bound) != set(params):
            fail(call, "every parameter of the loop function must be given")

    # the array: zeros of shape (row, col)
    a = bound[arr]
    ok_arr = False
    if _np_call(a, ("zeros",)) and (a.args or any(k.arg == "shape" for k in a.keywords)):
        shp = a.args[0] if a.args else next(k.value for k in a.keywords if k.arg == "shape")
        if (isinstance(shp, (ast.Tuple, ast.List)) and len(shp.elts) == 2 and _geo_attr(shp.elts[0]) == "row"
                and _geo_attr(shp.elts[1]) == "col"):
            extra = [ast.unparse(x) for x in a.args[1:]] + [f"{k.arg}={ast.unparse(k.value)}" for k in a.keywords
                                                            if k.arg != "shape"]
            ok_arr = all(e in ("float", "np.float64", "dtype=float", "dtype=np.float64") for e in extra)
    if not ok_arr:
        fail(bound[arr], "the accumulated array must be np.zeros((self._geo.row, self._geo.col))")

    def split(node):
        """argument -> (base expression, mask expression | None)"""
        if (isinstance(node, ast.Subscript) and not isinstance(node.slice, (ast.Constant, ast.Slice, ast.Tuple))
                and _frame_quantity(node) is None):
            return node.value, node.slice
        return node, None

    (nf, mf), (ns, ms), (nv, mv) = split(bound[first]), split(bound[second]), split(bound[vals])
    masks = {None if m is None else ast.unparse(m) for m in (mf, ms, mv)}
    if len(masks) != 1:
        fail(call, "values and both index arrays must carry the same mask")
    ix = _IndexExpr({})
    kf, tf = ix.tr(nf)
    ks, ts = ix.tr(ns)
    if kf != "Z" or ks != "Z":
        fail(call, "an index array must be converted to integers")
    if tf == ts:
        fail(call, "both subscripts come from the same array")
    keep = "true" if mf is None else _mask_expr(mf, tf, ts)
    vq = _frame_quantity(nv)
    if vq is None:
        fail(nv, "the accumulated values must be a frame column")
    return dict(iv=tf, ih=ts, keep=keep, acc=acc, number=(vq == "number"), _inlined=list(sym.inlined))


# ------------------------------------------------------------------------------------------ geometry.py centres


def _poly_mul(a, b):
    out: dict = {}
    for (k1, s1), c1 in a.items():
        for (k2, s2), c2 in b.items():
            m = (k1 + k2, s1 + s2)
            out[m] = out.get(m, 0) + c1 * c2
    return {m: c for m, c in out.items() if c != 0}


def _poly_add(a, b, sign=1):
    out = dict(a)
    for m, c in b.items():
        out[m] = out.get(m, 0) + sign * c
    return {m: c for m, c in out.items() if c != 0}


def _centre_fn(tree, name: str, count_param: str, other_param: str, size_param: str, layout: str):
    """-> polynomial {(deg k, deg s): coeff} of the centre of pixel k; checks arange over the right count and
    the flat layout (vertical: np.repeat(x, num_cols); horizontal: np.tile(x, num_rows))."""
    fn = find_func(tree, name)
    params = [a.arg for a in fn.args.args + fn.args.kwonlyargs]
    if sorted(params) != sorted([count_param, other_param, size_param]):
        fail(fn, f"{name} parameters")
    sym = Sym(tree, modname=_modname(GEOM), loader=_loader)

    def poly(n):
        if isinstance(n, ast.Name):
            if n.id == size_param:
                return {(0, 1): Fraction(1)}
            fail(n, "unknown name in a centre expression")
        v = _num(n)
        if v is not None:
            return {(0, 0): v} if v != 0 else {}
        if _np_call(n, ("arange",)):
            a = _args(n, ["start", "stop", "step"])
            if len(n.args) + len(n.keywords) == 1:
                a = {"start": ast.Constant(0), "stop": n.args[0] if n.args else n.keywords[0].value, "step": ast.Constant(1)}
            if (_num(a.get("start", ast.Constant(0))) != 0 or _num(a.get("step", ast.Constant(1))) != 1
                    or not (isinstance(a.get("stop"), ast.Name) and a["stop"].id == count_param)):
                fail(n, f"expected np.arange(0, {count_param}, 1)")
            return {(1, 0): Fraction(1)}
        if _np_call(n, ("add", "subtract", "multiply")) and len(n.args) == 2 and not n.keywords:
            l, r = poly(n.args[0]), poly(n.args[1])
            return {"add": _poly_add(l, r), "subtract": _poly_add(l, r, -1), "multiply": _poly_mul(l, r)}[n.func.attr]
        if isinstance(n, ast.BinOp):
            if isinstance(n.op, ast.Add):
                return _poly_add(poly(n.left), poly(n.right))
            if isinstance(n.op, ast.Sub):
                return _poly_add(poly(n.left), poly(n.right), -1)
            if isinstance(n.op, ast.Mult):
                return _poly_mul(poly(n.left), poly(n.right))
            if isinstance(n.op, ast.Div):
                d = _num(n.right)
                if d is None or d == 0:
                    fail(n, "division by something that is not a non-zero number")
                return {m: c / d for m, c in poly(n.left).items()}
        if isinstance(n, ast.UnaryOp) and isinstance(n.op, ast.USub):
            return {m: -c for m, c in poly(n.operand).items()}
        fail(n, "centre expression shape not accepted")

    # straight-line code read symbolically: local names, `x += ..` and same-module helpers disappear; what is left
    # is one expression over the three parameters
    env: dict[str, ast.AST] = {}
    r = sym.run(body_no_doc(fn), env, where=name)
    if r is None:
        fail(fn, f"{name} must end with a return")
    for p_ in params:
        if p_ in env:
            fail(fn, f"{name}: parameter {p_} is rebound")
    want = "repeat" if layout == "repeat" else "tile"
    if not _np_call(r, (want,)):
        fail(r, f"{name} must return np.{want}(<centres>, {other_param})")
    names = ["a", "repeats"] if want == "repeat" else ["A", "reps"]
    a = _args(r, names)
    vals = [a.get(names[0]), a.get(names[1])]
    if len(a) != 2 or None in vals or not (isinstance(vals[1], ast.Name) and vals[1].id == other_param):
        fail(r, f"{name} must return np.{want}(<centres>, {other_param})")
    return poly(vals[0]), list(sym.inlined)


def _centre_text(p: dict, s: str) -> str:
    """Gallina text of the polynomial in k (nat) and the size variable s."""
    if p == {(1, 1): Fraction(1), (0, 1): Fraction(1, 2)}:
        return f"inject_Z (Z.of_nat k) * {s} + {s} / 2"       # = centre s k, syntactically
    terms = []
    for (dk, ds), c in sorted(p.items(), reverse=True):
        t = _q(c)
        t += " * inject_Z (Z.of_nat k)" * dk + f" * {s}" * ds
        terms.append(t)
    return " + ".join(terms) if terms else "0"


# ------------------------------------------------------------------------------------------ convert_array_to_df


def _array_to_df(tree, gtree) -> dict:
    fn = find_func(tree, "convert_array_to_df", "Charge")
    params = [a.arg for a in fn.args.args + fn.args.kwonlyargs]
    need = ["array", "num_rows", "num_cols", "pixel_vertical_size", "pixel_horizontal_size"]
    if sorted(params) != sorted(need):
        fail(fn, "convert_array_to_df parameters")
    imports = imported_names(tree)

    def centre_helper(f) -> str | None:
        """the function of geometry.py a callee refers to (whatever it is imported as)"""
        if isinstance(f, ast.Name):
            mod, orig = imports.get(f.id, (None, None))
            if mod is not None and mod.split(".")[-1] == "geometry" and orig in (
                    "get_vertical_pixel_center_pos", "get_horizontal_pixel_center_pos"):
                return orig
        if isinstance(f, ast.Attribute) and isinstance(f.value, ast.Name) and f.attr in (
                "get_vertical_pixel_center_pos", "get_horizontal_pixel_center_pos"):
            mod, orig = imports.get(f.value.id, (None, None))
            if mod is not None and (orig == "geometry" or (orig is None and mod.split(".")[-1] == "geometry")):
                return f.attr
        return None

    def straight(call, helper, mapping):
        """every parameter of the geometry helper receives the parameter of the same meaning"""
        g = find_func(gtree, helper)
        a = _args(call, [x.arg for x in g.args.posonlyargs + g.args.args + g.args.kwonlyargs])
        if set(a) != set(mapping):
            fail(call, "pixel-centre helper must be given its three arguments")
        for k, v in mapping.items():
            if not (isinstance(a[k], ast.Name) and a[k].id == v):
                fail(call, f"{k} must be passed {v}")

    def sym(n) -> tuple:
        if isinstance(n, ast.Name):
            if n.id == "array":
                return ("array",)
            return ("other",)
        if (isinstance(n, ast.Call) and isinstance(n.func, ast.Attribute) and n.func.attr in ("flatten", "ravel")
                and not n.args and not n.keywords and sym(n.func.value) == ("array",)):
            return ("flat",)
        if _np_call(n, ("ravel",)) and len(n.args) == 1 and not n.keywords and sym(n.args[0]) == ("array",):
            return ("flat",)
        if isinstance(n, ast.Compare) and len(n.ops) == 1 and (sym(n.left) == ("flat",) or sym(n.comparators[0]) == ("flat",)):
            op, other = n.ops[0], n.comparators[0]
            if sym(n.left) != ("flat",):               # `0.0 < flat`  ==  `flat > 0.0`
                other = n.left
                op = {ast.Gt: ast.Lt, ast.Lt: ast.Gt, ast.GtE: ast.LtE, ast.LtE: ast.GtE}.get(type(op), type(op))()
            c = _num(other)
            if c is None:
                fail(n, "the selection threshold must be a number")
            if isinstance(op, ast.Gt):
                t = f"negb (Qle_bool x {_q(c)})"
            elif isinstance(op, ast.GtE):
                t = f"Qle_bool {_q(c)} x"
            elif isinstance(op, ast.NotEq):
                t = f"negb (Qeq_bool x {_q(c)})"
            elif isinstance(op, ast.Lt):
                t = f"negb (Qle_bool {_q(c)} x)"
            elif isinstance(op, ast.LtE):
                t = f"Qle_bool x {_q(c)}"
            else:
                fail(n, "selection comparison not accepted")
            return ("cond", t)
        if _np_call(n, ("where", "nonzero", "flatnonzero")) and len(n.args) == 1 and not n.keywords:
            c = sym(n.args[0])
            if c[0] != "cond":
                fail(n, "np.where must select on a comparison of the flattened array")
            return ("sel", c[1])
        if isinstance(n, ast.Subscript):
            b, i = sym(n.value), sym(n.slice)
            if i[0] == "cond":
                i = ("sel", i[1])
            if i[0] == "sel" and b[0] in ("flat", "vc", "hc"):
                return ({"flat": "entries", "vc": "vsel", "hc": "hsel"}[b[0]], i[1])
            fail(n, "subscript shape not accepted")
        if isinstance(n, ast.Call):
            h = centre_helper(n.func)
            if h == "get_vertical_pixel_center_pos":
                straight(n, h, dict(num_rows="num_rows", num_cols="num_cols", pixel_vertical_size="pixel_vertical_size"))
                return ("vc",)
            if h == "get_horizontal_pixel_center_pos":
                straight(n, h, dict(num_rows="num_rows", num_cols="num_cols",
                                    pixel_horizontal_size="pixel_horizontal_size"))
                return ("hc",)
        return ("other",)

    # straight-line code read symbolically (aliases, reassigned names, same-module helpers disappear)
    sx = _charge_sym(tree)
    env: dict[str, ast.AST] = {}
    r = sx.run(body_no_doc(fn), env, where="convert_array_to_df")
    if r is None:
        fail(fn, "convert_array_to_df must end with a return")
    for p_ in params:
        if p_ in env:
            fail(fn, f"convert_array_to_df: parameter {p_} is rebound")
    if not (isinstance(r, ast.Call) and ast.unparse(r.func) in ("Charge.create_charges", "cls.create_charges")
            and not r.args):
        fail(r, "convert_array_to_df must return Charge.create_charges(...)")
    kw = {k.arg: k.value for k in r.keywords}
    for need_kw in ("particles_per_cluster", "init_ver_position", "init_hor_position"):
        if need_kw not in kw:
            fail(r, f"create_charges is not given {need_kw}")
    n, v, h = sym(kw["particles_per_cluster"]), sym(kw["init_ver_position"]), sym(kw["init_hor_position"])
    if n[0] != "entries" or v[0] != "vsel" or h[0] != "hsel" or not (n[1] == v[1] == h[1]):
        fail(r, "number / vertical / horizontal positions must be the selected entries and the selected centres")
    pt = kw.get("particle_type")
    if not (isinstance(pt, ast.Constant) and pt.value == "e"):
        fail(r, "converted charge must be electrons")
    return dict(thr=n[1])


def _create_charges(tree):
    """`create_charges` must feed the columns number / position_ver / position_hor from their own parameters.

    The column mapping may be written as a dict display, `dict(k=v, ..)` or `dict(zip(KEYS, VALUES[, strict=..]))` with
    KEYS / VALUES tuple or list displays of the same length; every name in it is resolved through single-assignment
    locals and module-level literal constants (so the key tuple may live at module level)."""
    fn = find_func(tree, "create_charges", "Charge")
    params = {a.arg for a in fn.args.args + fn.args.kwonlyargs + fn.args.posonlyargs}
    sx = _charge_sym(tree)
    # a local name bound exactly once, by a plain (annotated) assignment, stands for the assigned expression;
    # every other kind of binding (tuple target, op=, walrus, loop / comprehension / with / except / match capture /
    # import / nested def / nested parameter) makes the name opaque
    binds: dict[str, list] = {}
    plain: dict[int, ast.AST] = {}
    for n in ast.walk(fn):
        if isinstance(n, ast.Assign):
            for t in n.targets:
                if isinstance(t, ast.Name):
                    plain[id(t)] = n.value
        elif isinstance(n, ast.AnnAssign) and isinstance(n.target, ast.Name) and n.value is not None:
            plain[id(n.target)] = n.value
    for n in ast.walk(fn):
        if isinstance(n, ast.Name) and isinstance(n.ctx, (ast.Store, ast.Del)):
            binds.setdefault(n.id, []).append(plain.get(id(n)))
        elif isinstance(n, (ast.MatchAs, ast.MatchStar)) and n.name is not None:
            binds.setdefault(n.name, []).append(None)
        elif isinstance(n, ast.MatchMapping) and n.rest is not None:
            binds.setdefault(n.rest, []).append(None)
        elif isinstance(n, ast.ExceptHandler) and n.name is not None:
            binds.setdefault(n.name, []).append(None)
        elif isinstance(n, (ast.Import, ast.ImportFrom)):
            for al in n.names:
                binds.setdefault((al.asname or al.name).split(".")[0], []).append(None)
        elif isinstance(n, (ast.FunctionDef, ast.AsyncFunctionDef, ast.ClassDef)) and n is not fn:
            binds.setdefault(n.name, []).append(None)
        elif isinstance(n, ast.arguments) and n is not fn.args:
            for x in n.posonlyargs + n.args + n.kwonlyargs + [y for y in (n.vararg, n.kwarg) if y is not None]:
                binds.setdefault(x.arg, []).append(None)
        elif isinstance(n, (ast.Global, ast.Nonlocal)):
            for name in n.names:
                binds.setdefault(name, []).append(None)

    def resolve(v):
        """the expression a name stands for (single-assignment local, module-level literal constant), else the node"""
        for _ in range(8):
            if not isinstance(v, ast.Name):
                return v
            if v.id in binds:
                if len(binds[v.id]) != 1 or binds[v.id][0] is None:
                    return v
                v = binds[v.id][0]
                continue
            if v.id in params:
                return v
            if v.id in sx.consts and v.id not in sx.funcs:
                v = sx.consts[v.id]
                continue
            return v
        return v

    def param_of(v):
        v = resolve(v)
        return v.id if isinstance(v, ast.Name) and v.id in params and v.id not in binds else None

    def builtin(f, name):
        return isinstance(f, ast.Name) and f.id == name and name not in binds and name not in sx.local_defs

    def pairs(n):
        """[(key node, value node)] of a column mapping expression, or None"""
        if isinstance(n, ast.Dict):
            if any(k is None for k in n.keys):
                return [(None, None)]                                     # `**other` inside the display: opaque
            return list(zip(n.keys, n.values))
        if isinstance(n, ast.Call) and builtin(n.func, "dict"):
            if not n.args and n.keywords and all(k.arg is not None for k in n.keywords):
                return [(ast.Constant(value=k.arg), k.value) for k in n.keywords]
            if len(n.args) == 1 and not n.keywords:
                z = resolve(n.args[0])
                if (isinstance(z, ast.Call) and builtin(z.func, "zip") and len(z.args) == 2
                        and all(k.arg == "strict" for k in z.keywords)):
                    ks, vs = resolve(z.args[0]), resolve(z.args[1])
                    if not (isinstance(ks, (ast.Tuple, ast.List)) and isinstance(vs, (ast.Tuple, ast.List))):
                        return [(None, None)]
                    if any(isinstance(e, ast.Starred) for e in ks.elts + vs.elts) or len(ks.elts) != len(vs.elts):
                        fail(n, "create_charges: dict(zip(keys, values)) with displays of different lengths")
                    return list(zip(ks.elts, vs.elts))
                return [(None, None)]
        return None

    want = {"number": "particles_per_cluster", "position_ver": "init_ver_position", "position_hor": "init_hor_position"}
    for d in ast.walk(fn):
        pr = pairs(d)
        if pr is None:
            continue
        got, opaque = {}, False
        for k, v in pr:
            k = resolve(k) if k is not None else None
            if k is None or not isinstance(k, ast.Constant):
                opaque = True                                             # a key the translator cannot read
                continue
            if k.value in want:
                if k.value in got:
                    fail(d, f"create_charges: column {k.value!r} is given twice")
                got[k.value] = param_of(v)
        if got:
            if got != want or opaque:
                fail(d, "create_charges must feed number / position_ver / position_hor from their own parameters")
            return
    fail(fn, "create_charges: the column dictionary was not found")



# ------------------------------------------------------------------------------------------ object identity


FRESH, STORED, FRAME, PROP = ("fresh",), ("stored",), ("frame",), ("prop",)
# calls that return a NEW object whatever their arguments are
_NP_FRESH = ("zeros", "zeros_like", "ones", "ones_like", "empty", "empty_like", "full", "full_like", "copy", "add",
             "subtract", "multiply", "divide", "where", "floor_divide", "repeat", "tile", "arange", "concatenate",
             "stack", "sum", "abs", "maximum", "minimum", "clip", "rint", "round", "floor")
# calls / methods / attributes whose result MAY share memory with their first argument / receiver
_NP_ALIAS = ("asarray", "asanyarray", "ascontiguousarray", "asfortranarray", "atleast_1d", "atleast_2d", "atleast_3d",
             "squeeze", "reshape", "ravel", "transpose", "broadcast_to", "swapaxes", "moveaxis", "flip", "require")
_M_ALIAS = ("view", "reshape", "ravel", "squeeze", "transpose", "swapaxes", "to_numpy", "__array__", "get", "loc",
            "iloc", "head", "tail", "set_index", "reset_index", "rename", "reindex", "infer_objects", "convert_dtypes")
_A_ALIAS = ("T", "values", "real", "imag", "flat", "base", "data", "loc", "iloc", "array")
_M_FRESH = ("copy", "flatten", "tolist", "sum", "mean", "round", "clip", "query", "drop", "sort_values", "sort_index",
            "fillna", "dropna", "assign", "apply", "map", "abs")
# methods that write into their receiver
_M_WRITE = ("fill", "sort", "resize", "put", "itemset", "partition", "setflags", "setfield", "byteswap", "update",
            "insert", "pop", "clear", "append", "extend", "remove")


def _kw(call: ast.Call, name: str):
    for k in call.keywords:
        if k.arg == name:
            return k.value
    return None


def _is_true(node) -> bool:
    return isinstance(node, ast.Constant) and node.value is True


def _is_false(node) -> bool:
    return isinstance(node, ast.Constant) and node.value is False


def _join(classes):
    """Several possible bindings of one name: an alias of a parameter wins, then stored / prop / frame; FRESH only
    if every binding is fresh."""
    cs = list(classes)
    for c in cs:
        if c[0] == "param":
            return c
    for want in (STORED, PROP, FRAME):
        if want in cs:
            return want
    if cs and all(c == FRESH for c in cs):
        return FRESH
    return ("unknown",)


class _Alias:
    """Classifies expressions of one method: FRESH | STORED | FRAME | PROP | ("param", name) | ("unknown",)."""

    # helpers of the class / the module whose RESULT is classified by reading their own returns (set by _identity)
    helpers: dict[str, tuple] = {}      # key -> (FunctionDef, number of leading parameters the call does not pass)
    _active: list[str] = []

    def __init__(self, fn: ast.FunctionDef):
        self.fn = fn
        a = fn.args
        self.params = [x.arg for x in a.posonlyargs + a.args + a.kwonlyargs if x.arg not in ("self", "cls")]
        if a.vararg or a.kwarg:
            self.params += [x.arg for x in (a.vararg, a.kwarg) if x is not None]
        self.env: dict[str, tuple] = {}
        # local names: join of everything they are ever bound to (flow-insensitive), to a fixpoint
        binds: dict[str, list] = {}
        for n in ast.walk(fn):
            tgt = val = None
            if isinstance(n, ast.Assign) and len(n.targets) == 1:
                tgt, val = n.targets[0], n.value
            elif isinstance(n, ast.AnnAssign) and n.value is not None:
                tgt, val = n.target, n.value
            elif isinstance(n, ast.NamedExpr):
                tgt, val = n.target, n.value
            if isinstance(tgt, ast.Name):
                binds.setdefault(tgt.id, []).append(val)
        for _ in range(6):
            new = {}
            for name, vals in binds.items():
                cs = [self.cls(v) for v in vals]
                if name in self.params:          # a parameter that is also rebound: it may still be the argument
                    cs.append(("param", name))
                new[name] = _join(cs)
            if new == self.env:
                break
            self.env = new

    def cls(self, n: ast.AST, depth=0) -> tuple:
        if depth > 30:
            return ("unknown",)
        d = depth + 1
        if isinstance(n, ast.Name):
            if n.id in self.env:
                return self.env[n.id]
            if n.id in self.params:
                return ("param", n.id)
            return ("unknown",)
        if isinstance(n, ast.Attribute):
            if isinstance(n.value, ast.Name) and n.value.id == "self":
                return {"_array": STORED, "array": PROP, "_frame": FRAME, "frame": FRAME}.get(n.attr, ("unknown",))
            if n.attr in _A_ALIAS:
                return self.cls(n.value, d)
            return ("unknown",)
        if isinstance(n, ast.Subscript):           # basic indexing gives a view; fancy indexing a copy -- assume the worst
            return self.cls(n.value, d)
        if isinstance(n, ast.Starred):
            return self.cls(n.value, d)
        if isinstance(n, ast.BoolOp):              # `a or b` IS one of its operands
            return _join([self.cls(v, d) for v in n.values])
        if isinstance(n, (ast.BinOp, ast.UnaryOp, ast.Compare, ast.Constant, ast.JoinedStr, ast.ListComp,
                          ast.List, ast.Tuple, ast.Dict, ast.Set, ast.DictComp, ast.GeneratorExp)):
            return FRESH
        if isinstance(n, ast.IfExp):
            return _join([self.cls(n.body, d), self.cls(n.orelse, d)])
        if isinstance(n, ast.NamedExpr):
            return self.cls(n.value, d)
        if isinstance(n, ast.Call):
            f = n.func
            if isinstance(f, ast.Attribute) and isinstance(f.value, ast.Name) and f.value.id in ("np", "numpy"):
                if f.attr == "array":              # np.array copies unless told otherwise
                    c = _kw(n, "copy")
                    if c is None or _is_true(c):
                        return FRESH
                    return self.cls(n.args[0], d) if n.args else ("unknown",)
                if f.attr in _NP_ALIAS:
                    return self.cls(n.args[0], d) if n.args else ("unknown",)
                if f.attr in _NP_FRESH:
                    out = _kw(n, "out")
                    return FRESH if out is None else self.cls(out, d)
                return ("unknown",)
            if isinstance(f, ast.Attribute) and isinstance(f.value, ast.Name) and f.value.id in ("pd", "pandas"):
                if f.attr in ("concat", "DataFrame", "Series", "merge"):
                    c = _kw(n, "copy")
                    if f.attr == "concat" and c is not None and not _is_true(c):
                        return ("unknown",)
                    if f.attr == "DataFrame" and n.args and not isinstance(n.args[0], ast.Dict):
                        # DataFrame(<frame or array>) may share its data
                        return self.cls(n.args[0], d) if (c is None or not _is_true(c)) else FRESH
                    return FRESH
                return ("unknown",)
            h = self._helper_result(n, d)
            if h is not None:
                return h
            if isinstance(f, ast.Attribute):
                recv = f.value
                if ast.unparse(f) in ("self.convert_df_to_array", "Charge.convert_array_to_df", "cls.convert_array_to_df",
                                      "self.convert_array_to_df", "Charge.create_charges", "cls.create_charges",
                                      "self.create_charges", "self.EMPTY_FRAME.copy"):
                    return FRESH
                if f.attr == "astype":
                    c = _kw(n, "copy")
                    return FRESH if (c is None or _is_true(c)) else self.cls(recv, d)
                if f.attr == "copy":
                    deep = _kw(n, "deep")
                    return FRESH if (deep is None or _is_true(deep)) else self.cls(recv, d)
                if f.attr in _M_FRESH:
                    ip = _kw(n, "inplace")
                    return FRESH if (ip is None or _is_false(ip)) else ("unknown",)
                if f.attr in _M_ALIAS:
                    return self.cls(recv, d)
                return ("unknown",)
            return ("unknown",)
        return ("unknown",)

    def _helper_result(self, call: ast.Call, d: int):
        """`self._h(..)` / `_h(..)` with `_h` a private helper of the class / module: the join of what its `return`s
        are, a returned parameter standing for the argument it receives.  None = not such a helper."""
        f = call.func
        if isinstance(f, ast.Attribute) and isinstance(f.value, ast.Name) and f.value.id in ("self", "cls", "Charge"):
            key = "self." + f.attr
        elif isinstance(f, ast.Name):
            key = f.id
        else:
            return None
        got = _Alias.helpers.get(key)
        if got is None or key in _Alias._active or len(_Alias._active) > 4:
            return None
        h, skip = got
        if skip and isinstance(f, ast.Attribute) and f.value.id != "self" and not h.decorator_list:
            return None                        # an instance method called through the class: not followed
        a = h.args
        if a.vararg or a.kwarg or any(isinstance(x, ast.Starred) for x in call.args) or any(
                k.arg is None for k in call.keywords):
            return ("unknown",)
        pos = [x.arg for x in a.posonlyargs + a.args][skip:]
        bound = dict(zip(pos, call.args))
        for k in call.keywords:
            bound[k.arg] = k.value
        _Alias._active.append(key)
        try:
            sub = _Alias(h)
            rets = [r for r in ast.walk(h) if isinstance(r, ast.Return)]
            if not rets or any(r.value is None for r in rets):
                return ("unknown",)
            if any(c[0] == "param" or c == ("unknown",) for c, _ in sub.written()):
                return ("unknown",)            # the helper writes into something it was given: not a pure producer
            out = []
            for r in rets:
                c = sub.cls(r.value)
                if c[0] == "param":
                    c = self.cls(bound[c[1]], d) if c[1] in bound else ("unknown",)
                out.append(c)
            return _join(out)
        finally:
            _Alias._active.pop()

    # -- statements that write INTO an object ----------------------------------------------------------------

    def written(self):
        """Yield (classification of the written object, node) for every statement that mutates an object in place."""
        for n in ast.walk(self.fn):
            if isinstance(n, ast.AugAssign):
                t = n.target
                if isinstance(t, ast.Name):
                    yield self.cls(t), n                     # `x += ..` mutates the array x is bound to
                elif isinstance(t, (ast.Subscript, ast.Attribute)):
                    yield self.cls(t if isinstance(t, ast.Attribute) and isinstance(t.value, ast.Name)
                                   and t.value.id == "self" else t.value), n
            elif isinstance(n, (ast.Assign, ast.AnnAssign)):
                tgts = n.targets if isinstance(n, ast.Assign) else [n.target]
                for t in tgts:
                    for e in (t.elts if isinstance(t, (ast.Tuple, ast.List)) else [t]):
                        if isinstance(e, ast.Subscript):
                            yield self.cls(e.value), n       # x[...] = ..
                        elif isinstance(e, ast.Attribute) and not (isinstance(e.value, ast.Name) and e.value.id == "self"):
                            yield self.cls(e.value), n       # x.attr = ..  (e.g. x.flags.writeable, x.shape)
            elif isinstance(n, ast.Delete):
                for t in n.targets:
                    if isinstance(t, ast.Subscript):
                        yield self.cls(t.value), n
            elif isinstance(n, ast.Call):
                out = _kw(n, "out")
                if out is not None:
                    yield self.cls(out), n
                f = n.func
                if isinstance(f, ast.Attribute):
                    ip = _kw(n, "inplace")
                    if f.attr in _M_WRITE or (ip is not None and not _is_false(ip)):
                        yield self.cls(f.value), n
                    if isinstance(f.value, ast.Name) and f.value.id in ("np", "numpy") and f.attr in (
                            "copyto", "put", "place", "putmask", "fill_diagonal", "put_along_axis") and n.args:
                        yield self.cls(n.args[0]), n


def _mentions(node, al) -> bool:
    """the expression is computed from a parameter (directly or through a local alias of one)"""
    return any(isinstance(n, ast.Name) and (n.id in al.params or al.cls(n)[0] == "param") for n in ast.walk(node))


def _is_sum(al, v) -> bool:
    """`<stored array> + <something computed from a parameter>` (either order), or np.add of the two without `out`."""
    if isinstance(v, ast.BinOp) and isinstance(v.op, ast.Add):
        l, r = v.left, v.right
    elif _np_call(v, ("add",)) and len(v.args) == 2 and _kw(v, "out") is None:
        l, r = v.args
    else:
        return False
    for a, b in ((l, r), (r, l)):
        if al.cls(a) in (STORED, PROP) and al.cls(b)[0] in ("param", "fresh") and _mentions(b, al):
            return True
    return False


def _self_attr(node, names) -> str | None:
    if (isinstance(node, ast.Attribute) and isinstance(node.value, ast.Name) and node.value.id == "self"
            and node.attr in names):
        return node.attr
    return None


def _bindings(fn: ast.FunctionDef, al: _Alias):
    """(attribute, classification of the bound object, node) for every `self._array = ..` / `self._frame = ..`."""
    out = []
    for n in ast.walk(fn):
        tgts, val = [], None
        if isinstance(n, ast.Assign):
            tgts, val = n.targets, n.value
        elif isinstance(n, ast.AnnAssign) and n.value is not None:
            tgts, val = [n.target], n.value
        for t in tgts:
            if isinstance(t, (ast.Tuple, ast.List)):
                if any(_self_attr(e, ("_array", "_frame")) for e in t.elts):
                    fail(n, "tuple assignment to self._array / self._frame")
                continue
            a = _self_attr(t, ("_array", "_frame"))
            if a is not None:
                # `self.x = A if c else B`  ==  `if c: self.x = A` / `else: self.x = B`: one binding per branch
                leaves, todo = [], [val]
                while todo:
                    v = todo.pop()
                    if isinstance(v, ast.IfExp):
                        todo += [v.orelse, v.body]
                    else:
                        leaves.append(v)
                if len(leaves) == 1:
                    out.append((a, al.cls(val), n))
                else:
                    for v in leaves:
                        out.append((a, al.cls(v), ast.copy_location(ast.Assign(targets=[t], value=v), n)))
        if isinstance(n, ast.Call) and ast.unparse(n.func) == "setattr":
            fail(n, "setattr in class Charge")
    return out


def _identity(tree) -> dict:
    cands = [n for n in ast.walk(tree) if isinstance(n, ast.ClassDef) and n.name == "Charge"]
    if len(cands) != 1:
        fail(None, "class Charge not found exactly once")
    # private helper methods called as statements are read as part of their caller (every method is ALSO analysed
    # on its own, so a helper that keeps or writes one of its parameters is still reported)
    raw = [n for n in cands[0].body if isinstance(n, ast.FunctionDef)]
    _Alias.helpers = {}
    by_name: dict[str, list] = {}
    for n in raw:
        by_name.setdefault(n.name, []).append(n)
    for name, fns in by_name.items():
        if len(fns) != 1 or not name.startswith("_") or name.startswith("__"):
            continue
        decs = [ast.unparse(d) for d in fns[0].decorator_list]
        if decs == [] and fns[0].args.args and fns[0].args.args[0].arg == "self":
            _Alias.helpers["self." + name] = (fns[0], 1)
        elif decs == ["staticmethod"]:
            _Alias.helpers["self." + name] = (fns[0], 0)
        elif decs == ["classmethod"]:
            _Alias.helpers["self." + name] = (fns[0], 1)
    mod_fns: dict[str, list] = {}
    for n in tree.body:
        if isinstance(n, ast.FunctionDef):
            mod_fns.setdefault(n.name, []).append(n)
    for name, fns in mod_fns.items():
        if len(fns) == 1 and not fns[0].decorator_list:
            _Alias.helpers[name] = (fns[0], 0)
    methods = [inline_method_calls(cands[0], n) for n in raw]
    followed = sorted({h for fn in methods for h in getattr(fn, "c14_inlined", [])})
    res = dict(add=None, writes_arg=False, df_adopts=False, binds_param=False, _inlined_methods=followed)
    modes = set()
    for fn in methods:
        al = _Alias(fn)
        binds = _bindings(fn, al)
        for attr, c, node in binds:
            if c[0] == "unknown":
                fail(node, f"{fn.name}: cannot tell whether the object bound to self.{attr} is shared with something")
            if c[0] == "param":
                if fn.name == "add_charge_array" and attr == "_array":
                    modes.add("AddAdopt")
                elif fn.name == "add_charge_dataframe" and attr == "_frame":
                    res["df_adopts"] = True
                else:
                    res["binds_param"] = True
            elif fn.name == "add_charge_array" and attr == "_array":
                # a NEW array: must be the sum of the stored one and (something computed from) the argument
                if c == STORED:
                    continue                                  # self._array = self._array: no change
                if _is_sum(al, node.value):
                    modes.add("AddFresh")
                else:
                    fail(node, "add_charge_array: self._array is rebound to something that is not "
                               "`self._array + <argument>`")
        for c, node in al.written():
            if c[0] == "param":
                if fn.name == "add_charge_array":
                    res["writes_arg"] = True
                elif fn.name == "add_charge_dataframe":
                    res["df_adopts"] = True
                else:
                    res["binds_param"] = True
            elif c == STORED and fn.name == "add_charge_array":
                # in-place accumulation: `self._array += <argument>`, `self._array[...] += <argument>`,
                # `self._array[...] = self._array + <argument>`, np.add(self._array, <argument>, out=self._array)
                def stored_target(t, al=al):
                    """self._array, a local alias of it, or a slice of either"""
                    if isinstance(t, ast.Subscript):
                        t = t.value
                    return bool(_self_attr(t, ("_array",))) or (isinstance(t, ast.Name) and al.cls(t) == STORED)

                if isinstance(node, ast.AugAssign) and isinstance(node.op, ast.Add) and stored_target(node.target):
                    if not _mentions(node.value, al):
                        fail(node, "add_charge_array: `self._array += ...` must add the argument")
                    modes.add("AddInPlace")
                elif (isinstance(node, ast.Assign) and len(node.targets) == 1 and isinstance(node.targets[0], ast.Subscript)
                      and stored_target(node.targets[0]) and _is_sum(al, node.value)):
                    modes.add("AddInPlace")
                elif (isinstance(node, ast.Call) and _np_call(node, ("add",)) and len(node.args) == 2
                      and _is_sum(al, ast.BinOp(left=node.args[0], op=ast.Add(), right=node.args[1]))):
                    modes.add("AddInPlace")
                else:
                    fail(node, "add_charge_array: in-place write into self._array of a shape that is not accepted")
            elif c[0] == "unknown" and isinstance(node, (ast.AugAssign,)) and fn.name in (
                    "add_charge_array", "add_charge_dataframe"):
                fail(node, f"{fn.name}: cannot tell which object this statement writes into")
    if "AddAdopt" in modes:
        res["add"] = "AddAdopt"
    elif modes == {"AddInPlace"}:
        res["add"] = "AddInPlace"
    elif modes == {"AddFresh"}:
        res["add"] = "AddFresh"
    else:
        fail(find_func(tree, "add_charge_array", "Charge"),
             f"add_charge_array: the accumulation into self._array was not found in one accepted shape ({sorted(modes)})")

    # the three places that replace the content of the stored array: a new object, or in place
    def renews(name, fns):
        kinds = set()
        for fn in fns:
            al = _Alias(fn)
            for attr, c, node in _bindings(fn, al):
                if attr == "_array" and c == FRESH:
                    kinds.add(True)
            for c, node in al.written():
                if c == STORED:
                    kinds.add(False)
        if len(kinds) != 1:
            fail(fns[0] if fns else None, f"{name}: the stored array must be replaced either by a new array or in place "
                                          f"(found {sorted(kinds)})")
        return kinds.pop()

    res["reset_fresh"] = renews("empty", [m for m in methods if m.name == "empty"])
    res["remove_fresh"] = renews("remove_from_frame", [m for m in methods if m.name == "remove_from_frame"])
    res["rebuild_fresh"] = renews("array", [m for m in methods if m.name == "array"
                                            and any(ast.unparse(d) == "property" for d in m.decorator_list)])

    # reads: what leaves the container
    def returns(fn):
        return [n for n in ast.walk(fn) if isinstance(n, ast.Return) and n.value is not None]

    props = [m for m in methods if m.name == "array"
             and any(ast.unparse(d) == "property" for d in m.decorator_list)]
    if len(props) != 1:
        fail(None, "the `array` property of Charge was not found exactly once")
    al = _Alias(props[0])
    # a local name that is ALSO bound to self._array in the property (`new = self.convert_df_to_array();
    # self._array = new; return new`) is the stored object
    now_stored = {n.value.id for n in ast.walk(props[0]) if isinstance(n, ast.Assign) and isinstance(n.value, ast.Name)
                  and any(_self_attr(t, ("_array",)) for t in n.targets)}
    cs = {STORED if isinstance(r.value, ast.Name) and r.value.id in now_stored and al.cls(r.value) == FRESH
          else al.cls(r.value) for r in returns(props[0])}
    if cs == {STORED}:
        res["array_exposes"] = True
    elif cs == {FRESH}:
        res["array_exposes"] = False
    else:
        fail(props[0], f"`array` property: returns {sorted(cs)}; expected the stored array or a copy of it")

    arr = [m for m in methods if m.name == "__array__"]
    if len(arr) != 1:
        fail(None, "Charge.__array__ not found exactly once")
    al = _Alias(arr[0])
    cs = {al.cls(r.value) for r in returns(arr[0])}
    if cs == {PROP}:
        res["np_exposes"] = True
    elif cs == {FRESH}:
        res["np_exposes"] = False
    else:
        fail(arr[0], f"__array__: returns {sorted(cs)}; expected (a view of) what the `array` property returns, or a copy")

    tx = [m for m in methods if m.name == "to_xarray"]
    if len(tx) != 1:
        fail(None, "Charge.to_xarray not found exactly once")
    al = _Alias(tx[0])
    calls = [n for n in ast.walk(tx[0]) if isinstance(n, ast.Call) and ast.unparse(n.func) in ("xr.DataArray", "xarray.DataArray")]
    rets = returns(tx[0])
    if len(rets) != 1:
        fail(tx[0], "to_xarray must have one return")
    main = rets[0].value
    if isinstance(main, ast.Name):
        main = next((n.value for n in ast.walk(tx[0]) if isinstance(n, (ast.Assign, ast.AnnAssign)) and n.value is not None
                     and any(isinstance(t, ast.Name) and t.id == main.id
                             for t in (n.targets if isinstance(n, ast.Assign) else [n.target]))), main)
    if main not in calls:
        fail(rets[0], "to_xarray must return xr.DataArray(<data>, ...)")
    data = main.args[0] if main.args else _kw(main, "data")
    if data is None:
        fail(main, "xr.DataArray without data")
    c = al.cls(data)
    if c == FRESH:
        res["xr_copies"] = True
    elif c in (PROP, STORED):
        res["xr_copies"] = False
    else:
        fail(main, "to_xarray: cannot tell whether the data handed to xarray is a copy")
    return res


# ------------------------------------------------------------------------------------------ entry point


NORMALISED: list[str] = []      # helpers followed by the last translate() (evidence only)


def render(d: dict) -> str:
    def b(x) -> str:
        return "true" if x else "false"

    return (PRELUDE +
            "\n(* Charge.convert_df_to_array: first and second subscript of the njit loop *)\n"
            f"Definition src_iv (pv ph sv sh : Q) : Z := {d['iv']}.\n"
            f"Definition src_ih (pv ph sv sh : Q) : Z := {d['ih']}.\n"
            "(* the mask applied before the loop (true = no mask) *)\n"
            f"Definition src_keep (iv ih rows cols : Z) : bool := {d['keep']}.\n"
            f"Definition src_loop_accumulates : bool := {'true' if d['acc'] else 'false'}.\n"
            f"Definition src_value_is_number : bool := {'true' if d['number'] else 'false'}.\n"
            "\n(* Charge.convert_array_to_df + geometry.get_*_pixel_center_pos *)\n"
            f"Definition src_thr (x : Q) : bool := {d['thr']}.\n"
            f"Definition src_cv (sv sh : Q) (k : nat) : Q := {d['cv']}.\n"
            f"Definition src_ch (sv sh : Q) (k : nat) : Q := {d['ch']}.\n"
            "\nDefinition src : srcparams :=\n"
            "  {| sp_iv := src_iv; sp_ih := src_ih; sp_keep := src_keep; sp_thr := src_thr; sp_cv := src_cv; sp_ch := src_ch |}.\n"
            "\n(* object identity: who shares memory with whom (Charge.add_charge_array, .array, __array__, to_xarray,\n"
            "   add_charge_dataframe, every other binding of self._array / self._frame) *)\n"
            f"Definition src_add_mode : add_mode := {d['add']}.\n"
            f"Definition src_add_writes_arg : bool := {b(d['writes_arg'])}.\n"
            f"Definition src_array_exposes : bool := {b(d['array_exposes'])}.\n"
            f"Definition src_np_exposes : bool := {b(d['np_exposes'])}.\n"
            f"Definition src_xr_copies : bool := {b(d['xr_copies'])}.\n"
            f"Definition src_df_adopts : bool := {b(d['df_adopts'])}.\n"
            f"Definition src_binds_param : bool := {b(d['binds_param'])}.\n"
            f"Definition src_reset_fresh : bool := {b(d['reset_fresh'])}.\n"
            f"Definition src_remove_fresh : bool := {b(d['remove_fresh'])}.\n"
            f"Definition src_rebuild_fresh : bool := {b(d['rebuild_fresh'])}.\n"
            "Definition hsrc : heapparams :=\n"
            "  {| hp_add := src_add_mode; hp_writes_arg := src_add_writes_arg; hp_array_exposes := src_array_exposes;\n"
            "     hp_np_exposes := src_np_exposes; hp_xr_copies := src_xr_copies; hp_df_adopts := src_df_adopts;\n"
            "     hp_binds_param := src_binds_param; hp_reset_fresh := src_reset_fresh;\n"
            "     hp_remove_fresh := src_remove_fresh; hp_rebuild_fresh := src_rebuild_fresh |}.\n")


def translate(repo: Path) -> str:
    _REPO[0] = repo
    tree = parse(repo, CHARGE)
    gtree = parse(repo, GEOM)
    d = _df_to_array(tree)
    d.update(_array_to_df(tree, gtree))
    d.update(_identity(tree))
    _create_charges(tree)
    pv, i1 = _centre_fn(gtree, "get_vertical_pixel_center_pos", "num_rows", "num_cols", "pixel_vertical_size", "repeat")
    ph, i2 = _centre_fn(gtree, "get_horizontal_pixel_center_pos", "num_cols", "num_rows", "pixel_horizontal_size", "tile")
    NORMALISED[:] = sorted(set(d.pop("_inlined", []) + i1 + i2 + d.pop("_inlined_methods", [])))
    d["cv"] = _centre_text(pv, "sv")
    d["ch"] = _centre_text(ph, "sh")
    return render(d)


FALLBACK = render(dict(
    iv="(Qfloor (pv / sv))", ih="(Qfloor (ph / sh))",
    keep="(((((0) <=? iv)%Z && (iv <? rows)%Z) && ((0) <=? ih)%Z) && (ih <? cols)%Z)",
    acc=True, number=True, thr="negb (Qle_bool x (0 # 1))",
    cv="inject_Z (Z.of_nat k) * sv + sv / 2", ch="inject_Z (Z.of_nat k) * sh + sh / 2",
    add="AddInPlace", writes_arg=False, array_exposes=True, np_exposes=True, xr_copies=True, df_adopts=False,
    binds_param=False, reset_fresh=True, remove_fresh=True, rebuild_fresh=True))

__all__ = ["translate", "FALLBACK", "TranslationError"]
