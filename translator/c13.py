"""C13: container classes -> Gen_C13.v (src_tables).

Every function is first brought into a canonical form by translator/c13_norm.py (private helpers followed, local aliases
and module-level literals substituted, guard clauses / early returns / if-elif chains / `match` / conditional expressions /
`and`-`or` expanded into one decision tree and rendered in one way, inverted tests turned positive, messages, annotations,
docstrings, logging dropped, locals renamed); the patterns below are written as source text and go through the same
normaliser.  Extracted, fail closed on any other shape:
  * TYPE_LIST of Photon, Pixel, Signal, Image, Phase (tuple of np.dtype(np.<name>));
  * the guard sequence of ArrayBase._validate (isinstance / dtype in TYPE_LIST / shape) with the exception
    class of each guard, and that the `array` setter is `self._validate(value); self._array = value`;
  * the guard sequences of the Photon.array and Photon.array_3d setters (type, dtype, ndim, dims, shape,
    wavelength coordinate), whether negative values are clipped, and that the store is the last statement;
  * that every container's geometry is (geo.row, geo.col);
  * what each Detector bucket setter does (`self.X.array = obj.array` validating /
    `self.X._array = obj._array` raw / the photon setter's dispatch on `obj._array` to `empty()` /
    `.array` / `.array_3d` / no setter);
  * the shape of Photon.__iadd__ and Photon.__add__: the two isinstance guards, then either the raw tail
    (`self._array += other` / `self._array = other`) or the tail through the setters; ArrayBase.__iadd__ /
    __add__: `self.array += other` (in place on the stored array) or the addition on a copy, `self.array = other`
    on an empty container;
  * the shape of ArrayBase.__eq__ (arrays compared only when the left side is initialised / None-ness compared
    on both sides first) and whether Photon.__eq__ compares `(_num_rows, _num_cols)`;
  * the guards of the getters (`ArrayBase.array`, `Photon.array`, `Photon.array_3d`) and of both `__array__`
    methods in front of `return self._array` (which test, which exception);
  * what `empty()` stores for every class (None / float zeros of the container shape), what `update(None)` does
    (`self.empty()` / `self._array = None`), which buckets `Detector.empty(reset)` empties always / under `if reset:`,
    and whether `MKID.empty` zeroes an initialised phase array under `reset`;
  * numpy's in-place output-casting rule `dst += src` over the dtype enum, read from the installed numpy
    (can_cast(result_type(dst, src), dst, 'same_kind'), cross-checked by executing the addition).
"""
from __future__ import annotations

import ast
from pathlib import Path

from . import c13_norm as N
from .common import HEADER, body_no_doc, fail, find_func, find_funcs, parse
from harness.core import TranslationError

DTYPES = ["bool", "int8", "int16", "int32", "int64", "uint8", "uint16", "uint32", "uint64",
          "float16", "float32", "float64", "complex64", "complex128", "object"]
COQ_DT = {"bool": "DBool", "int8": "I8", "int16": "I16", "int32": "I32", "int64": "I64", "uint8": "U8",
          "uint16": "U16", "uint32": "U32", "uint64": "U64", "float16": "F16", "float32": "F32",
          "float64": "F64", "complex64": "C64", "complex128": "C128", "object": "DObj"}
# spellings accepted inside np.dtype(...)
SRC_DT = {"np.bool_": "bool", "np.int8": "int8", "np.int16": "int16", "np.int32": "int32", "np.int64": "int64",
          "np.uint8": "uint8", "np.uint16": "uint16", "np.uint32": "uint32", "np.uint64": "uint64",
          "np.float16": "float16", "np.float32": "float32", "np.float64": "float64", "float": "float64",
          "np.complex64": "complex64", "np.complex128": "complex128", "complex": "complex128",
          "int": "int64", "bool": "bool", "object": "object", "np.object_": "object"}
EXC = {"TypeError": "TypeError", "ValueError": "ValueError"}

CLASSES = {  # class -> (file, Coq constructor)
    "Photon": ("pyxel/data_structure/photon.py", "Photon"),
    "Pixel": ("pyxel/data_structure/pixel.py", "Pixel"),
    "Signal": ("pyxel/data_structure/signal.py", "Signal"),
    "Image": ("pyxel/data_structure/image.py", "Image"),
    "Phase": ("pyxel/data_structure/phase.py", "Phase"),
}
# methods a subclass of ArrayBase must not redefine (the model takes them from ArrayBase)
BASE_ONLY = {"_validate", "array", "__iadd__", "__add__", "__eq__", "shape", "dtype", "__array__"}


def find_class(tree: ast.AST, name: str) -> ast.ClassDef:
    c = [n for n in ast.walk(tree) if isinstance(n, ast.ClassDef) and n.name == name]
    if len(c) != 1:
        raise TranslationError(f"class {name}: found {len(c)}")
    return c[0]


def type_list_of(cls: ast.ClassDef, default=None, module: ast.Module | None = None):
    vals = []
    for st in cls.body:
        tgt = None
        if isinstance(st, ast.Assign) and len(st.targets) == 1 and isinstance(st.targets[0], ast.Name):
            tgt, val = st.targets[0].id, st.value
        elif isinstance(st, ast.AnnAssign) and isinstance(st.target, ast.Name) and st.value is not None:
            tgt, val = st.target.id, st.value
        if tgt == "TYPE_LIST":
            vals.append(val)
    if not vals:
        if default is None:
            fail(cls, f"class {cls.name} has no TYPE_LIST")
        return default
    if len(vals) != 1:
        fail(cls, f"class {cls.name}: several TYPE_LIST assignments")
    v = vals[0]
    if isinstance(v, ast.Name) and module is not None:       # TYPE_LIST = _FLOATS with `_FLOATS = (...)` at module level
        defs = [st for st in module.body if isinstance(st, (ast.Assign, ast.AnnAssign))
                and v.id in {n.id for n in ast.walk(st) if isinstance(n, ast.Name) and isinstance(n.ctx, ast.Store)}]
        if len(defs) != 1 or defs[0].value is None:
            fail(v, f"TYPE_LIST names `{v.id}`, which is not bound exactly once at module level")
        tgt = defs[0].targets[0] if isinstance(defs[0], ast.Assign) else defs[0].target
        if not isinstance(tgt, ast.Name):
            fail(defs[0], "TYPE_LIST constant must be a plain module-level assignment")
        v = defs[0].value
    if not isinstance(v, (ast.Tuple, ast.List)):
        fail(v, "TYPE_LIST must be a tuple/list literal")
    out = []
    for e in v.elts:
        if not (isinstance(e, ast.Call) and ast.unparse(e.func) == "np.dtype" and len(e.args) == 1 and not e.keywords):
            fail(e, "TYPE_LIST entry must be np.dtype(<type>)")
        nm = ast.unparse(e.args[0])
        if isinstance(e.args[0], ast.Constant) and isinstance(e.args[0].value, str):
            nm = "np." + e.args[0].value
        if nm not in SRC_DT:
            fail(e, "TYPE_LIST entry is not a numpy type of the model's enum")
        out.append(SRC_DT[nm])
    return out


def raise_class(body: list[ast.stmt], node) -> str:
    if len(body) != 1 or not isinstance(body[0], ast.Raise) or body[0].exc is None:
        fail(node, "guard body must be a single raise")
    ex = body[0].exc
    nm = ast.unparse(ex.func) if isinstance(ex, ast.Call) else ast.unparse(ex)
    if nm not in EXC:
        fail(ex, "guard must raise TypeError or ValueError")
    return EXC[nm]


def norm(node: ast.AST) -> str:
    return ast.unparse(node).replace("'", '"')


def guards(fn: ast.FunctionDef, tests: dict, ignorable: set, clip_test: str | None, clip_ok, store_ok,
           passive_assign: set):
    """Walk a validating function: returns ({guard: exc}, clip?, order list). Fails on unknown statements."""
    found, order, clip, stored = {}, [], False, False
    for st in fn.body:
        if stored:
            fail(st, f"{fn.name}: statement after the store")
        if isinstance(st, (ast.Import, ast.ImportFrom)):
            continue
        if isinstance(st, (ast.Assign, ast.AnnAssign)):
            tgt = st.targets[0] if isinstance(st, ast.Assign) else st.target
            t = norm(tgt)
            if t in passive_assign:
                want = passive_assign[t]
                if want is not None and norm(st.value) != want:
                    fail(st, f"{fn.name}: unexpected value for {t}")
                continue
            if t == "self._array":
                if not store_ok(norm(st.value)):
                    fail(st, f"{fn.name}: unexpected stored value")
                stored = True
                continue
            fail(st, f"{fn.name}: unexpected assignment")
        if isinstance(st, ast.If) and not st.orelse:
            t = norm(st.test)
            if t in tests:
                g = tests[t]
                if g in found:
                    fail(st, f"{fn.name}: guard {g} twice")
                found[g] = raise_class(st.body, st)
                order.append(g)
                continue
            if t in ignorable:
                raise_class(st.body, st)
                continue
            if clip_test is not None and t == clip_test:
                if not clip_ok(st.body):
                    fail(st, f"{fn.name}: unexpected clipping block")
                clip = True
                order.append("clip")
                continue
        fail(st, f"{fn.name}: statement shape not accepted")
    if not stored:
        fail(fn, f"{fn.name}: no `self._array = ...` store")
    return found, clip, order


def check_order(fn, order, canon):
    idx = [canon.index(g) for g in order]
    if idx != sorted(idx):
        fail(fn, f"{fn.name}: guards in an order the model does not cover: {order}")


def setter_of(cls: ast.ClassDef, prop: str) -> ast.FunctionDef | None:
    c = [n for n in cls.body if isinstance(n, ast.FunctionDef) and n.name == prop
         and any(ast.unparse(d) == f"{prop}.setter" for d in n.decorator_list)]
    if len(c) > 1:
        fail(cls, f"{cls.name}.{prop}: several setters")
    return c[0] if c else None


def is_warn(st):
    return isinstance(st, ast.Expr) and isinstance(st.value, ast.Call) and ast.unparse(st.value.func) == "warnings.warn"


def shape_of(fn: ast.FunctionDef) -> list[str]:
    """Canonical text of every statement of a NORMALISED method (translator/c13_norm.py)."""
    return [norm(st) for st in fn.body]


def C(src: str, params=("self", "other")) -> list[str]:
    """A pattern: the canonical statements of a function with this body (the same normaliser as for the source)."""
    return N.canon_text(src, params)


def _one(src: str) -> str:
    b = C(src + "\nreturn self")
    assert len(b) == 2 and b[1] == "return self", b
    return b[0]


PH_G1 = _one("if isinstance(other, np.ndarray) and isinstance(self._array, xr.DataArray):\n    raise TypeError()")
PH_G2 = _one("if isinstance(other, xr.DataArray) and isinstance(self._array, np.ndarray):\n    raise TypeError()")
PH_RAW = {_one("if self._array is not None:\n    self._array += other\nelse:\n    self._array = other")}
PH_SET = {_one("if self._array is None:\n    if isinstance(other, xr.DataArray):\n        self.array_3d = other\n"
               "    else:\n        self.array = other\nelif isinstance(self._array, xr.DataArray):\n"
               "    self.array_3d += other\nelse:\n    self.array += other"),
          _one("if self._array is None:\n    if isinstance(other, xr.DataArray):\n        self.array_3d = other\n"
               "    else:\n        self.array = other\nelif isinstance(self._array, np.ndarray):\n"
               "    self.array += other\nelse:\n    self.array_3d += other")}
COPY_EXPRS = {"self._array.copy()", "np.copy(self._array)", "self.array.copy()", "np.array(self._array)",
              "np.array(self._array, copy=True)", "self._array.copy(order=\"K\")"}


def is_copy_branch(stmts: list[ast.stmt]) -> bool:
    """`v = <copy of the stored array>; v += other; self.array = v`  (any local name v)"""
    if len(stmts) != 3:
        return False
    a, b, c = stmts
    if not (isinstance(a, ast.Assign) and len(a.targets) == 1 and isinstance(a.targets[0], ast.Name)
            and norm(a.value) in COPY_EXPRS):
        return False
    v = a.targets[0].id
    if v in ("self", "other"):
        return False
    if not (isinstance(b, ast.AugAssign) and isinstance(b.op, ast.Add) and isinstance(b.target, ast.Name)
            and b.target.id == v and norm(b.value) == "other"):
        return False
    return norm(c) == f"self.array = {v}"


def base_iadd_kind(fn: ast.FunctionDef) -> str:
    if [a.arg for a in fn.args.args] != ["self", "other"]:
        fail(fn, f"ArrayBase.{fn.name} signature")
    body = list(fn.body)
    if len(body) != 2 or norm(body[1]) != "return self" or not isinstance(body[0], ast.If):
        fail(fn, f"ArrayBase.{fn.name}: expected one if/else and `return self`")
    st = body[0]
    t = norm(st.test)
    if t == "self._array is not None":
        init, empty = st.body, st.orelse
    elif t == "self._array is None":
        init, empty = st.orelse, st.body
    else:
        fail(st, f"ArrayBase.{fn.name}: the test must be on `self._array is [not] None`")
    if [norm(x) for x in empty] != ["self.array = other"]:
        fail(st, f"ArrayBase.{fn.name}: an empty container must take `self.array = other`")
    if [norm(x) for x in init] == ["self.array += other"]:
        return "BIInPlace"
    if is_copy_branch(init):
        return "BIOnCopy"
    fail(st, f"ArrayBase.{fn.name} must be `self.array += other` or the addition on a copy followed by `self.array = <copy>`")


BASE_EQ_LEFT = [C("is_true = type(self) is type(other) and self.shape == other.shape\n"
                  "if is_true and self._array is not None:\n    is_true = np.array_equal(self.array, other.array)\n"
                  "return is_true")]
_EQ_HEAD = ["if not (type(self) is type(other) and self.shape == other.shape):\n    return False\n"]
_EQ_NONE = ["if self._array is None or other._array is None:\n    return self._array is None and other._array is None\n",
            "if self._array is None or other._array is None:\n    return self._array is other._array\n"]
_EQ_VAL = ["return np.array_equal(self._array, other._array)", "return np.array_equal(self.array, other.array)",
           "return bool(np.array_equal(self._array, other._array))"]
BASE_EQ_BOTH = [C(h + n + v) for h in _EQ_HEAD for n in _EQ_NONE for v in _EQ_VAL]
_PH_EQ_REST = ("if self._array is other._array is None:\n    return True\n"
               "if isinstance(self._array, np.ndarray):\n    return np.array_equal(self._array, other._array)\n"
               "if isinstance(self._array, xr.DataArray):\n    return self._array.equals(other._array)\n"
               "return False")
_PH_EQ_TYPE = "if type(self) is not type(other):\n    return False\n"
PH_EQ_WITH_GEOM = [C(_PH_EQ_TYPE + g + _PH_EQ_REST) for g in (
    "if (self._num_rows, self._num_cols) != (other._num_rows, other._num_cols):\n    return False\n",
    "if self._num_rows != other._num_rows or self._num_cols != other._num_cols:\n    return False\n")]
PH_EQ_NO_GEOM = [C(_PH_EQ_TYPE + _PH_EQ_REST)]
_DET_DISPATCH = ("if obj._array is None:\n    self.photon.empty()\nelif isinstance(obj._array, np.ndarray):\n"
                 "    self.photon.array = obj.array\nelse:\n    self.photon.array_3d = obj.array_3d")
DET_PH_DISPATCH = [C(_DET_DISPATCH, ("self", "obj")),
                   C("if obj is self._photon:\n    return\n" + _DET_DISPATCH, ("self", "obj"))]


def photon_iadd_kind(fn: ast.FunctionDef) -> str:
    if [a.arg for a in fn.args.args] != ["self", "other"]:
        fail(fn, f"Photon.{fn.name} signature")
    b = shape_of(fn)
    if len(b) != 4 or sorted(b[:2]) != sorted([PH_G1, PH_G2]) or b[3] != "return self":
        fail(fn, f"Photon.{fn.name}: expected the two isinstance guards, one if/else tail and `return self`")
    if b[2] in PH_RAW:
        return "IAddRaw"
    if b[2] in PH_SET:
        return "IAddSetters"
    fail(fn, f"Photon.{fn.name}: tail shape not accepted")


def base_eq_kind(fn: ast.FunctionDef) -> str:
    if [a.arg for a in fn.args.args] != ["self", "other"]:
        fail(fn, "ArrayBase.__eq__ signature")
    b = shape_of(fn)
    if b in BASE_EQ_LEFT:
        return "EqLeftOnly"
    if b in BASE_EQ_BOTH:
        return "EqBothNone"
    fail(fn, "ArrayBase.__eq__: shape not accepted")


def photon_eq_geom(fn: ast.FunctionDef) -> bool:
    if [a.arg for a in fn.args.args] != ["self", "other"]:
        fail(fn, "Photon.__eq__ signature")
    b = shape_of(fn)
    if b in PH_EQ_WITH_GEOM:
        return True
    if b in PH_EQ_NO_GEOM:
        return False
    fail(fn, "Photon.__eq__: shape not accepted")



# ---- getters, __array__, empty, update, Detector.empty ------------------------------------------------------------

NONE_TESTS = {"self._array is None", "not _is_array_initialized(self._array)"}


def getter_of(cls: ast.ClassDef, prop: str) -> ast.FunctionDef:
    c = [n for n in cls.body if isinstance(n, ast.FunctionDef) and n.name == prop
         and any(ast.unparse(d) == "property" for d in n.decorator_list)]
    if len(c) != 1:
        fail(cls, f"{cls.name}.{prop}: expected one @property getter")
    return c[0]


def raise_after_locals(body: list[ast.stmt], node) -> str:
    """`[local = ...]* raise E(...)` -> E"""
    for st in body[:-1]:
        if not (isinstance(st, (ast.Assign, ast.AnnAssign))
                and isinstance(st.targets[0] if isinstance(st, ast.Assign) else st.target, ast.Name)):
            fail(st, "guard body: only local assignments may precede the raise")
    return raise_class(body[-1:], node)


def read_guards(fn: ast.FunctionDef, tests: dict, ret: set) -> dict:
    """A getter: `if <test>: ... raise E` guards (any order, each at most once), then one accepted `return`."""
    found = {}
    body = list(fn.body)
    if not body or not isinstance(body[-1], ast.Return) or norm(body[-1]) not in ret:
        fail(fn, f"{fn.name}: must end with one of {sorted(ret)}")
    for st in body[:-1]:
        if not (isinstance(st, ast.If) and not st.orelse and norm(st.test) in tests):
            fail(st, f"{fn.name}: statement shape not accepted")
        g = tests[norm(st.test)]
        if g in found:
            fail(st, f"{fn.name}: guard {g} twice")
        found[g] = raise_after_locals(st.body, st)
    return found


def empty_kind(fn: ast.FunctionDef) -> str:
    b = [norm(x) for x in fn.body]
    if len(fn.args.args) != 1:
        fail(fn, "empty() signature")
    if b == ["self._array = None"]:
        return "EmptyNone"
    if b in (["self._array = np.zeros(shape=self._shape, dtype=float)"], ["self._array = np.zeros(self._shape, dtype=float)"],
             ["self._array = np.zeros(shape=self._shape, dtype=np.float64)"], ["self._array = np.zeros(self._shape)"]):
        return "EmptyZeros"
    fail(fn, "empty(): shape not accepted")


def update_kind(fn: ast.FunctionDef) -> str:
    """normalised: `if data is None: <none branch> else: self.array = np.asarray(data)`"""
    if [a.arg for a in fn.args.args] != ["self", "data"]:
        fail(fn, "update() signature")
    b = fn.body
    if len(b) != 1 or not isinstance(b[0], ast.If) or norm(b[0].test) != "data is None":
        fail(fn, "update(): expected `if data is not None: ... else: ...`")
    if [norm(x) for x in b[0].orelse] != ["self.array = np.asarray(data)"]:
        fail(fn, "update(): the data branch must be `self.array = np.asarray(data)`")
    e = [norm(x) for x in b[0].body]
    if e == ["self.empty()"]:
        return "UpdCallsEmpty"
    if e == ["self._array = None"]:
        return "UpdNone"
    fail(fn, "update(): the None branch must be `self.empty()` or `self._array = None`")


def own_method(cls: ast.ClassDef, name: str):
    c = [n for n in cls.body if isinstance(n, ast.FunctionDef) and n.name == name]
    if len(c) > 1:
        fail(cls, f"{cls.name}.{name}: several definitions")
    return c[0] if c else None


def detector_empty_table(fn: ast.FunctionDef) -> dict:
    """Detector.empty(reset): `self.<bucket>.empty()` statements, unconditional or under `if reset:` (no else)."""
    if [a.arg for a in fn.args.args] != ["self", "reset"]:
        fail(fn, "Detector.empty signature")
    tab = {}

    def visit(st, kind):
        t = norm(st)
        for b in ("photon", "pixel", "signal", "image"):
            if t == f"self.{b}.empty()":
                if b in tab:
                    fail(st, f"Detector.empty: {b} emptied twice")
                tab[b] = kind
                return
        if t in ("self.charge.empty()", "self.scene = Scene()", "self.scene.empty()"):
            return                                   # not a C13 bucket
        fail(st, "Detector.empty: unexpected statement")

    for st in fn.body:
        if isinstance(st, ast.If):
            if norm(st.test) != "reset" or st.orelse:
                fail(st, "Detector.empty: only `if reset:` without else is accepted")
            for x in st.body:
                visit(x, "DIfReset")
        else:
            visit(st, "DAlways")
    return {b: tab.get(b, "DNever") for b in ("photon", "pixel", "signal", "image")}


def mkid_phase_zero(fn) -> bool:
    if fn is None:
        return False                                  # MKID does not override empty(): the phase array is kept
    b = [norm(x) for x in fn.body]
    if [a.arg for a in fn.args.args] != ["self", "reset"] or not b or b[0] != "super().empty(reset)":
        fail(fn, "MKID.empty must start with super().empty(reset)")
    if len(b) == 1:
        return False
    zero = {"if reset and self._phase and (self._phase._array is not None):\n    self.phase.array *= 0",
            "if reset and self._phase and self._phase._array is not None:\n    self.phase.array *= 0"}
    if len(b) == 2 and b[1] in zero:
        return True
    fail(fn, "MKID.empty: shape not accepted")



def numpy_iadd_table():
    import warnings

    import numpy as np

    rows = []
    with warnings.catch_warnings():
        warnings.simplefilter("ignore")
        for dst in DTYPES:
            row = []
            for src in DTYPES:
                d, s = np.dtype(dst), np.dtype(src)
                if d == np.dtype(bool) and s == np.dtype(bool):
                    rule = True  # the '??->?' loop (logical or)
                else:
                    try:
                        rule = bool(np.can_cast(np.result_type(d, s), d, "same_kind"))
                    except TypeError:
                        rule = False
                a, b = np.zeros((1, 2), dtype=d), np.ones((1, 2), dtype=s)
                try:
                    a += b
                    real = True
                except TypeError:
                    real = False
                if rule != real:
                    raise TranslationError(f"numpy casting rule for {dst} += {src}: can_cast says {rule}, execution {real}")
                row.append(real)
            rows.append(row + [False])
    rows.append([False] * (len(DTYPES) + 1))
    return rows


def extract(repo: Path) -> dict:
    info: dict = {}
    loader = N.make_loader(repo)          # follows `from pyxel.x.y import _helper` (private helpers in other modules)
    from .common import parse as _parse

    def parse(repo, rel):                 # the tree knows its own module name (relative imports can be followed)
        t = _parse(repo, rel)
        parts = rel[:-3].split("/")
        t._is_pkg = parts[-1] == "__init__"
        t._modname = ".".join(parts[:-1] if t._is_pkg else parts)
        return t

    # ---- ArrayBase
    tree = parse(repo, "pyxel/data_structure/array.py")
    base = find_class(tree, "ArrayBase")
    base._home = tree                     # its helpers are read in the vocabulary of array.py
    base_tl = type_list_of(base, default=[], module=tree)
    base_inlined: set = set()
    det_inlined: set = set()

    def nz(fn, module, scopes, params=None, keep=()):
        out = N.normalize(fn, module, scopes=scopes, keep=keep, params=params, loader=loader)
        if scopes and scopes[0] is base:
            base_inlined.update(out._inlined)          # helpers of ArrayBase whose body the tables now contain
        if scopes and scopes[0].name == "Detector":
            det_inlined.update(out._inlined)
        return out

    # the `array` setter with its private helpers (`_validate`, whatever it is split into) inlined:
    # guards, then the store
    st_fn = setter_of(base, "array")
    if st_fn is None:
        fail(base, "ArrayBase.array has no setter")
    found, clip, order = guards(
        nz(st_fn, tree, [base], ["self", "value"]),
        tests={"not isinstance(value, np.ndarray)": "type", "value.dtype not in self.TYPE_LIST": "dtype",
               "value.shape != self._shape": "shape"},
        ignorable=set(), clip_test=None, clip_ok=None,
        # aliasing is not a property-relevant observable: storing a copy of the validated array is the same thing
        store_ok=lambda v: v in ("value", "value.copy()", "np.copy(value)", "np.array(value)", "np.array(value, copy=True)"),
        passive_assign={})
    check_order(st_fn, order, ["type", "dtype", "shape"])
    info["v"] = found
    init = find_func(tree, "__init__", "ArrayBase")
    ib = shape_of(nz(init, tree, [base], ["self", "shape"]))
    if "self._shape = shape" not in ib or not any(s.startswith("self._array") and s.endswith("= None") for s in ib):
        fail(init, "ArrayBase.__init__ must set `self._array = None` and `self._shape = shape`")

    for nm, key in (("__iadd__", "b_iadd"), ("__add__", "b_add")):
        info[key] = base_iadd_kind(nz(find_func(tree, nm, "ArrayBase"), tree, [base], ["self", "other"]))
    info["base_eq"] = base_eq_kind(nz(find_func(tree, "__eq__", "ArrayBase"), tree, [base], ["self", "other"]))
    rd = {}
    rd["base"] = read_guards(nz(getter_of(base, "array"), tree, [base], ["self"]), {t: "none" for t in NONE_TESTS},
                             {"return self._array"})
    rd["aa_base"] = read_guards(nz(find_func(tree, "__array__", "ArrayBase"), tree, [base]),
                                {"not isinstance(self._array, np.ndarray)": "notnp"},
                                {"return np.asarray(self._array, dtype=dtype)", "return np.asarray(self._array)"})
    empties = {"ArrayBase": empty_kind(nz(find_func(tree, "empty", "ArrayBase"), tree, [base]))}
    updates = {"ArrayBase": update_kind(nz(find_func(tree, "update", "ArrayBase"), tree, [base]))}

    # ---- subclasses
    tls = {}
    for cname, (rel, _) in CLASSES.items():
        t = parse(repo, rel)
        cls = find_class(t, cname)
        if cname == "Photon":
            if cls.bases:
                fail(cls, "Photon is modelled as a class of its own (no base class)")
            tls[cname] = type_list_of(cls, module=t)
            continue
        if [ast.unparse(x) for x in cls.bases] != ["ArrayBase"]:
            fail(cls, f"{cname} must derive from ArrayBase only")
        tls[cname] = type_list_of(cls, default=base_tl, module=t)
        over = {n.name for n in cls.body if isinstance(n, ast.FunctionDef)} & BASE_ONLY
        if over:
            fail(cls, f"{cname} redefines {sorted(over)}; the model takes these from ArrayBase")
        for n in cls.body:       # a followed (inlined) private helper of ArrayBase redefined by the subclass
            if isinstance(n, ast.FunctionDef) and n.name in base_inlined and not N.is_message_only(n, t, [cls, base], loader):
                fail(n, f"{cname} redefines the helper {n.name} that ArrayBase's methods were read through")
        ini = find_func(t, "__init__", cname)
        if shape_of(nz(ini, t, [cls, base], ["self", "geo"])) not in (["super().__init__(shape=(geo.row, geo.col))"],
                                                                      ["super().__init__((geo.row, geo.col))"]):
            fail(ini, f"{cname}.__init__ must be super().__init__(shape=(geo.row, geo.col))")
        fe, fu = own_method(cls, "empty"), own_method(cls, "update")
        empties[cname] = empty_kind(nz(fe, t, [cls, base])) if fe is not None else empties["ArrayBase"]
        updates[cname] = update_kind(nz(fu, t, [cls, base])) if fu is not None else updates["ArrayBase"]
    info["type_lists"] = tls

    # ---- Photon
    t = parse(repo, "pyxel/data_structure/photon.py")
    ph = find_class(t, "Photon")
    ini = find_func(t, "__init__", "Photon")
    ib = shape_of(nz(ini, t, [ph], ["self", "geo"]))
    for need in ("self._num_rows = geo.row", "self._num_cols = geo.col"):
        if need not in ib:
            fail(ini, f"Photon.__init__ must contain `{need}`")
    s2 = setter_of(ph, "array")
    if s2 is None:
        fail(ph, "Photon.array has no setter")
    f2, clip2, o2 = guards(
        nz(s2, t, [ph], ["self", "value"]),
        tests={"not isinstance(value, np.ndarray)": "type", "value.dtype not in self.TYPE_LIST": "dtype",
               "value.ndim != 2": "ndim", "value.shape != (self._num_rows, self._num_cols)": "shape"},
        ignorable={"isinstance(self._array, np.ndarray) and (not isinstance(value, np.ndarray))"},
        clip_test="np.any(value < 0)",
        clip_ok=lambda body: (len(body) >= 1 and norm(body[0]) in
                              ("value = np.clip(value, a_min=0.0, a_max=None)", "value = np.clip(value, a_min=0, a_max=None)")
                              and all(is_warn(s) for s in body[1:])),
        store_ok=lambda v: v in ("value.copy()", "value"),
        passive_assign={})
    check_order(s2, o2, ["type", "dtype", "ndim", "shape", "clip"])
    info["p"], info["p_clip"] = f2, clip2
    s3 = setter_of(ph, "array_3d")
    if s3 is None:
        fail(ph, "Photon.array_3d has no setter")
    f3, clip3, o3 = guards(
        nz(s3, t, [ph], ["self", "value"]),
        tests={"not isinstance(value, xr.DataArray)": "type", "value.dtype not in self.TYPE_LIST": "dtype",
               "value.ndim != 3": "ndim", 'value.dims != ("wavelength", "y", "x")': "dims",
               '(value.sizes["y"], value.sizes["x"]) != (self._num_rows, self._num_cols)': "shape",
               '"wavelength" not in value.coords': "coord"},
        ignorable={"isinstance(self._array, xr.DataArray) and (not isinstance(value, xr.DataArray))"},
        clip_test="np.any(value < 0)",
        clip_ok=lambda body: (len(body) >= 1 and norm(body[0]) in ("value = value.clip(min=0.0)", "value = value.clip(min=0)")
                              and all(is_warn(s) for s in body[1:])),
        store_ok=lambda v: v in ("value.copy()", "value"),
        passive_assign={})
    check_order(s3, o3, ["type", "dtype", "ndim", "dims", "shape", "coord", "clip"])
    info["q"], info["q_clip"] = f3, clip3

    rd["ph2"] = read_guards(nz(getter_of(ph, "array"), t, [ph], ["self"]), {**{t: "none" for t in NONE_TESTS},
                                                    "isinstance(self._array, xr.DataArray)": "other"}, {"return self._array"})
    rd["ph3"] = read_guards(nz(getter_of(ph, "array_3d"), t, [ph], ["self"]), {**{t: "none" for t in NONE_TESTS},
                                                       "isinstance(self._array, np.ndarray)": "other"}, {"return self._array"})
    rd["aa_ph"] = read_guards(nz(find_func(t, "__array__", "Photon"), t, [ph]), {t: "none" for t in NONE_TESTS},
                              {"return np.asarray(self.array, dtype=dtype)", "return np.asarray(self.array)"})
    info["reads"] = rd
    empties["Photon"] = empty_kind(nz(find_func(t, "empty", "Photon"), t, [ph]))
    if own_method(ph, "update") is not None:
        fail(ph, "Photon.update is not modelled")
    info["empties"], info["updates"] = empties, updates
    info["ph_iadd"] = photon_iadd_kind(nz(find_func(t, "__iadd__", "Photon"), t, [ph], ["self", "other"]))
    info["ph_add"] = photon_iadd_kind(nz(find_func(t, "__add__", "Photon"), t, [ph], ["self", "other"]))
    info["ph_eq_geom"] = photon_eq_geom(nz(find_func(t, "__eq__", "Photon"), t, [ph], ["self", "other"]))

    # the alias property `array_2d` must delegate to `array` (the driver uses both entry points, the model one)
    g2 = [n for n in ph.body if isinstance(n, ast.FunctionDef) and n.name == "array_2d"
          and any(ast.unparse(d) == "property" for d in n.decorator_list)]
    st2 = setter_of(ph, "array_2d")
    if g2 or st2 is not None:
        if len(g2) != 1 or shape_of(nz(g2[0], t, [ph], ["self"])) != ["return self.array"]:
            fail(ph, "Photon.array_2d getter must be `return self.array`")
        if st2 is None or shape_of(nz(st2, t, [ph], ["self", "value"])) != ["self.array = value"]:
            fail(ph, "Photon.array_2d setter must be `self.array = value`")

    # ---- Detector setters
    t = parse(repo, "pyxel/detectors/detector.py")
    det = find_class(t, "Detector")
    setters = {}
    for bucket in ("photon", "pixel", "signal", "image"):
        fn = setter_of(det, bucket)
        if fn is None:
            setters[bucket] = "SetterNone"
            continue
        if len(fn.args.args) != 2:
            fail(fn, f"Detector.{bucket} setter signature")
        b = shape_of(nz(fn, t, [det], ["self", "obj"]))
        if b == [f"self.{bucket}.array = obj.array"]:
            setters[bucket] = "SetterValidating"
        elif b == [f"self.{bucket}._array = obj._array"]:
            setters[bucket] = "SetterRaw"
        elif bucket == "photon" and b in DET_PH_DISPATCH:   # with / without `if obj is self._photon: return` in front
            setters[bucket] = "SetterDispatch"
        else:
            fail(fn, f"Detector.{bucket} setter shape not accepted")
    info["d_empty"] = detector_empty_table(nz(find_func(t, "empty", "Detector"), t, [det]))
    t = parse(repo, "pyxel/detectors/mkid/mkid.py")
    mk = find_class(t, "MKID")
    mke = own_method(mk, "empty")
    info["mkid_phase_zero"] = mkid_phase_zero(nz(mke, t, [mk]) if mke is not None else None)
    fn = setter_of(mk, "phase")
    if fn is None:
        setters["phase"] = "SetterNone"
    else:
        if len(fn.args.args) != 2:
            fail(fn, "MKID.phase setter signature")
        b = shape_of(nz(fn, t, [mk], ["self", "obj"]))
        if b == ["self.phase.array = obj.array"]:
            setters["phase"] = "SetterValidating"
        elif b == ["self.phase._array = obj._array"]:
            setters["phase"] = "SetterRaw"
        else:
            fail(fn, "MKID.phase setter shape not accepted")
    info["setters"] = setters
    # a followed private helper of Detector must not be redefined by a detector class (virtual dispatch)
    for rel, cname in (("pyxel/detectors/ccd/ccd.py", "CCD"), ("pyxel/detectors/cmos/cmos.py", "CMOS"),
                       ("pyxel/detectors/mkid/mkid.py", "MKID"), ("pyxel/detectors/apd/apd.py", "APD")):
        subt = parse(repo, rel)
        sub = find_class(subt, cname)
        for n in sub.body:
            if isinstance(n, ast.FunctionDef) and n.name in det_inlined and not N.is_message_only(n, subt, [sub], loader):
                fail(n, f"{cname} redefines the helper {n.name} that Detector's methods were read through")
    return info


def g(found: dict, key: str) -> str:
    return f"(Some {found[key]})" if key in found else "None"


def render(info: dict, iadd_rows) -> str:
    tl = info["type_lists"]

    def lst(names):
        return "[" + "; ".join(COQ_DT[n] for n in names) + "]" if names else "[]"

    rd, de = info["reads"], info["d_empty"]
    rows = ";\n   ".join("[" + "; ".join("true" if x else "false" for x in row) + "]" for row in iadd_rows)
    st = info["setters"]
    return (HEADER +
            "From Coq Require Import List Bool.\nFrom PyxelV Require Import Model.Containers.\nImport ListNotations.\n\n"
            "Definition src_type_list (k : ckind) : list dtype :=\n  match k with\n"
            + "".join(f"  | {CLASSES[c][1]} => {lst(tl[c])}\n" for c in CLASSES) + "  end.\n\n"
            "(* numpy " + _npver() + ": row = destination dtype, column = operand dtype, in the order of dtype_idx *)\n"
            f"Definition src_iadd_rows : list (list bool) :=\n  [{rows}].\n\n"
            "Definition src_iadd_ok (dst src : dtype) : bool :=\n"
            "  nth (dtype_idx src) (nth (dtype_idx dst) src_iadd_rows []) false.\n\n"
            "Definition src_det_setter (k : ckind) : setter_kind :=\n  match k with\n"
            f"  | Photon => {st['photon']}\n  | Pixel => {st['pixel']}\n  | Signal => {st['signal']}\n"
            f"  | Image => {st['image']}\n  | Phase => {st['phase']}\n  end.\n\n"
            "Definition src_empty_of (k : ckind) : empty_kind :=\n  match k with\n"
            + "".join(f"  | {CLASSES[c][1]} => {info['empties'][c]}\n" for c in CLASSES) + "  end.\n\n"
            "Definition src_upd_none (k : ckind) : upd_none_kind :=\n  match k with\n  | Photon => UpdNone   (* Photon has no update() *)\n"
            + "".join(f"  | {CLASSES[c][1]} => {info['updates'][c]}\n" for c in CLASSES if c != "Photon") + "  end.\n\n"
            "Definition src_d_empty (k : ckind) : dempty_kind :=\n  match k with\n"
            f"  | Photon => {de['photon']}\n  | Pixel => {de['pixel']}\n  | Signal => {de['signal']}\n"
            f"  | Image => {de['image']}\n  | Phase => DNever   (* MKID.empty handles the phase array *)\n  end.\n\n"
            "Definition src_tables : tables :=\n"
            "  {| type_list := src_type_list; iadd_ok := src_iadd_ok;\n"
            f"     v_type := {g(info['v'], 'type')}; v_dtype := {g(info['v'], 'dtype')}; v_shape := {g(info['v'], 'shape')};\n"
            f"     p_type := {g(info['p'], 'type')}; p_dtype := {g(info['p'], 'dtype')}; p_ndim := {g(info['p'], 'ndim')};\n"
            f"     p_shape := {g(info['p'], 'shape')}; p_clip := {'true' if info['p_clip'] else 'false'};\n"
            f"     q_type := {g(info['q'], 'type')}; q_dtype := {g(info['q'], 'dtype')}; q_ndim := {g(info['q'], 'ndim')};\n"
            f"     q_dims := {g(info['q'], 'dims')}; q_shape := {g(info['q'], 'shape')}; q_coord := {g(info['q'], 'coord')};\n"
            f"     q_clip := {'true' if info['q_clip'] else 'false'};\n"
            "     det_setter := src_det_setter;\n"
            f"     ph_iadd := {info['ph_iadd']}; ph_add := {info['ph_add']};\n"
            f"     b_iadd := {info['b_iadd']}; b_add := {info['b_add']};\n"
            f"     base_eq := {info['base_eq']}; ph_eq_geom := {'true' if info['ph_eq_geom'] else 'false'};\n"
            f"     rd_base := {g(rd['base'], 'none')};\n"
            f"     rd_ph2_none := {g(rd['ph2'], 'none')}; rd_ph2_xr := {g(rd['ph2'], 'other')};\n"
            f"     rd_ph3_none := {g(rd['ph3'], 'none')}; rd_ph3_np := {g(rd['ph3'], 'other')};\n"
            f"     aa_base := {g(rd['aa_base'], 'notnp')}; aa_ph_none := {g(rd['aa_ph'], 'none')};\n"
            "     empty_of := src_empty_of; upd_none := src_upd_none; d_empty := src_d_empty;\n"
            f"     mkid_phase_zero := {'true' if info['mkid_phase_zero'] else 'false'} |}}.\n")


def _npver() -> str:
    import numpy as np

    return np.__version__


def translate(repo: Path) -> str:
    return render(extract(repo), numpy_iadd_table())


_FALLBACK_INFO = {
    "type_lists": {"Photon": ["float16", "float32", "float64"], "Pixel": ["float16", "float32", "float64"],
                   "Signal": ["float16", "float32", "float64"], "Image": ["uint8", "uint16", "uint32", "uint64"],
                   "Phase": ["float16", "float32", "float64"]},
    "v": {"type": "TypeError", "dtype": "TypeError", "shape": "ValueError"},
    "p": {"type": "TypeError", "dtype": "ValueError", "ndim": "ValueError", "shape": "ValueError"}, "p_clip": True,
    "q": {"type": "TypeError", "dtype": "ValueError", "ndim": "ValueError", "dims": "ValueError",
          "shape": "ValueError", "coord": "ValueError"}, "q_clip": True,
    "setters": {"photon": "SetterDispatch", "pixel": "SetterValidating", "signal": "SetterValidating",
                "image": "SetterValidating", "phase": "SetterNone"},
    "ph_iadd": "IAddSetters", "ph_add": "IAddSetters", "b_iadd": "BIOnCopy", "b_add": "BIOnCopy",
    "base_eq": "EqBothNone", "ph_eq_geom": True,
    "reads": {"base": {"none": "ValueError"}, "ph2": {"none": "ValueError", "other": "TypeError"},
              "ph3": {"none": "ValueError", "other": "TypeError"}, "aa_base": {"notnp": "TypeError"},
              "aa_ph": {"none": "ValueError"}},
    "empties": {"Photon": "EmptyNone", "Pixel": "EmptyZeros", "Signal": "EmptyNone", "Image": "EmptyNone", "Phase": "EmptyNone"},
    "updates": {"Pixel": "UpdNone", "Signal": "UpdCallsEmpty", "Image": "UpdCallsEmpty", "Phase": "UpdCallsEmpty"},
    "d_empty": {"photon": "DAlways", "pixel": "DIfReset", "signal": "DAlways", "image": "DAlways"},
    "mkid_phase_zero": True,
}


def fallback() -> str:
    """Text for the unchanged tree (keeps a model available for the search when translation fails)."""
    return render(_FALLBACK_INFO, numpy_iadd_table())


try:
    FALLBACK = fallback()
except Exception:  # noqa: BLE001 - numpy unavailable: no fallback model
    FALLBACK = None
