"""C18: behaviour-preserving normalisations applied to a function BEFORE the (strict, fail-closed) table extraction of
translator/c18.py.  Nothing here knows a function of the implementation by name or by text: every rule is a general
equivalence of Python code; a shape no rule covers is left as it is (and the strict reader then fails closed).

    norm = Normalizer(repo);  fn = norm.func("pyxel/detectors/ccd/ccd.py", "to_dict", cls="CCD")

Rules (applied bottom-up, to a fixpoint; the result is a deep copy, the parsed module is never modified)
  strip    annotations (`x: T = e` -> `x = e`, bare `x: T` dropped), `pass`, string statements, logging / warnings calls
  const    a Name that is not bound in the function and has exactly ONE module-level binding to a literal (also through
           `from pyxel.x import NAME`) is replaced by the literal
  match    `match <path>: case <literal | dotted name | None | a | b>: ... case _: ...`  ->  if / elif / else on `==` (`is`)
           `case C():` (class pattern without sub-patterns) -> `isinstance(<subject>, C)`
  unpack   `a, b = X, Y` (distinct plain names, same length, no later value reads an earlier target) -> `a = X` `b = Y`
  with     `with A as a, B as b: body` -> `with A as a:` `with B as b: body` (one item per statement)
  build    `dict(<generator / list comprehension of (k, v) pairs>)` -> dict comprehension; `list(<generator>)` / `set(<generator>)`
           -> list / set comprehension   (builtins not shadowed in the function)
  partial  a local with ONE binding `p = partial(f, a, k=v)` / `functools.partial(...)` (not in a loop, arguments paths / literals
           that no later statement stores to) that is only ever CALLED: `p(x, y=z)` -> `f(a, x, k=v, y=z)`
  attr     getattr(o, "name") -> o.name ;  setattr(o, "name", v) -> o.name = v          (identifier literals only)
  unroll   `for x in (<literals>): body` (no break / continue / else, x not rebound) -> the bodies, x replaced
  literal  `d = {...}` directly followed by `d["k"] = v` statements -> one dict literal
  comp     `d = {}` + `for T in I: d[K] = V`  ->  `d = {K: V for T in I}` ;  `l = []` + `l.append(V)` -> list comprehension
           (an `if c:` around the store, or `if c: continue` before it, becomes the comprehension's condition)
  ifexp    `if c: x = A  else: x = B` -> `x = A if c else B` ;  `x = <literal>` + `if c: x = A` -> `x = A if c else <literal>`
           a conditional expression / a two-sided `if` whose test is negative (`is not`, `!=`, `not in`, `not t`) is turned
           into its positive form with the branches swapped;  `a <= x <= b` with side-effect-free middle -> `a <= x and x <= b`
  guard    `if c: <ends in return/raise/continue/break>  else: rest`  ->  `if c: ...` followed by `rest` (guard-clause form;
           also when only the else branch terminates: the test is negated and the branches swapped);
           `if c: pass  else: X` -> `if not c: X`;  in a function that returns no value, `if c: return` + rest-of-function
           -> `if not c: rest`
  alias    a local with ONE binding (not in a loop) whose value is a path (`a.b["k"]`) is replaced by that path in all its
           uses unless a later statement stores to that path or to a prefix of it (stores are looked at through all other
           path aliases); a local with one binding and ONE use whose value is any expression is replaced unless a later
           statement stores to something the expression reads, or the use is evaluated repeatedly (loop / comprehension body);
           a local with one binding whose value is a PURE, idempotent builtin call over paths / literals (`type(x)`, `id(x)`,
           `isinstance(x, C)`; the builtin not shadowed in the function) is replaced in ALL its uses unless a later statement
           stores to one of the paths it reads, to a prefix of one, or to `<path>.__class__`
  dispatch a local dict literal with literal keys that is only indexed (`D[x]`) and tested (`x in D`) -> if / elif on `==`
  inline   a call to a PRIVATE function of the package (module-level function, also imported with `from pyxel.x import _f`;
           `self._m(...)` / `cls._m(...)` / `Class._m(...)` of the same class or a base class) is replaced by its normalised
           body: as an expression when the body is `return <expr>` (after the rules above), as statements (locals renamed,
           parameters bound by assignments, every `return v` turned into the call's continuation) when the call is the
           whole right-hand side of an assignment / an expression statement / a returned value and every `return` of the
           helper sits at the end of an if / else tree
"""
from __future__ import annotations

import ast
import copy
import itertools
from pathlib import Path

MUTATORS = {"update", "append", "extend", "pop", "clear", "setdefault", "insert", "remove", "add", "discard", "popitem",
            "sort", "reverse", "__setitem__", "__delitem__", "__setattr__", "drop", "rename"}
LOGGERS = {"logging", "logger", "log", "_logger", "_log", "LOGGER", "warnings"}
_counter = itertools.count(1)


# ------------------------------------------------------------------------------------------------ small helpers


def is_literal(e) -> bool:
    if isinstance(e, ast.Constant):
        return True
    if isinstance(e, (ast.Tuple, ast.List, ast.Set)):
        return all(is_literal(x) for x in e.elts)
    if isinstance(e, ast.UnaryOp) and isinstance(e.op, (ast.USub, ast.UAdd)) and isinstance(e.operand, ast.Constant):
        return True
    if isinstance(e, ast.Call) and isinstance(e.func, ast.Name) and e.func.id in ("frozenset", "tuple") and len(e.args) == 1 \
            and not e.keywords:
        return is_literal(e.args[0])
    return False


def path_of(e):
    """Name / attribute / constant-subscript chain -> (root, ('.', a), ('[', k), ...) ; anything else -> None."""
    out = []
    while True:
        if isinstance(e, ast.Attribute):
            out.append((".", e.attr))
            e = e.value
        elif isinstance(e, ast.Subscript) and isinstance(e.slice, ast.Constant):
            out.append(("[", e.slice.value))
            e = e.value
        elif isinstance(e, ast.Name):
            out.append(e.id)
            return tuple(out[::-1])
        else:
            return None


PURE_BUILTINS = {"type": 1, "id": 1, "isinstance": 2, "issubclass": 2}


def is_pure_call(e, bound=()) -> bool:
    """`type(x)` / `id(x)` / `isinstance(x, C)` over paths, literals and pure calls, identity tests (`is` / `is not`) between
    such operands and `not` / `and` / `or` of those: no side effect, and the same value every time it is evaluated as long as
    nothing it reads is stored to (checked by the caller)."""
    def operand(a):
        return path_of(a) is not None or isinstance(a, ast.Constant) or is_pure_call(a, bound)
    if isinstance(e, ast.Compare):
        return all(isinstance(o, (ast.Is, ast.IsNot)) for o in e.ops) and all(operand(a) for a in [e.left] + e.comparators)
    if isinstance(e, ast.UnaryOp) and isinstance(e.op, ast.Not):
        return is_pure_call(e.operand, bound)
    if isinstance(e, ast.BoolOp):
        return all(is_pure_call(v, bound) for v in e.values)
    if not (isinstance(e, ast.Call) and isinstance(e.func, ast.Name) and e.func.id in PURE_BUILTINS and e.func.id not in bound
            and not e.keywords and len(e.args) == PURE_BUILTINS[e.func.id]):
        return False
    return all(path_of(a) is not None or is_literal(a) or is_pure_call(a, bound)
               or (isinstance(a, ast.Tuple) and all(path_of(x) is not None for x in a.elts)) for a in e.args)


def is_prefix(a, b) -> bool:
    """a is a prefix of (or equal to) b; a component ('?',) matches anything."""
    if len(a) > len(b):
        return False
    return all(x == y or x == ("?",) or y == ("?",) for x, y in zip(a, b))


def read_paths(e):
    """maximal paths read inside an expression."""
    out = []

    def rec(n):
        if isinstance(n, ast.Call) and isinstance(n.func, ast.Attribute):      # o.m(...): reads o (not "o.m")
            rec(n.func.value)
            for c in list(n.args) + [k.value for k in n.keywords]:
                rec(c)
            return
        p = path_of(n) if isinstance(n, (ast.Name, ast.Attribute, ast.Subscript)) else None
        if p is not None:
            out.append(p)
            return
        for c in ast.iter_child_nodes(n):
            rec(c)
    rec(e)
    return out


def terminates(blk) -> bool:
    if not blk:
        return False
    s = blk[-1]
    if isinstance(s, (ast.Return, ast.Raise, ast.Continue, ast.Break)):
        return True
    if isinstance(s, ast.If):
        return bool(s.orelse) and terminates(s.body) and terminates(s.orelse)
    return False


_NEG = {ast.Eq: ast.NotEq, ast.NotEq: ast.Eq, ast.Is: ast.IsNot, ast.IsNot: ast.Is, ast.In: ast.NotIn, ast.NotIn: ast.In}


def is_negative(t) -> bool:
    if isinstance(t, ast.UnaryOp) and isinstance(t.op, ast.Not):
        return True
    return isinstance(t, ast.Compare) and len(t.ops) == 1 and isinstance(t.ops[0], (ast.NotEq, ast.IsNot, ast.NotIn))


def negate(t):
    if isinstance(t, ast.UnaryOp) and isinstance(t.op, ast.Not):
        return t.operand
    if isinstance(t, ast.Compare) and len(t.ops) == 1 and type(t.ops[0]) in _NEG:
        return ast.Compare(left=t.left, ops=[_NEG[type(t.ops[0])]()], comparators=t.comparators)
    return ast.UnaryOp(op=ast.Not(), operand=t)


def bound_names(fn) -> set:
    out = set()
    for n in ast.walk(fn):
        if isinstance(n, ast.Name) and isinstance(n.ctx, (ast.Store, ast.Del)):
            out.add(n.id)
        elif isinstance(n, ast.arg):
            out.add(n.arg)
        elif isinstance(n, (ast.Import, ast.ImportFrom)):
            for a in n.names:
                out.add((a.asname or a.name).split(".")[0])
        elif isinstance(n, ast.ExceptHandler) and n.name:
            out.add(n.name)
        elif isinstance(n, (ast.Global, ast.Nonlocal)):
            out.update(n.names)
        elif isinstance(n, (ast.MatchAs, ast.MatchStar)) and n.name:
            out.add(n.name)
        elif isinstance(n, (ast.FunctionDef, ast.ClassDef, ast.AsyncFunctionDef)) and n is not fn:
            out.add(n.name)
    return out


class _Subst(ast.NodeTransformer):
    def __init__(self, mapping):
        self.mapping = mapping

    def visit_Name(self, n):
        if isinstance(n.ctx, ast.Load) and n.id in self.mapping:
            return copy.deepcopy(self.mapping[n.id])
        return n


class _Rename(ast.NodeTransformer):
    def __init__(self, mapping):
        self.mapping = mapping

    def visit_Name(self, n):
        if n.id in self.mapping:
            return ast.copy_location(ast.Name(id=self.mapping[n.id], ctx=n.ctx), n)
        return n

    def visit_arg(self, n):
        if n.arg in self.mapping:
            n.arg = self.mapping[n.arg]
        return n

    def visit_ExceptHandler(self, n):
        if n.name in self.mapping:
            n.name = self.mapping[n.name]
        return self.generic_visit(n)

    def _imp(self, n):
        for a in n.names:
            local = a.asname or a.name
            if "." not in local and local in self.mapping:
                a.asname = self.mapping[local]
        return n

    visit_Import = _imp
    visit_ImportFrom = _imp


def blocks_of(node):
    for field in ("body", "orelse", "finalbody"):
        blk = getattr(node, field, None)
        if isinstance(blk, list) and (not blk or isinstance(blk[0], ast.stmt)):
            yield node, field, blk
    for h in getattr(node, "handlers", []) or []:
        yield h, "body", h.body
    for c in getattr(node, "cases", []) or []:
        yield c, "body", c.body


def rewrite_blocks(node, f):
    """apply f (list of statements -> list of statements) to every block below node, innermost first."""
    for owner, field, blk in list(blocks_of(node)):
        for s in blk:
            rewrite_blocks(s, f)
        new = f(blk)
        if not new and field == "body":
            new = [ast.Pass()]
        setattr(owner, field, new)


# ------------------------------------------------------------------------------------------------ resolver


class Normalizer:
    def __init__(self, repo: Path, max_depth: int = 3):
        self.repo = Path(repo)
        self.mods = {}
        self.max_depth = max_depth
        self.cache = {}
        self._resolved = {}
        self._bound = set()
        self._stack = []
        self.recursive = set()

    # -- modules / globals
    def module(self, rel):
        if rel not in self.mods:
            p = self.repo / rel
            try:
                self.mods[rel] = ast.parse(p.read_text(), filename=str(p)) if p.is_file() else None
            except SyntaxError:
                self.mods[rel] = None
        return self.mods[rel]

    def rel_of(self, dotted: str):
        base = dotted.replace(".", "/")
        for cand in (base + ".py", base + "/__init__.py"):
            if (self.repo / cand).is_file():
                return cand
        return None

    def resolve(self, rel, name, depth=0):
        """the single module-level binding of `name` in module rel: ("func"|"class"|"const", node, rel) or None."""
        key = (rel, name)
        if key not in self._resolved:
            self._resolved[key] = self._resolve(rel, name, depth)
        return self._resolved[key]

    def _resolve(self, rel, name, depth=0):
        tree = self.module(rel)
        if tree is None or depth > 4:
            return None
        for n in ast.walk(tree):
            if isinstance(n, ast.Global) and name in n.names:
                return None
        found = []
        for s in tree.body:
            if isinstance(s, (ast.FunctionDef, ast.ClassDef)) and s.name == name:
                found.append(("func" if isinstance(s, ast.FunctionDef) else "class", s, rel))
            elif isinstance(s, ast.Assign) and any(isinstance(t, ast.Name) and t.id == name for t in s.targets):
                found.append(("const", s.value, rel) if len(s.targets) == 1 and is_literal(s.value) else None)
            elif isinstance(s, ast.AnnAssign) and isinstance(s.target, ast.Name) and s.target.id == name and s.value is not None:
                found.append(("const", s.value, rel) if is_literal(s.value) else None)
            elif isinstance(s, ast.AugAssign) and isinstance(s.target, ast.Name) and s.target.id == name:
                found.append(None)
            elif isinstance(s, ast.ImportFrom):
                for a in s.names:
                    if (a.asname or a.name) == name:
                        if s.level:
                            pkg = rel.split("/")[:-1]
                            pkg = pkg[:len(pkg) - (s.level - 1)]
                            dotted = ".".join(pkg + ([s.module] if s.module else []))
                        else:
                            dotted = s.module or ""
                        r2 = self.rel_of(dotted)
                        found.append(self.resolve(r2, a.name, depth + 1) if r2 else None)
            elif isinstance(s, (ast.If, ast.Try, ast.With, ast.For, ast.While)):
                for n in ast.walk(s):
                    if isinstance(n, ast.Name) and isinstance(n.ctx, ast.Store) and n.id == name:
                        found.append(None)
                    elif isinstance(n, (ast.FunctionDef, ast.ClassDef)) and n.name == name:
                        found.append(None)
        if len(found) != 1:
            return None
        return found[0]

    def find_class(self, rel, cls):
        tree = self.module(rel)
        if tree is None:
            return None
        cands = [n for n in tree.body if isinstance(n, ast.ClassDef) and n.name == cls]
        return cands[0] if len(cands) == 1 else None

    def find_method(self, rel, cls, name, depth=0):
        """(FunctionDef, rel, class name) of method `name` of class cls (module rel) or of a base class."""
        c = self.find_class(rel, cls)
        if c is None or depth > 3:
            return None
        ms = [n for n in c.body if isinstance(n, ast.FunctionDef) and n.name == name]
        if len(ms) == 1:
            return ms[0], rel, cls
        if ms:
            return None
        for b in c.bases:
            if isinstance(b, ast.Name):
                if self.find_class(rel, b.id) is not None:
                    r = self.find_method(rel, b.id, name, depth + 1)
                else:
                    got = self.resolve(rel, b.id)
                    r = self.find_method(got[2], got[1].name, name, depth + 1) if got and got[0] == "class" else None
                if r:
                    return r
        return None

    # -- entry points
    def func(self, rel, name, cls=None, depth=0):
        key = (rel, cls, name)
        if key in self.cache:
            return copy.deepcopy(self.cache[key])
        if key in self._stack:              # a (mutually) recursive helper is never inlined, anywhere
            self.recursive.update(self._stack[self._stack.index(key):])
            return None
        tree = self.module(rel)
        if tree is None:
            return None
        scope = tree
        if cls is not None:
            scope = self.find_class(rel, cls)
            if scope is None:
                return None
        cands = [n for n in scope.body if isinstance(n, ast.FunctionDef) and n.name == name]
        if len(cands) != 1:
            return None
        self._stack.append(key)
        try:
            fn = self.normalize(cands[0], rel, cls, depth)
        finally:
            self._stack.pop()
        self.cache[key] = fn
        return copy.deepcopy(fn)

    def normalize(self, fn, rel, cls=None, depth=0):
        fn = copy.deepcopy(fn)
        prev = None
        for _ in range(10):
            fn = _Strip().visit(fn)
            fn = _Consts(self, rel, bound_names(fn)).visit(fn)
            self._bound = bound_names(fn)
            rewrite_blocks(fn, self._block_pass(rel, cls, depth))
            procedure_tail(fn)
            dispatch_dicts(fn)
            expand_partials(fn)
            fn = _Exprs(self, rel, cls, depth, bound_names(fn)).visit(fn)
            subst_aliases(fn)
            ast.fix_missing_locations(fn)
            cur = ast.dump(fn)
            if cur == prev:
                break
            prev = cur
        return fn

    def _block_pass(self, rel, cls, depth):
        def f(blk):
            blk = drop_noise(blk)
            blk = match_to_if(blk)
            blk = split_withs(blk)
            blk = split_tuple_assign(blk)
            blk = unroll_loops(blk)
            blk = setattr_stmts(blk)
            blk = merge_dict_stores(blk)
            blk = loops_to_comprehensions(blk)
            blk = cond_assign(blk)
            blk = self.inline_statements(blk, rel, cls, depth)
            blk = guard_form(blk)
            return blk
        return f

    # -- helper inlining
    def callee(self, call, rel, cls, bound):
        """(normalised FunctionDef, [(param, receiver expr)] bound first) of a private package helper, or None."""
        f = call.func
        got = None
        pre = []
        if isinstance(f, ast.Name):
            if not _private(f.id) or f.id in bound:
                return None
            r = self.resolve(rel, f.id)
            if r and r[0] == "func":
                got = (r[1], r[2], None)
        elif isinstance(f, ast.Attribute) and isinstance(f.value, ast.Name) and _private(f.attr):
            recv = f.value.id
            if recv in ("self", "cls") and cls is not None:
                got = self.find_method(rel, cls, f.attr)
            elif recv not in bound:
                r = self.resolve(rel, recv)
                if r and r[0] == "class":
                    got = self.find_method(r[2], r[1].name, f.attr)
            if got:
                pre = [f.value]
        if not got:
            return None
        node, hrel, hcls = got
        decos = [ast.unparse(d) for d in node.decorator_list]
        if any(d not in ("staticmethod", "classmethod") for d in decos):
            return None
        if any(isinstance(n, (ast.Yield, ast.YieldFrom, ast.Await, ast.FunctionDef, ast.AsyncFunctionDef, ast.ClassDef,
                              ast.Global, ast.Nonlocal)) for n in ast.walk(node) if n is not node):
            return None
        a = node.args
        if a.vararg or a.kwarg or a.posonlyargs:
            return None
        if hcls is None or "staticmethod" in decos:
            pre = []
        elif isinstance(call.func.value, ast.Name) and call.func.value.id not in ("self", "cls") and "classmethod" not in decos:
            return None                      # Class._m(x) of a plain method: the receiver is the first argument
        return node, hrel, hcls, pre

    def bind(self, node, call, pre):
        """parameter name -> argument expression (defaults filled in), or None."""
        params = [p.arg for p in node.args.args]
        defaults = dict(zip(params[len(params) - len(node.args.defaults):], node.args.defaults))
        for p, d in zip(node.args.kwonlyargs, node.args.kw_defaults):
            params.append(p.arg)
            if d is not None:
                defaults[p.arg] = d
        if any(isinstance(x, ast.Starred) for x in call.args) or any(k.arg is None for k in call.keywords):
            return None
        pos = list(pre) + list(call.args)
        if len(pos) > len(node.args.args):
            return None
        out = dict(zip(params, pos))
        for k in call.keywords:
            if k.arg in out or k.arg not in params:
                return None
            out[k.arg] = k.value
        for p in params:
            if p not in out:
                if p not in defaults:
                    return None
                out[p] = defaults[p]
        return [(p, out[p]) for p in params]

    def inlined(self, call, rel, cls, depth, bound):
        """(renamed statements binding the parameters + body in tail form, fresh names) or None."""
        if depth >= self.max_depth:
            return None
        c = self.callee(call, rel, cls, bound)
        if c is None:
            return None
        node, hrel, hcls, pre = c
        saved = self._bound
        try:
            h = self.func(hrel, node.name, hcls, depth + 1)
        finally:
            self._bound = saved
        if h is None or (hrel, hcls, node.name) in self.recursive:
            return None
        binding = self.bind(h, call, pre)       # h: the defaults are in normal form too (module constants resolved)
        if binding is None:
            return None
        body = [s for s in h.body]
        if body and isinstance(body[0], ast.Expr) and isinstance(body[0].value, ast.Constant):
            body = body[1:]
        tail = to_tail(body)
        if tail is None:
            return None
        k = next(_counter)
        names = bound_names(h)
        ren = {n: f"_h{k}_{n}" for n in names}
        mod = ast.Module(body=tail, type_ignores=[])
        mod = _Rename(ren).visit(copy.deepcopy(mod))
        return mod.body, [(ren[p], v) for p, v in binding]

    def inline_statements(self, blk, rel, cls, depth):
        out = []
        for s in blk:
            call, kind = None, None
            if isinstance(s, ast.Assign) and len(s.targets) == 1 and isinstance(s.value, ast.Call):
                call, kind = s.value, "assign"
            elif isinstance(s, ast.Expr) and isinstance(s.value, ast.Call):
                call, kind = s.value, "expr"
            elif isinstance(s, ast.Return) and isinstance(s.value, ast.Call):
                call, kind = s.value, "return"
            got = self.inlined(call, rel, cls, depth, self._bound) if call is not None else None
            if got is None:
                out.append(s)
                continue
            body, binding = got
            if len(body) == 1 and isinstance(body[0], ast.Return) and body[0].value is not None:
                out.append(s)                # a one-expression helper: the expression rule handles it everywhere
                continue

            def leaf(v, s=s, kind=kind):
                v = v if v is not None else ast.Constant(value=None)
                if kind == "assign":
                    return [ast.Assign(targets=copy.deepcopy(s.targets), value=v)]
                if kind == "return":
                    return [ast.Return(value=v)]
                return [] if isinstance(v, (ast.Constant, ast.Name)) else [ast.Expr(value=v)]
            out += [ast.Assign(targets=[ast.Name(id=p, ctx=ast.Store())], value=copy.deepcopy(v)) for p, v in binding]
            out += continue_with(body, leaf)
        for s in out:
            ast.fix_missing_locations(s)
        return out


def _private(name: str) -> bool:
    return name.startswith("_") and not name.startswith("__")


def to_tail(stmts):
    """guard-clause form -> every Return at the end of an if/else tree; None when a Return sits anywhere else."""
    stmts = list(stmts)
    for i, s in enumerate(stmts):
        if isinstance(s, ast.If) and i < len(stmts) - 1 and not s.orelse and terminates(s.body):
            a, b = to_tail(s.body), to_tail(stmts[i + 1:])
            if a is None or b is None:
                return None
            node = ast.If(test=s.test, body=a, orelse=b)
            if len(a) == 1 and len(b) == 1 and isinstance(a[0], ast.Return) and isinstance(b[0], ast.Return):
                none = ast.Constant(value=None)
                node = ast.Return(value=ast.IfExp(test=s.test, body=a[0].value or none, orelse=b[0].value or none))
            return stmts[:i] + [node] if _no_returns(stmts[:i]) else None
    if not stmts:
        return []
    last = stmts[-1]
    if isinstance(last, ast.If) and last.orelse:
        a, b = to_tail(last.body), to_tail(last.orelse)
        if a is None or b is None:
            return None
        return stmts[:-1] + [ast.If(test=last.test, body=a, orelse=b)] if _no_returns(stmts[:-1]) else None
    head = stmts[:-1] if isinstance(last, ast.Return) else stmts
    return stmts if _no_returns(head) else None


def _no_returns(stmts) -> bool:
    return not any(isinstance(n, ast.Return) for s in stmts for n in ast.walk(s))


def continue_with(body, leaf):
    """replace every tail `return v` by leaf(v); a path that falls off the end gets leaf(None)."""
    if not body:
        return leaf(None)
    last = body[-1]
    if isinstance(last, ast.Return):
        return body[:-1] + leaf(last.value)
    if isinstance(last, ast.Raise):
        return body
    if isinstance(last, ast.If) and last.orelse and (_has_tail_return(last.body) or _has_tail_return(last.orelse)):
        return body[:-1] + [ast.If(test=last.test, body=continue_with(last.body, leaf) or [ast.Pass()],
                                   orelse=continue_with(last.orelse, leaf))]
    return body + leaf(None)


def _has_tail_return(b) -> bool:
    return any(isinstance(n, ast.Return) for s in b for n in ast.walk(s))


# ------------------------------------------------------------------------------------------------ expression rules


class _Strip(ast.NodeTransformer):
    def visit_AnnAssign(self, n):
        self.generic_visit(n)
        if n.value is None:
            return None
        return ast.copy_location(ast.Assign(targets=[n.target], value=n.value), n)


class _Consts(ast.NodeTransformer):
    def __init__(self, norm, rel, bound):
        self.norm, self.rel, self.bound = norm, rel, bound

    def visit_Name(self, n):
        if isinstance(n.ctx, ast.Load) and n.id not in self.bound:
            r = self.norm.resolve(self.rel, n.id)
            if r and r[0] == "const":
                return ast.copy_location(copy.deepcopy(r[1]), n)
        return n


class _Exprs(ast.NodeTransformer):
    """getattr with a literal name, positive conditional expressions, split comparison chains, one-expression helpers."""

    def __init__(self, norm, rel, cls, depth, bound):
        self.norm, self.rel, self.cls, self.depth, self.bound = norm, rel, cls, depth, bound

    def visit_Call(self, n):
        self.generic_visit(n)
        if isinstance(n.func, ast.Name) and n.func.id == "getattr" and "getattr" not in self.bound and len(n.args) == 2 \
                and not n.keywords and isinstance(n.args[1], ast.Constant) and isinstance(n.args[1].value, str) \
                and n.args[1].value.isidentifier():
            return ast.copy_location(ast.Attribute(value=n.args[0], attr=n.args[1].value, ctx=ast.Load()), n)
        if isinstance(n.func, ast.Name) and n.func.id in ("dict", "list", "set") and n.func.id not in self.bound \
                and len(n.args) == 1 and not n.keywords and isinstance(n.args[0], (ast.GeneratorExp, ast.ListComp)):
            g = n.args[0]
            if n.func.id == "dict":
                if isinstance(g.elt, ast.Tuple) and len(g.elt.elts) == 2 and not any(isinstance(e, ast.Starred) for e in g.elt.elts):
                    return ast.copy_location(ast.DictComp(key=g.elt.elts[0], value=g.elt.elts[1], generators=g.generators), n)
            elif n.func.id == "list":
                return ast.copy_location(ast.ListComp(elt=g.elt, generators=g.generators), n)
            elif isinstance(g, ast.GeneratorExp) or True:
                return ast.copy_location(ast.SetComp(elt=g.elt, generators=g.generators), n)
        got = self.norm.inlined(n, self.rel, self.cls, self.depth, self.bound)
        if got is not None:
            body, binding = got
            if len(body) == 1 and isinstance(body[0], ast.Return) and body[0].value is not None:
                e = _Subst(dict(binding)).visit(copy.deepcopy(body[0].value))
                return ast.copy_location(e, n)
        return n

    def visit_IfExp(self, n):
        self.generic_visit(n)
        if is_negative(n.test):
            return ast.copy_location(ast.IfExp(test=negate(n.test), body=n.orelse, orelse=n.body), n)
        return n

    def visit_If(self, n):
        self.generic_visit(n)
        if n.orelse and is_negative(n.test) and not terminates(n.body) and not terminates(n.orelse) \
                and not (len(n.orelse) == 1 and isinstance(n.orelse[0], ast.If)):
            return ast.copy_location(ast.If(test=negate(n.test), body=n.orelse, orelse=n.body), n)
        return n

    def visit_UnaryOp(self, n):
        self.generic_visit(n)
        if isinstance(n.op, ast.Not) and isinstance(n.operand, ast.Compare) and len(n.operand.ops) == 1 \
                and type(n.operand.ops[0]) in _NEG:
            return ast.copy_location(negate(n.operand), n)
        if isinstance(n.op, ast.Not) and isinstance(n.operand, ast.UnaryOp) and isinstance(n.operand.op, ast.Not):
            return n                          # bool(x), not x: left alone
        return n

    def visit_Compare(self, n):
        self.generic_visit(n)
        if len(n.ops) > 1 and all(path_of(c) is not None or isinstance(c, ast.Constant) for c in n.comparators[:-1]):
            parts, left = [], n.left
            for op, c in zip(n.ops, n.comparators):
                parts.append(ast.Compare(left=left, ops=[op], comparators=[c]))
                left = copy.deepcopy(c)
            return ast.copy_location(ast.BoolOp(op=ast.And(), values=parts), n)
        return n


# ------------------------------------------------------------------------------------------------ block rules


def drop_noise(blk):
    out = []
    for s in blk:
        if isinstance(s, ast.Pass):
            continue
        if isinstance(s, ast.Expr) and isinstance(s.value, ast.Constant) and blk is not None and s is not blk[0]:
            continue
        if isinstance(s, ast.Expr) and isinstance(s.value, ast.Call):
            f = s.value.func
            root = f
            while isinstance(root, ast.Attribute):
                root = root.value
            if isinstance(f, ast.Attribute) and isinstance(root, ast.Name) and root.id in LOGGERS:
                continue
        out.append(s)
    return out


def _pattern_test(subject, p):
    if isinstance(p, ast.MatchValue) and (isinstance(p.value, ast.Constant) or path_of(p.value) is not None):
        return ast.Compare(left=copy.deepcopy(subject), ops=[ast.Eq()], comparators=[p.value])
    if isinstance(p, ast.MatchSingleton):
        return ast.Compare(left=copy.deepcopy(subject), ops=[ast.Is()], comparators=[ast.Constant(value=p.value)])
    if isinstance(p, ast.MatchClass) and not p.patterns and not p.kwd_patterns and path_of(p.cls) is not None:
        return ast.Call(func=ast.Name(id="isinstance", ctx=ast.Load()), args=[copy.deepcopy(subject), p.cls], keywords=[])
    if isinstance(p, ast.MatchOr):
        ts = [_pattern_test(subject, q) for q in p.patterns]
        return None if any(t is None for t in ts) else ast.BoolOp(op=ast.Or(), values=ts)
    return None


def match_to_if(blk):
    out = []
    for s in blk:
        if not isinstance(s, ast.Match) or path_of(s.subject) is None:
            out.append(s)
            continue
        arms, default, ok = [], None, True
        for i, c in enumerate(s.cases):
            if c.guard is not None:
                ok = False
                break
            if isinstance(c.pattern, ast.MatchAs) and c.pattern.pattern is None and c.pattern.name is None:
                if i != len(s.cases) - 1:
                    ok = False
                default = c.body
                break
            t = _pattern_test(s.subject, c.pattern)
            if t is None:
                ok = False
                break
            arms.append((t, c.body))
        if not ok or not arms:
            out.append(s)
            continue
        node = default or []
        for t, body in reversed(arms):
            node = [ast.copy_location(ast.If(test=t, body=body, orelse=node), s)]
        out += node
    return out


def split_tuple_assign(blk):
    out = []
    for s in blk:
        if isinstance(s, ast.Assign) and len(s.targets) == 1 and isinstance(s.targets[0], (ast.Tuple, ast.List)) \
                and isinstance(s.value, (ast.Tuple, ast.List)) and len(s.targets[0].elts) == len(s.value.elts) \
                and all(isinstance(t, ast.Name) for t in s.targets[0].elts) \
                and not any(isinstance(v, ast.Starred) for v in s.value.elts) \
                and len({t.id for t in s.targets[0].elts}) == len(s.value.elts):
            names = [t.id for t in s.targets[0].elts]
            if not any(_uses(names[i], v) for i in range(len(names)) for v in s.value.elts[i + 1:]):
                out += [ast.copy_location(ast.Assign(targets=[t], value=v), s) for t, v in zip(s.targets[0].elts, s.value.elts)]
                continue
        out.append(s)
    return out


def split_withs(blk):
    out = []
    for s in blk:
        if isinstance(s, ast.With) and len(s.items) > 1:
            node = s.body
            for it in reversed(s.items):
                node = [ast.copy_location(ast.With(items=[it], body=node), s)]
            out += node
        else:
            out.append(s)
    return out


def unroll_loops(blk):
    out = []
    for s in blk:
        if not (isinstance(s, ast.For) and not s.orelse and isinstance(s.iter, (ast.Tuple, ast.List))
                and 0 < len(s.iter.elts) <= 16 and all(is_literal(e) for e in s.iter.elts)):
            out.append(s)
            continue
        names = [s.target.id] if isinstance(s.target, ast.Name) else \
            [e.id for e in s.target.elts] if isinstance(s.target, ast.Tuple) and all(isinstance(e, ast.Name) for e in s.target.elts) else None
        inner = [n for b in s.body for n in ast.walk(b)]
        if names is None or any(isinstance(n, (ast.Break, ast.Continue)) for n in inner) \
                or any(isinstance(n, ast.Name) and isinstance(n.ctx, (ast.Store, ast.Del)) and n.id in names for n in inner):
            out.append(s)
            continue
        copies, ok = [], True
        for e in s.iter.elts:
            if isinstance(s.target, ast.Name):
                m = {names[0]: e}
            elif isinstance(e, (ast.Tuple, ast.List)) and len(e.elts) == len(names):
                m = dict(zip(names, e.elts))
            else:
                ok = False
                break
            copies += [_Subst(m).visit(copy.deepcopy(b)) for b in s.body]
        out += copies if ok else [s]
    return out


def setattr_stmts(blk):
    out = []
    for s in blk:
        c = s.value if isinstance(s, ast.Expr) else None
        if isinstance(c, ast.Call) and isinstance(c.func, ast.Name) and c.func.id == "setattr" and len(c.args) == 3 \
                and not c.keywords and isinstance(c.args[1], ast.Constant) and isinstance(c.args[1].value, str) \
                and c.args[1].value.isidentifier():
            s = ast.copy_location(ast.Assign(targets=[ast.Attribute(value=c.args[0], attr=c.args[1].value, ctx=ast.Store())],
                                             value=c.args[2]), s)
        out.append(s)
    return out


def _uses(name, *nodes) -> bool:
    return any(isinstance(n, ast.Name) and n.id == name for x in nodes if x is not None for n in ast.walk(x))


def _loop_store(body, name):
    """the single store of a filling loop: (kind, key, value, [conditions]) or None."""
    conds = []
    body = list(body)
    while len(body) >= 2 and isinstance(body[0], ast.If) and not body[0].orelse and len(body[0].body) == 1 \
            and isinstance(body[0].body[0], ast.Continue):
        conds.append(negate(body[0].test))
        body = body[1:]
    while len(body) == 1 and isinstance(body[0], ast.If) and not body[0].orelse:
        conds.append(body[0].test)
        body = body[0].body
    if len(body) != 1:
        return None
    s = body[0]
    if isinstance(s, ast.Assign) and len(s.targets) == 1 and isinstance(s.targets[0], ast.Subscript) \
            and isinstance(s.targets[0].value, ast.Name) and s.targets[0].value.id == name:
        return "dict", s.targets[0].slice, s.value, conds
    if isinstance(s, ast.Expr) and isinstance(s.value, ast.Call) and isinstance(s.value.func, ast.Attribute) \
            and isinstance(s.value.func.value, ast.Name) and s.value.func.value.id == name and len(s.value.args) == 1 \
            and not s.value.keywords and s.value.func.attr in ("append", "add"):
        return {"append": "list", "add": "set"}[s.value.func.attr], None, s.value.args[0], conds
    return None


def _empty_kind(v):
    if isinstance(v, ast.Dict) and not v.keys:
        return "dict"
    if isinstance(v, ast.List) and not v.elts:
        return "list"
    if isinstance(v, ast.Call) and isinstance(v.func, ast.Name) and v.func.id in ("dict", "list", "set") and not v.args and not v.keywords:
        return v.func.id
    return None


def loops_to_comprehensions(blk):
    out, i = [], 0
    while i < len(blk):
        s = blk[i]
        nxt = blk[i + 1] if i + 1 < len(blk) else None
        if isinstance(s, ast.Assign) and len(s.targets) == 1 and isinstance(s.targets[0], ast.Name) and _empty_kind(s.value) \
                and isinstance(nxt, ast.For) and not nxt.orelse:
            name = s.targets[0].id
            st = _loop_store(nxt.body, name)
            if st and st[0] == _empty_kind(s.value) and not _uses(name, nxt.iter, st[1], st[2], *st[3]) \
                    and not any(isinstance(n, (ast.NamedExpr, ast.Yield, ast.Await)) for x in (st[1], st[2], *st[3]) if x is not None
                                for n in ast.walk(x)):
                gen = ast.comprehension(target=nxt.target, iter=nxt.iter, ifs=st[3], is_async=0)
                comp = {"dict": lambda: ast.DictComp(key=st[1], value=st[2], generators=[gen]),
                        "list": lambda: ast.ListComp(elt=st[2], generators=[gen]),
                        "set": lambda: ast.SetComp(elt=st[2], generators=[gen])}[st[0]]()
                out.append(ast.copy_location(ast.Assign(targets=s.targets, value=comp), s))
                i += 2
                continue
        out.append(s)
        i += 1
    return out


def merge_dict_stores(blk):
    """`d = {...literal keys...}` directly followed by `d["k"] = v` statements (v not reading d, k a new literal key)
    -> one dict literal."""
    out, i = [], 0
    while i < len(blk):
        s = blk[i]
        if isinstance(s, ast.Assign) and len(s.targets) == 1 and isinstance(s.targets[0], ast.Name) and isinstance(s.value, ast.Dict) \
                and all(isinstance(k, ast.Constant) for k in s.value.keys):
            name = s.targets[0].id
            keys, vals = list(s.value.keys), list(s.value.values)
            j = i + 1
            while j < len(blk):
                t = blk[j]
                if not (isinstance(t, ast.Assign) and len(t.targets) == 1 and isinstance(t.targets[0], ast.Subscript)
                        and isinstance(t.targets[0].value, ast.Name) and t.targets[0].value.id == name
                        and isinstance(t.targets[0].slice, ast.Constant) and not _uses(name, t.value)
                        and t.targets[0].slice.value not in [k.value for k in keys]):
                    break
                keys.append(t.targets[0].slice)
                vals.append(t.value)
                j += 1
            if j > i + 1 and (keys != s.value.keys):
                out.append(ast.copy_location(ast.Assign(targets=s.targets, value=ast.Dict(keys=keys, values=vals)), s))
                i = j
                continue
        out.append(s)
        i += 1
    return out


def _single_assign(body):
    if len(body) == 1 and isinstance(body[0], ast.Assign) and len(body[0].targets) == 1 and isinstance(body[0].targets[0], ast.Name):
        return body[0].targets[0].id, body[0].value
    return None


def cond_assign(blk):
    out, i = [], 0
    while i < len(blk):
        s = blk[i]
        nxt = blk[i + 1] if i + 1 < len(blk) else None
        # x = <literal> ; if c: x = A            ->   x = A if c else <literal>
        if isinstance(s, ast.Assign) and _single_assign([s]) and (is_literal(s.value)) and isinstance(nxt, ast.If) and not nxt.orelse:
            name, dflt = _single_assign([s])
            a = _single_assign(nxt.body)
            if a and a[0] == name and not _uses(name, nxt.test, a[1]) \
                    and not any(isinstance(n, ast.NamedExpr) for n in ast.walk(nxt.test)):
                out.append(ast.copy_location(ast.Assign(targets=s.targets, value=ast.IfExp(test=nxt.test, body=a[1], orelse=dflt)), s))
                i += 2
                continue
        # if c: x = A  else: x = B               ->   x = A if c else B
        if isinstance(s, ast.If) and s.orelse:
            a, b = _single_assign(s.body), _single_assign(s.orelse)
            if a and b and a[0] == b[0] and not any(isinstance(n, ast.NamedExpr) for n in ast.walk(s.test)):
                out.append(ast.copy_location(ast.Assign(targets=[ast.Name(id=a[0], ctx=ast.Store())],
                                                        value=ast.IfExp(test=s.test, body=a[1], orelse=b[1])), s))
                i += 1
                continue
        out.append(s)
        i += 1
    return out


def guard_form(blk):
    out = []
    for s in blk:
        if isinstance(s, ast.If) and s.orelse and all(isinstance(x, ast.Pass) for x in s.body):
            s = ast.copy_location(ast.If(test=negate(s.test), body=s.orelse, orelse=[]), s)     # if c: pass  else: X
        if isinstance(s, ast.If) and s.orelse:
            if terminates(s.body):
                out.append(ast.copy_location(ast.If(test=s.test, body=s.body, orelse=[]), s))
                out += guard_form(s.orelse)
                continue
            if terminates(s.orelse):
                out.append(ast.copy_location(ast.If(test=negate(s.test), body=s.orelse, orelse=[]), s))
                out += guard_form(s.body)
                continue
        out.append(s)
    return out


def dispatch_dicts(fn):
    """a local `D = {<literal>: <name / path / literal>, ...}` (one binding, not in a loop) that is only used as `D[x]` inside
    simple statements and in `x in D` / `x not in D`:   S(D[x])  ->  if x == k1: S(v1)  elif x == k2: S(v2) ... else: raise
    KeyError(x);   `x in D` -> `x in (k1, k2, ...)`."""
    pre = _preorder(fn)
    for s, blk, i, loop in pre:
        if not (isinstance(s, ast.Assign) and len(s.targets) == 1 and isinstance(s.targets[0], ast.Name)
                and isinstance(s.value, ast.Dict) and s.value.keys and not loop):
            continue
        name, d = s.targets[0].id, s.value
        if any(k is None or not isinstance(k, ast.Constant) for k in d.keys) \
                or any(not (path_of(v) is not None or is_literal(v)) for v in d.values):
            continue
        binds = [n for n in ast.walk(fn) if isinstance(n, ast.Name) and n.id == name and not isinstance(n.ctx, ast.Load)]
        if len(binds) != 1 or name in {a.arg for a in fn.args.args}:
            continue
        loads = {id(n) for n in ast.walk(fn) if isinstance(n, ast.Name) and n.id == name and isinstance(n.ctx, ast.Load)}
        later = {id(n) for t in blk[i + 1:] for n in ast.walk(t)}
        if not loads or not loads <= later:
            continue
        subs, tests, stmts = [], [], []
        for t, tblk, ti, _ in pre:
            if not isinstance(t, (ast.Return, ast.Assign, ast.Expr, ast.AugAssign, ast.If, ast.Raise)):
                continue
            for n in _own_exprs(t):
                if isinstance(n, ast.Subscript) and isinstance(n.value, ast.Name) and n.value.id == name \
                        and isinstance(n.ctx, ast.Load) and path_of(n.slice) is not None and not isinstance(t, ast.If):
                    subs.append(n)
                    stmts.append((t, tblk, n))
                elif isinstance(n, ast.Compare) and len(n.ops) == 1 and isinstance(n.ops[0], (ast.In, ast.NotIn)) \
                        and isinstance(n.comparators[0], ast.Name) and n.comparators[0].id == name:
                    tests.append(n)
        if len(subs) + len(tests) != len(loads) or not subs or len({id(t) for t, _, _ in stmts}) != len(stmts):
            continue
        for n in tests:
            n.comparators[0] = ast.Tuple(elts=[copy.deepcopy(k) for k in d.keys], ctx=ast.Load())
        for t, tblk, n in stmts:
            x = n.slice
            chain = [ast.Raise(exc=ast.Call(func=ast.Name(id="KeyError", ctx=ast.Load()), args=[copy.deepcopy(x)], keywords=[]),
                               cause=None)]
            for k, v in reversed(list(zip(d.keys, d.values))):
                # deep copy of t in which the node corresponding to n is replaced by v
                marker = ast.Name(id="__dispatch_marker__", ctx=ast.Load())
                saved = (n.value, n.slice)
                n.value, n.slice = marker, ast.Constant(value=0)
                tc = copy.deepcopy(t)
                n.value, n.slice = saved

                class _Put(ast.NodeTransformer):
                    def visit_Subscript(self, m, v=v):
                        if isinstance(m.value, ast.Name) and m.value.id == "__dispatch_marker__":
                            return copy.deepcopy(v)
                        return self.generic_visit(m)
                tc = _Put().visit(tc)
                chain = [ast.If(test=ast.Compare(left=copy.deepcopy(x), ops=[ast.Eq()], comparators=[copy.deepcopy(k)]),
                                body=[tc], orelse=chain)]
            tblk[tblk.index(t):tblk.index(t) + 1] = chain
        blk.remove(s)
        if not blk:
            blk.append(ast.Pass())
        ast.fix_missing_locations(fn)
        return dispatch_dicts(fn)


def expand_partials(fn):
    """`p = partial(f, a, k=v)` (one binding, not in a loop, `p` only ever called) : `p(x, y=z)` -> `f(a, x, k=v, y=z)`."""
    params = {a.arg for a in fn.args.args + fn.args.kwonlyargs + fn.args.posonlyargs}
    bound = bound_names(fn)
    pre = _preorder(fn)
    stores = [_store_targets(s) for s, _, _, _ in pre]
    for k, (s, blk, i, loop) in enumerate(pre):
        if not (isinstance(s, ast.Assign) and len(s.targets) == 1 and isinstance(s.targets[0], ast.Name) and not loop
                and isinstance(s.value, ast.Call)):
            continue
        f = s.value.func
        if not ((isinstance(f, ast.Name) and f.id == "partial" and "partial" not in bound)
                or (isinstance(f, ast.Attribute) and f.attr == "partial" and isinstance(f.value, ast.Name)
                    and f.value.id == "functools" and "functools" not in bound)):
            continue
        name, c = s.targets[0].id, s.value
        if name in params or not c.args or any(isinstance(a, ast.Starred) for a in c.args) or any(kw.arg is None for kw in c.keywords):
            continue
        parts = list(c.args) + [kw.value for kw in c.keywords]
        if not all(path_of(a) is not None or is_literal(a) for a in parts):
            continue
        binds = [n for n in ast.walk(fn) if isinstance(n, ast.Name) and n.id == name and not isinstance(n.ctx, ast.Load)]
        loads = [n for n in ast.walk(fn) if isinstance(n, ast.Name) and n.id == name and isinstance(n.ctx, ast.Load)]
        later = {id(n) for t in blk[i + 1:] for n in ast.walk(t)}
        calls = [n for n in ast.walk(fn) if isinstance(n, ast.Call) and isinstance(n.func, ast.Name) and n.func.id == name
                 and not any(isinstance(a, ast.Starred) for a in n.args) and not any(kw.arg is None for kw in n.keywords)]
        if len(binds) != 1 or not loads or len(calls) != len(loads) or any(id(n) not in later for n in loads):
            continue
        reads = [p for a in parts for p in read_paths(a)]
        after = [t for ts in stores[k + 1:] for t in ts]
        if any(is_prefix(t, r) for t in after for r in reads):
            continue
        for n in calls:
            kws = {kw.arg: kw.value for kw in c.keywords}
            kws.update({kw.arg: kw.value for kw in n.keywords})          # the call's keywords override the partial's
            n.func = copy.deepcopy(c.args[0])
            n.args = [copy.deepcopy(a) for a in c.args[1:]] + n.args
            n.keywords = [ast.keyword(arg=a, value=copy.deepcopy(v)) for a, v in kws.items()]
        blk.remove(s)
        if not blk:
            blk.append(ast.Pass())
        ast.fix_missing_locations(fn)
        return expand_partials(fn)


def procedure_tail(fn):
    """in a function that never returns a value:  `if c: return` + rest (up to the end of the function)  ->  `if not c: rest`;
    a bare `return` at the very end is dropped."""
    inner = [n for s in fn.body for n in ast.walk(s)]
    if any(isinstance(n, ast.Return) and not (n.value is None or (isinstance(n.value, ast.Constant) and n.value.value is None))
           for n in inner) or any(isinstance(n, (ast.Yield, ast.YieldFrom)) for n in inner):
        return

    def tail(blk):
        blk = list(blk)
        while blk and isinstance(blk[-1], ast.Return) and len(blk) > 1:
            blk.pop()
        for i, s in enumerate(blk):
            if isinstance(s, ast.If) and not s.orelse and len(s.body) == 1 and isinstance(s.body[0], ast.Return) and i < len(blk) - 1:
                return blk[:i] + [ast.copy_location(ast.If(test=negate(s.test), body=tail(blk[i + 1:]), orelse=[]), s)]
        return blk
    fn.body = tail(fn.body)


# ------------------------------------------------------------------------------------------------ aliases


def _preorder(fn):
    """[(statement, block, index, in_loop, enclosing blocks' statements)] in execution (source) order."""
    out = []

    def rec(node, in_loop):
        for owner, field, blk in blocks_of(node):
            loop = in_loop or (isinstance(owner, (ast.For, ast.While, ast.AsyncFor)) and field == "body")
            for i, s in enumerate(blk):
                out.append((s, blk, i, loop))
                if not isinstance(s, (ast.FunctionDef, ast.AsyncFunctionDef, ast.ClassDef)):
                    rec(s, loop)
    rec(fn, False)
    return out


def _own_exprs(s):
    """the statement without its nested statement blocks (tests, iterables, targets, values)."""
    skip = {id(x) for _, _, blk in blocks_of(s) for x in blk}
    for h in getattr(s, "handlers", []) or []:
        skip.add(id(h))
    for c in getattr(s, "cases", []) or []:
        skip.add(id(c))
    stack = [c for c in ast.iter_child_nodes(s) if id(c) not in skip]
    while stack:
        n = stack.pop()
        yield n
        stack.extend(ast.iter_child_nodes(n))


def _store_targets(s):
    """paths stored to by the statement itself (not by nested statements)."""
    ts = []
    if isinstance(s, ast.Assign):
        ts += s.targets
    elif isinstance(s, (ast.AugAssign, ast.AnnAssign)):
        ts.append(s.target)
    elif isinstance(s, ast.Delete):
        ts += s.targets
    elif isinstance(s, (ast.For, ast.AsyncFor)):
        ts.append(s.target)
    elif isinstance(s, (ast.With, ast.AsyncWith)):
        ts += [i.optional_vars for i in s.items if i.optional_vars is not None]
    elif isinstance(s, (ast.Import, ast.ImportFrom)):
        return [((a.asname or a.name).split(".")[0],) for a in s.names]
    out = []
    flat = []
    for t in ts:
        flat += t.elts if isinstance(t, (ast.Tuple, ast.List)) else [t]
    for t in flat:
        if isinstance(t, ast.Starred):
            t = t.value
        p = path_of(t)
        if p is None and isinstance(t, ast.Subscript):
            p = path_of(t.value)
            p = p + (("?",),) if p is not None else None
        if p is not None:
            out.append(p)
        else:
            out += [q + (("?",),) for q in read_paths(t)]
    for n in _own_exprs(s):
        if isinstance(n, ast.NamedExpr):
            out.append((n.target.id,))
        elif isinstance(n, ast.Call):
            if isinstance(n.func, ast.Attribute) and n.func.attr in MUTATORS:
                p = path_of(n.func.value)
                if p is not None:
                    out.append(p + (("?",),))
            elif isinstance(n.func, ast.Name) and n.func.id in ("setattr", "delattr") and n.args:
                p = path_of(n.args[0])
                if p is not None:
                    out.append(p + (("?",),))
    return out


def subst_aliases(fn):
    params = {a.arg for a in fn.args.args + fn.args.kwonlyargs + fn.args.posonlyargs}
    if fn.args.vararg:
        params.add(fn.args.vararg.arg)
    if fn.args.kwarg:
        params.add(fn.args.kwarg.arg)
    for _ in range(40):
        pre = _preorder(fn)
        counts = {}
        for n in ast.walk(fn):
            if isinstance(n, ast.Name) and isinstance(n.ctx, (ast.Store, ast.Del)):
                counts[n.id] = counts.get(n.id, 0) + 1
            elif isinstance(n, (ast.Import, ast.ImportFrom)):
                for a in n.names:
                    k = (a.asname or a.name).split(".")[0]
                    counts[k] = counts.get(k, 0) + 1
            elif isinstance(n, ast.ExceptHandler) and n.name:
                counts[n.name] = counts.get(n.name, 0) + 1
            elif isinstance(n, (ast.Global, ast.Nonlocal)):
                for k in n.names:
                    counts[k] = counts.get(k, 0) + 2
        # virtual expansion of every single-binding path-valued local (whether or not it will be substituted)
        vmap = {}
        for s, blk, i, loop in pre:
            if isinstance(s, ast.Assign) and len(s.targets) == 1 and isinstance(s.targets[0], ast.Name):
                x = s.targets[0].id
                p = path_of(s.value)
                if p is not None and counts.get(x) == 1 and x not in params:
                    vmap[x] = p

        def expand(p, vmap=vmap):
            seen = set()
            while p[0] in vmap and p[0] not in seen:
                seen.add(p[0])
                p = vmap[p[0]] + p[1:]
            return p
        stores = [[expand(t) for t in _store_targets(s)] for s, _, _, _ in pre]
        multi = _multi_eval_names(fn)
        done = False
        for k, (s, blk, i, loop) in enumerate(pre):
            if not (isinstance(s, ast.Assign) and len(s.targets) == 1 and isinstance(s.targets[0], ast.Name)):
                continue
            x = s.targets[0].id
            if counts.get(x) != 1 or x in params or loop or _uses(x, s.value):
                continue
            if any(isinstance(n, (ast.NamedExpr, ast.Yield, ast.YieldFrom, ast.Await, ast.Lambda)) for n in ast.walk(s.value)):
                continue
            if any(isinstance(n, ast.Call) and isinstance(n.func, ast.Attribute) and n.func.attr in MUTATORS for n in ast.walk(s.value)):
                continue                      # d.pop(k), l.append(x): the value changes what later statements read
            loads = [n for n in ast.walk(fn) if isinstance(n, ast.Name) and n.id == x and isinstance(n.ctx, ast.Load)]
            later = {id(n) for t in blk[i + 1:] for n in ast.walk(t)}
            if not loads or any(id(n) not in later for n in loads):
                continue
            is_path = path_of(s.value) is not None
            is_lit = is_literal(s.value) and not any(isinstance(n, (ast.List, ast.Set)) for n in ast.walk(s.value))
            is_pure = is_pure_call(s.value, counts)
            if not is_path and not is_lit and not is_pure and (len(loads) != 1 or id(loads[0]) in multi):
                continue
            reads = [expand(p) for p in read_paths(s.value)]
            after = [t for ts in stores[k + 1:] for t in ts]
            if is_lit:
                clash = False                 # an immutable literal
            elif is_path:
                clash = any(is_prefix(t, r) for t in after for r in reads)
            elif is_pure:
                # type(x) / id(x) / isinstance(x, C) depend on which object x is and on its class only: a store INTO x
                # (x.a = ..., x["k"] = ..., x.update(...)) does not change them, a store to x, to a prefix of x or to
                # x.__class__ does
                clash = any(is_prefix(t, r) or (is_prefix(r, t) and len(t) > len(r) and t[len(r)] == (".", "__class__"))
                            for t in after for r in reads)
            else:
                clash = any(is_prefix(t, r) or is_prefix(r, t) for t in after for r in reads)
            if clash:
                continue
            _Subst({x: s.value}).visit(fn)
            blk.remove(s)
            if not blk:
                blk.append(ast.Pass())
            done = True
            break
        if not done:
            return


def _multi_eval_names(fn):
    out = set()

    def mark(n):
        for m in ast.walk(n):
            if isinstance(m, ast.Name):
                out.add(id(m))
    for n in ast.walk(fn):
        if isinstance(n, (ast.For, ast.AsyncFor, ast.While)):
            for b in n.body + n.orelse:
                mark(b)
            if isinstance(n, ast.While):
                mark(n.test)
        elif isinstance(n, (ast.ListComp, ast.SetComp, ast.GeneratorExp, ast.DictComp)):
            for e in ([n.key, n.value] if isinstance(n, ast.DictComp) else [n.elt]):
                mark(e)
            for j, g in enumerate(n.generators):
                for c in g.ifs:
                    mark(c)
                if j > 0:
                    mark(g.iter)
        elif isinstance(n, ast.Lambda):
            mark(n.body)
    return out
