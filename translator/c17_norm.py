"""C17: statement-level inlining of helpers defined in the same module (a block extracted from the function that is read must
translate to the same table as the inlined code).

`inline_calls(tree, fn, wanted)` returns the body of `fn` in which every statement `helper(args)` - helper a module-level
function of the same module for which `wanted(helper)` holds - is replaced by the helper's body:
  * parameters that the helper never rebinds and that receive a name / attribute chain / literal are substituted, the others
    are bound by an assignment to a fresh local; the helper's own locals get fresh names (no capture);
  * early `return`s become nested if/else (`if c: A; return` + rest == `if c: A else: rest`), so that the result has no
    `return` left; a `return` inside a loop / try / with, a generator, star arguments, recursion: not inlined (the caller then
    sees the call as before and fails closed where it must).
Also returns how often each helper was inlined, so that the caller can tell a helper that lives on only through its call sites.
"""
from __future__ import annotations

import ast
import copy

from .common import body_no_doc


def _has_return(node) -> bool:
    for n in ast.walk(node):
        if isinstance(n, ast.Return):
            return True
    return False


def _nest(stmts):
    """The statement list without `return` (single exit), or None if a return sits where it cannot be moved."""
    out = []
    for i, s in enumerate(stmts):
        if isinstance(s, (ast.FunctionDef, ast.AsyncFunctionDef, ast.ClassDef)):
            out.append(s)
            continue
        if isinstance(s, ast.Return):
            if s.value is not None and not isinstance(s.value, (ast.Constant, ast.Name)):
                out.append(ast.copy_location(ast.Expr(value=s.value), s))
            return out
        if isinstance(s, ast.If) and _has_return(s):
            rest = stmts[i + 1:]
            a, b = _nest(list(s.body) + rest), _nest(list(s.orelse) + rest)
            if a is None or b is None:
                return None
            out.append(ast.copy_location(ast.If(test=s.test, body=a or [ast.Pass()], orelse=b), s))
            return out
        if _has_return(s):
            return None
        out.append(s)
    return out


class _Rename(ast.NodeTransformer):
    def __init__(self, names: dict, subst: dict):
        self.names, self.subst = names, subst

    def visit_Name(self, n):  # noqa: N802
        if n.id in self.subst and isinstance(n.ctx, ast.Load):
            return copy.deepcopy(self.subst[n.id])
        if n.id in self.names:
            return ast.copy_location(ast.Name(id=self.names[n.id], ctx=n.ctx), n)
        return n

    def visit_FunctionDef(self, n):  # noqa: N802
        return n

    def visit_Lambda(self, n):  # noqa: N802
        return n


def _simple_arg(e) -> bool:
    while isinstance(e, ast.Attribute):
        e = e.value
    return isinstance(e, (ast.Name, ast.Constant))


def inline_calls(tree: ast.Module, fn, wanted, depth: int = 3):
    helpers = {n.name: n for n in tree.body if isinstance(n, ast.FunctionDef)}
    counts: dict[str, int] = {}
    k = [0]

    def expand(call: ast.Call, stack):
        h = helpers.get(call.func.id) if isinstance(call.func, ast.Name) else None
        if h is None or h is fn or h.name in stack or len(stack) >= depth or not wanted(h):
            return None
        if h.args.vararg or h.args.kwarg or h.decorator_list or any(isinstance(a, ast.Starred) for a in call.args) \
                or any(kw.arg is None for kw in call.keywords):
            return None
        if any(isinstance(n, (ast.Yield, ast.YieldFrom, ast.Await, ast.Global, ast.Nonlocal)) for n in ast.walk(h)):
            return None
        names = [a.arg for a in h.args.posonlyargs + h.args.args]
        kwonly = [a.arg for a in h.args.kwonlyargs]
        if len(call.args) > len(names):
            return None
        given = dict(zip(names, call.args))
        for kw in call.keywords:
            if kw.arg not in names + kwonly or kw.arg in given:
                return None
            given[kw.arg] = kw.value
        defaults = dict(zip(names[len(names) - len(h.args.defaults):], h.args.defaults))
        defaults.update({a: d for a, d in zip(kwonly, h.args.kw_defaults) if d is not None})
        for nm in names + kwonly:
            if nm not in given:
                if nm not in defaults:
                    return None
                given[nm] = defaults[nm]
        body = _nest(body_no_doc(h))
        if body is None:
            return None
        k[0] += 1
        prefix = f"_inl{k[0]}_"
        stored = {n.id for s in body for n in ast.walk(s) if isinstance(n, ast.Name) and isinstance(n.ctx, (ast.Store, ast.Del))}
        subst, rename, pre = {}, {nm: prefix + nm for nm in stored}, []
        for nm in names + kwonly:
            if nm not in stored and _simple_arg(given[nm]):
                subst[nm] = given[nm]
            else:
                rename[nm] = prefix + nm
                pre.append(ast.Assign(targets=[ast.Name(id=prefix + nm, ctx=ast.Store())], value=copy.deepcopy(given[nm])))
        r = _Rename(rename, subst)
        new = pre + [r.visit(copy.deepcopy(s)) for s in body]
        for s in new:
            ast.copy_location(s, call)
            ast.fix_missing_locations(s)
        counts[h.name] = counts.get(h.name, 0) + 1
        return rewrite(new, stack + [h.name])

    def rewrite(stmts, stack):
        out = []
        for s in stmts:
            if isinstance(s, ast.Expr) and isinstance(s.value, ast.Call):
                rep = expand(s.value, stack)
                if rep is not None:
                    out.extend(rep or [ast.copy_location(ast.Pass(), s)])
                    continue
            if isinstance(s, (ast.FunctionDef, ast.AsyncFunctionDef, ast.ClassDef)):
                out.append(s)
                continue
            s = copy.copy(s)
            for field in ("body", "orelse", "finalbody"):
                if isinstance(getattr(s, field, None), list) and getattr(s, field) and isinstance(getattr(s, field)[0], ast.stmt):
                    setattr(s, field, rewrite(getattr(s, field), stack))
            if isinstance(s, ast.Try):
                hs = []
                for h in s.handlers:
                    h = copy.copy(h)
                    h.body = rewrite(h.body, stack)
                    hs.append(h)
                s.handlers = hs
            if isinstance(s, ast.Match):
                cs = []
                for c in s.cases:
                    c = copy.copy(c)
                    c.body = rewrite(c.body, stack)
                    cs.append(c)
                s.cases = cs
            out.append(s)
        return out

    return rewrite(body_no_doc(fn), [fn.name]), counts
