"""Behaviour-preserving normalisation of a python function (ast -> ast) applied BEFORE the shape recognisers of
translator/c02.py, so that a refactoring which does not change what the function does translates to the same table.

Every rewrite below is a semantic identity under its stated side conditions; whenever a side condition cannot be
established the code is left as it is (the recognisers then see an unknown shape and fail closed).

 consts   a Name that is not local to the function and has exactly ONE store in its module, a top-level assignment of a
          literal (constant, or tuple / list of constants), is replaced by the literal.
 inline   a call of a function defined at the top level of the same module (or imported by `from <package>.. import f`
          from another module of the same package: normalised in its own module first), or `self.m(..)` of a method of
          the same class (undecorated, not recursive, not in `keep`), is replaced by its body: parameters are bound by fresh
          single-assignment locals (the alias pass then substitutes them), locals are renamed apart.  Accepted callee
          bodies: a procedure (no value returned; a bare `return` only as a guard clause or last statement), or
          statements followed by ONE `return <expr>` at the end.  A callee that is `return <expr>` only is inlined at
          expression level when all arguments are simple.
 ifexp    `if c: x = A  else: x = B`  ->  `x = A if c else B`  (x a plain local name);
          `False if c else True` -> `not c`, `True if c else False` -> `bool(c)`.
 guards   `if c: ..; <raise|return|continue|break>  else: B`  ->  the `else` body hoisted after the `if`
          (an if/elif chain of raising branches == a sequence of guard clauses);
          `if c: continue` + rest (in a loop body), `if c: return` + rest (valueless, in a function body)
          ->  `if not c: rest`;  `if c: pass else: B` -> `if not c: B`;  `if not c: A else: B` -> `if c: B else: A`.
          `if c: A; return E` .. rest .. `return E` (end of the function) -> `if c: A else: rest` ; `return E`.
 alias    a local name with exactly one store `x = <rhs>` whose uses all follow the store inside the same block is
          replaced by <rhs> when nothing <rhs> reads is stored in between (explicit stores to a prefix of a path read
          by <rhs>, subscripts stripped; a `set_*` / `_set_*` method called on an owner of such a path; "in between"
          includes the whole of a loop that contains a use and starts after the store).  If <rhs> contains a call the
          name must be used exactly once, not inside a loop / lambda / comprehension, and additionally no call other
          than numpy / builtin pure ones and no store related in either direction may lie in between.
 sink     `if a: ..; r = A  elif b: ..; r = B  else: raise ..` followed by `T = r` (r used nowhere else, T not mentioned in
          the tree)  ->  the branches assign T directly (what inlining a helper with tail returns leaves behind).
 counter  `i = 0` .. `for t in it: body; i += 1` (i stored nowhere else, not read after the loop, no `continue`)
          ->  `for i, t in enumerate(it): body`.
 unroll   `for x in (<constants>): body`  (x not stored in the body, no break/continue left, no else) -> the body once
          per constant with x replaced.
 fold     comparisons of two constants, `and` / `or` / `not` with constant operands, `if <constant>:`,
          `getattr(o, '<identifier>')` -> `o.<identifier>`, `not not c` / `bool(c)` in test position -> `c`.
 compare  `a < x <= b` (x simple) -> `a < x and x <= b`.
 match    `match <simple>:` over literal / dotted-name / or-patterns / `_` -> if / elif on `==`.
 strip    docstrings, `pass`, annotations of assignments.
"""
from __future__ import annotations

import ast
import copy
import itertools

TERMINATORS = (ast.Raise, ast.Return, ast.Continue, ast.Break)
BLOCK_FIELDS = ("body", "orelse", "finalbody")
_fresh = itertools.count(1)
PURE_CALLS = ("np.", "numpy.", "logging.", "len", "isinstance", "bool", "float", "int", "getattr", "abs")


# ------------------------------------------------------------------------------------------------ small helpers

def is_simple(e: ast.expr) -> bool:
    """Name / attribute chain / subscript with a simple index / constant: reading it twice == reading it once."""
    if isinstance(e, (ast.Name, ast.Constant)):
        return True
    if isinstance(e, ast.Attribute):
        return is_simple(e.value)
    if isinstance(e, ast.Subscript):
        return is_simple(e.value) and is_simple(e.slice)
    if isinstance(e, ast.UnaryOp) and isinstance(e.op, ast.USub):
        return isinstance(e.operand, ast.Constant)
    return False


def path_of(e: ast.AST):
    """('self', '_times') for self._times[0]; None when the expression is not a path."""
    if isinstance(e, ast.Name):
        return (e.id,)
    if isinstance(e, ast.Attribute):
        p = path_of(e.value)
        return None if p is None else p + (e.attr,)
    if isinstance(e, ast.Subscript):
        return path_of(e.value)
    if isinstance(e, ast.Starred):
        return path_of(e.value)
    return None


def is_prefix(a, b) -> bool:
    return len(a) <= len(b) and tuple(b[:len(a)]) == tuple(a)


def blocks_of(node: ast.AST):
    """Every statement list below node (pre-order), as (owner, field, list)."""
    for n in ast.walk(node):
        for f in BLOCK_FIELDS:
            b = getattr(n, f, None)
            if isinstance(b, list) and b and isinstance(b[0], ast.stmt):
                yield n, f, b
        if isinstance(n, ast.Try):
            for h in n.handlers:
                pass  # handlers are visited by ast.walk themselves (ExceptHandler.body)
        if isinstance(n, ast.Match):
            pass      # match_case.body is visited through ast.walk


_SHARED = (ast.expr_context, ast.operator, ast.unaryop, ast.boolop, ast.cmpop)


def preorder(node: ast.AST, acc=None) -> dict:
    """id(node) -> position in a depth-first, source-order traversal."""
    if acc is None:
        acc = {}
    acc[id(node)] = len(acc)
    for ch in ast.iter_child_nodes(node):
        if not isinstance(ch, _SHARED):          # Load() / Store() / operators are shared singleton objects
            preorder(ch, acc)
    return acc


def last_index(node: ast.AST, order: dict) -> int:
    return max(order[id(n)] for n in ast.walk(node) if not isinstance(n, _SHARED))


def neg(c: ast.expr) -> ast.expr:
    if isinstance(c, ast.UnaryOp) and isinstance(c.op, ast.Not):
        return c.operand
    if isinstance(c, ast.Constant) and isinstance(c.value, bool):
        return ast.Constant(not c.value)
    return ast.UnaryOp(ast.Not(), c)


class _Subst(ast.NodeTransformer):
    """Replace loads of the given names by (copies of) expressions."""

    def __init__(self, mapping: dict):
        self.m = mapping

    def visit_Name(self, n: ast.Name):
        if isinstance(n.ctx, ast.Load) and n.id in self.m:
            return copy.deepcopy(self.m[n.id])
        return n


class _Rename(ast.NodeTransformer):
    def __init__(self, mapping: dict):
        self.m = mapping

    def visit_Name(self, n: ast.Name):
        if n.id in self.m:
            return ast.Name(self.m[n.id], n.ctx)
        return n

    def visit_arg(self, n: ast.arg):
        if n.arg in self.m:
            n.arg = self.m[n.arg]
        return n


def stored_names(node: ast.AST) -> set:
    out = set()
    for n in ast.walk(node):
        if isinstance(n, ast.Name) and isinstance(n.ctx, (ast.Store, ast.Del)):
            out.add(n.id)
        elif isinstance(n, ast.arg):
            out.add(n.arg)
        elif isinstance(n, (ast.FunctionDef, ast.AsyncFunctionDef, ast.ClassDef)):
            out.add(n.name)
        elif isinstance(n, (ast.Import, ast.ImportFrom)):
            for a in n.names:
                out.add((a.asname or a.name).split(".")[0])
        elif isinstance(n, ast.ExceptHandler) and n.name:
            out.add(n.name)
        elif isinstance(n, (ast.MatchAs, ast.MatchStar)) and n.name:
            out.add(n.name)
    return out


def params_of(fn: ast.FunctionDef) -> list:
    a = fn.args
    return [x.arg for x in a.posonlyargs + a.args + a.kwonlyargs] + \
        ([a.vararg.arg] if a.vararg else []) + ([a.kwarg.arg] if a.kwarg else [])


# ------------------------------------------------------------------------------------------------ the normaliser

class Normaliser:
    def __init__(self, module: ast.Module, cls: ast.ClassDef | None = None, keep: set | None = None,
                 inline: bool = True, mutators=(), repo=None, package: str = "pyxel"):
        self.module = module
        self.cls = cls
        self.keep = set(keep or ())       # call names (as unparsed: "self._set_steps", "calculate_steps") never inlined
        self.do_inline = inline
        self._caller_locals = None
        self.repo, self.package = repo, package    # repo: Path of the tree; lets calls of functions imported from other
        self._foreign: dict = {}                    # modules of the same package be followed too
        self.mutators = set(mutators or ())   # method names known to rebind attributes of their receiver
        self.log: list[str] = []           # which rewrites were applied (evidence / debugging)
        self._mod_consts = None

    # -- entry
    def function(self, fn: ast.FunctionDef) -> ast.FunctionDef:
        fn = copy.deepcopy(fn)
        self._stack = [fn.name]
        self._budget = 24
        self._caller_locals = stored_names(fn) - {fn.name}
        self._strip(fn)
        for _ in range(8):
            before = ast.dump(fn)
            self._consts(fn)
            if self.do_inline:
                self._inline(fn)
            self._strip(fn)
            self._match(fn)
            self._compare(fn)
            self._fold(fn)
            self._ifexp(fn)
            self._guards(fn)
            self._fold(fn)
            self._alias(fn)
            self._sink(fn)
            self._enumerate(fn)
            self._unroll(fn)
            self._fold(fn)
            if ast.dump(fn) == before:
                break
        ast.fix_missing_locations(fn)
        return fn

    # -- strip
    def _strip(self, fn):
        for owner, f, b in list(blocks_of(fn)):
            new = []
            for k, st in enumerate(b):
                if isinstance(st, ast.Expr) and isinstance(st.value, ast.Constant) and isinstance(st.value.value, str):
                    continue
                if isinstance(st, ast.Pass):
                    continue
                if isinstance(st, ast.AnnAssign):
                    if st.value is None:
                        continue
                    st = ast.Assign([st.target], st.value)
                new.append(st)
            if not new and f == "body":
                new = [ast.Pass()]
            b[:] = new

    # -- module-level constants
    def _module_constants(self) -> dict:
        if self._mod_consts is None:
            stores: dict[str, int] = {}
            for n in ast.walk(self.module):
                if isinstance(n, ast.Name) and isinstance(n.ctx, (ast.Store, ast.Del)):
                    stores[n.id] = stores.get(n.id, 0) + 1
                elif isinstance(n, (ast.Global, ast.Nonlocal)):
                    for x in n.names:
                        stores[x] = stores.get(x, 0) + 2
                elif isinstance(n, (ast.FunctionDef, ast.ClassDef, ast.AsyncFunctionDef)):
                    stores[n.name] = stores.get(n.name, 0) + 2
                elif isinstance(n, (ast.Import, ast.ImportFrom)):
                    for a in n.names:
                        nm = (a.asname or a.name).split(".")[0]
                        stores[nm] = stores.get(nm, 0) + 2
            out = {}
            for st in self.module.body:
                tgt = val = None
                if isinstance(st, ast.Assign) and len(st.targets) == 1:
                    tgt, val = st.targets[0], st.value
                elif isinstance(st, ast.AnnAssign) and st.value is not None:
                    tgt, val = st.target, st.value
                if isinstance(tgt, ast.Name) and stores.get(tgt.id) == 1 and self._is_literal(val):
                    out[tgt.id] = val if not isinstance(val, ast.List) else ast.Tuple(val.elts, ast.Load())
            self._mod_consts = out
        return self._mod_consts

    @staticmethod
    def _is_literal(v) -> bool:
        if isinstance(v, ast.Constant):
            return True
        if isinstance(v, ast.UnaryOp) and isinstance(v.op, ast.USub) and isinstance(v.operand, ast.Constant):
            return True
        if isinstance(v, (ast.Tuple, ast.List)):
            return all(Normaliser._is_literal(e) for e in v.elts)
        return False

    def _consts(self, fn):
        consts = self._module_constants()
        if not consts:
            return
        local = stored_names(fn)
        m = {k: v for k, v in consts.items() if k not in local}
        used = {n.id for n in ast.walk(fn) if isinstance(n, ast.Name) and isinstance(n.ctx, ast.Load)} & set(m)
        if used:
            self.log.append("consts:" + ",".join(sorted(used)))
            _Subst(m).visit(fn)

    # -- helper inlining
    def _imported_function(self, name: str, depth: int = 0):
        """A function of another module of the same package, imported by `from pyxel.x.y import name`: its definition,
        normalised in the context of ITS module (its own helpers and constants), or None."""
        if name in self._foreign:
            return self._foreign[name]
        self._foreign[name] = None
        mod, modname, orig = self.module, None, name
        for _ in range(3):                                    # follow re-exports through __init__ files
            imp = [(n, a) for n in ast.walk(mod) if isinstance(n, ast.ImportFrom) and n.level == 0 and n.module
                   and n.module.split(".")[0] == self.package for a in n.names if (a.asname or a.name) == orig]
            if len({(n.module, a.name) for n, a in imp}) != 1:
                return None
            modname, orig = imp[0][0].module, imp[0][1].name
            base = self.repo / modname.replace(".", "/")
            path = base.with_suffix(".py") if base.with_suffix(".py").exists() else base / "__init__.py"
            if not path.exists():
                return None
            try:
                mod = ast.parse(path.read_text())
            except SyntaxError:
                return None
            defs = [n for n in mod.body if isinstance(n, ast.FunctionDef) and n.name == orig]
            if len(defs) == 1:
                if defs[0].decorator_list:
                    return None
                sub = Normaliser(mod, None, self.keep, repo=self.repo, mutators=self.mutators)
                out = sub.function(defs[0])
                # what is left must not mention a name that means something else in the calling module
                theirs = {n.name for n in mod.body if isinstance(n, (ast.FunctionDef, ast.ClassDef))} | \
                    {t.id for st in mod.body if isinstance(st, (ast.Assign, ast.AnnAssign))
                     for t in (st.targets if isinstance(st, ast.Assign) else [st.target]) if isinstance(t, ast.Name)}
                free = {n.id for n in ast.walk(out) if isinstance(n, ast.Name) and isinstance(n.ctx, ast.Load)}
                mine = {n.name for n in self.module.body if isinstance(n, (ast.FunctionDef, ast.ClassDef))} | \
                    {t.id for st in self.module.body if isinstance(st, (ast.Assign, ast.AnnAssign))
                     for t in (st.targets if isinstance(st, ast.Assign) else [st.target]) if isinstance(t, ast.Name)}
                if free & theirs & mine:
                    return None
                self.log += [f"foreign:{modname}.{orig}"] + [f"  {x}" for x in sub.log]
                self._foreign[name] = out
                return out
        return None

    def _resolve(self, call: ast.Call):
        f = call.func
        name = ast.unparse(f)
        if name in self.keep:
            return None
        cands = []
        if isinstance(f, ast.Name):
            cands = [n for n in self.module.body if isinstance(n, ast.FunctionDef) and n.name == f.id]
            is_method = False
            if not cands and self.repo is not None:
                foreign = self._imported_function(f.id)
                if foreign is not None:
                    cands = [foreign]
        elif (isinstance(f, ast.Attribute) and isinstance(f.value, ast.Name) and f.value.id == "self"
              and self.cls is not None):
            cands = [n for n in self.cls.body if isinstance(n, ast.FunctionDef) and n.name == f.attr]
            is_method = True
        if len(cands) != 1:
            return None
        callee = cands[0]
        if any(ast.unparse(d) not in ("override", "typing.override") for d in callee.decorator_list) \
                or callee.name in self._stack:
            return None
        if any(isinstance(n, ast.Call) and ast.unparse(n.func) in (callee.name, 'self.' + callee.name)
               for n in ast.walk(callee)):
            return None
        a = callee.args
        if a.vararg or a.kwarg or a.posonlyargs:
            return None
        for n in ast.walk(callee):
            if isinstance(n, (ast.Yield, ast.YieldFrom, ast.Await, ast.Global, ast.Nonlocal, ast.FunctionDef,
                              ast.AsyncFunctionDef, ast.ClassDef, ast.Lambda)) and n is not callee:
                return None
        # bind the arguments
        names = [x.arg for x in a.args]
        if is_method:
            if not names or names[0] != "self":
                return None
            names = names[1:]
        if any(isinstance(x, ast.Starred) for x in call.args) or any(k.arg is None for k in call.keywords):
            return None
        if len(call.args) > len(names):
            return None
        bound = dict(zip(names, call.args))
        kwonly = [x.arg for x in a.kwonlyargs]
        for k in call.keywords:
            if k.arg in bound or k.arg not in names + kwonly:
                return None
            bound[k.arg] = k.value
        defaults = dict(zip(names[len(names) - len(a.defaults):], a.defaults)) if a.defaults else {}
        for x, d in zip(a.kwonlyargs, a.kw_defaults):
            if d is not None:
                defaults[x.arg] = d
        for p in names + kwonly:
            if p not in bound:
                if p not in defaults or not self._is_literal(defaults[p]):
                    return None
                bound[p] = defaults[p]
        return callee, bound, is_method

    def _callee_body(self, callee, is_method):
        """(statements, result expression | None, rename map) of a fresh copy of the callee, or None."""
        c = copy.deepcopy(callee)
        sub = Normaliser(self.module, self.cls, self.keep, inline=False)
        sub._strip(c)
        sub._guards(c)              # guard clauses with a bare `return` become nested ifs
        body = list(c.body)
        result = None
        if body and isinstance(body[-1], ast.Return):
            result = body[-1].value
            body = body[:-1]
        if any(isinstance(n, ast.Return) for st in body for n in ast.walk(st)):
            # several returns, each in TAIL position of an if / elif / else tree: the tree is kept and every
            # `return e` becomes `<result> = e`
            res = f"result__t{next(_fresh)}"
            tree = self._tail(list(c.body), res)
            if tree is None:
                return None
            body, result = tree, ast.Name(res, ast.Load())
        k = next(_fresh)
        locs = stored_names(c) - ({"self"} if is_method else set())
        # a global the callee reads must not be a local of the function it is spliced into
        free = {n.id for n in ast.walk(c) if isinstance(n, ast.Name) and isinstance(n.ctx, ast.Load)} - locs
        if self._caller_locals is not None and free & (self._caller_locals - {"self"}):
            return None
        ren = {x: f"{x}__h{k}" for x in locs}
        holder = ast.Module(body=body + ([ast.Expr(result)] if result is not None else []), type_ignores=[])
        _Rename(ren).visit(holder)
        if result is not None:
            result = holder.body[-1].value
            body = holder.body[:-1]
        else:
            body = holder.body
        return body, result, ren

    def _tail(self, stmts, res):
        stmts = list(stmts)
        for i, st in enumerate(stmts[:-1]):
            if any(isinstance(n, ast.Return) for n in ast.walk(st)):
                # a guard clause `if c: ..; return e` followed by the rest == if / else
                if isinstance(st, ast.If) and not st.orelse and st.body and isinstance(st.body[-1], (ast.Return, ast.Raise)):
                    st.orelse = stmts[i + 1:]
                    stmts = stmts[:i + 1]
                    break
                return None
        if not stmts:
            return [ast.Assign([ast.Name(res, ast.Store())], ast.Constant(None))]
        last = stmts[-1]
        head = stmts[:-1]
        if any(isinstance(n, ast.Return) for st in head for n in ast.walk(st)):
            return None
        if isinstance(last, ast.Return):
            return head + [ast.Assign([ast.Name(res, ast.Store())], last.value or ast.Constant(None))]
        if isinstance(last, ast.Raise):
            return stmts
        if isinstance(last, ast.If):
            a, b = self._tail(last.body, res), self._tail(last.orelse, res)
            if a is None or b is None:
                return None
            return head + [ast.If(last.test, a, b)]
        if any(isinstance(n, ast.Return) for n in ast.walk(last)):
            return None
        return stmts + [ast.Assign([ast.Name(res, ast.Store())], ast.Constant(None))]

    def _inline(self, fn):
        # 1. expression level: callee == `return <expr>` and simple arguments
        changed = True
        rounds = 0
        while changed and rounds < 4:
            changed = False
            rounds += 1
            for n in list(ast.walk(fn)):
                for field, val in ast.iter_fields(n):
                    items = val if isinstance(val, list) else [val]
                    for idx, ch in enumerate(items):
                        if not isinstance(ch, ast.Call):
                            continue
                        r = self._resolve(ch)
                        if r is None:
                            continue
                        callee, bound, is_method = r
                        if not all(is_simple(v) for v in bound.values()):
                            continue
                        cb = self._callee_body(callee, is_method)
                        if cb is None:
                            continue
                        body, result, ren = cb
                        if body or result is None:
                            continue
                        new = _Subst({ren.get(p, p): v for p, v in bound.items()}).visit(result)
                        if isinstance(val, list):
                            val[idx] = new
                        else:
                            setattr(n, field, new)
                        self.log.append(f"inline-expr:{callee.name}")
                        changed = True
        # 2. statement level
        for owner, f, b in list(blocks_of(fn)):
            k = 0
            while k < len(b):
                st = b[k]
                call = tgt = None
                if isinstance(st, ast.Expr) and isinstance(st.value, ast.Call):
                    call = st.value
                elif isinstance(st, ast.Assign) and len(st.targets) == 1 and isinstance(st.value, ast.Call):
                    call, tgt = st.value, st.targets[0]
                r = self._resolve(call) if call is not None else None
                if r is None or self._budget <= 0:
                    k += 1
                    continue
                callee, bound, is_method = r
                cb = self._callee_body(callee, is_method)
                if cb is None or (tgt is not None and cb[1] is None):
                    k += 1
                    continue
                body, result, ren = cb
                binds = [ast.Assign([ast.Name(ren.get(p, p), ast.Store())], copy.deepcopy(v)) for p, v in bound.items()]
                new = binds + body
                if result is not None:
                    new.append(ast.Assign([tgt], result) if tgt is not None else ast.Expr(result))
                b[k:k + 1] = new
                self.log.append(f"inline:{callee.name}")
                self._budget -= 1                    # bounds mutual recursion
                # continue at the same index: the spliced statements may contain further helper calls

    # -- if/else assignment -> conditional expression
    def _ifexp(self, fn):
        for owner, f, b in list(blocks_of(fn)):
            for k, st in enumerate(b):
                if (isinstance(st, ast.If) and len(st.body) == 1 and len(st.orelse) == 1
                        and all(isinstance(x, ast.Assign) and len(x.targets) == 1 and isinstance(x.targets[0], ast.Name)
                                for x in (st.body[0], st.orelse[0]))
                        and st.body[0].targets[0].id == st.orelse[0].targets[0].id):
                    b[k] = ast.Assign([st.body[0].targets[0]], ast.IfExp(st.test, st.body[0].value, st.orelse[0].value))
                    self.log.append("ifexp")

    # -- guard clauses
    def _guards(self, fn):
        changed = True
        while changed:
            changed = False
            for owner, f, b in list(blocks_of(fn)):
                in_loop = isinstance(owner, (ast.For, ast.While)) and f == "body"
                in_func = owner is fn and f == "body"
                k = 0
                while k < len(b):
                    st = b[k]
                    if not isinstance(st, ast.If):
                        k += 1
                        continue
                    # `if c: A; return E` + rest + `return E` (same E, end of the function)  ->  if c: A else: rest; return E
                    if (in_func and not st.orelse and st.body and isinstance(st.body[-1], ast.Return)
                            and st.body[-1].value is not None and k < len(b) - 1 and isinstance(b[-1], ast.Return)
                            and b[-1].value is not None and ast.dump(b[-1].value) == ast.dump(st.body[-1].value)
                            and not any(isinstance(n, ast.Return) for s_ in st.body[:-1] + b[k + 1:-1]
                                        for n in ast.walk(s_))):
                        rest = b[k + 1:-1]
                        st.body = st.body[:-1] or [ast.Pass()]
                        st.orelse = rest
                        b[k + 1:-1] = []
                        changed = True
                        self.log.append("guard:common-return")
                        continue
                    # statements after a terminator are dead
                    if st.body and isinstance(st.body[-1], TERMINATORS) and st.orelse:
                        b[k + 1:k + 1] = st.orelse
                        st.orelse = []
                        changed = True
                        self.log.append("guard:else-hoisted")
                        continue
                    if (not st.orelse and len(st.body) == 1
                            and ((in_loop and isinstance(st.body[0], ast.Continue))
                                 or (in_func and isinstance(st.body[0], ast.Return) and st.body[0].value is None))):
                        rest = b[k + 1:]
                        del b[k:]
                        if rest:
                            b.append(ast.If(neg(st.test), rest, []))
                        elif not b:
                            b.append(ast.Pass())
                        changed = True
                        self.log.append("guard:nested")
                        break
                    if st.orelse and (not st.body or all(isinstance(x, ast.Pass) for x in st.body)):
                        st.test, st.body, st.orelse = neg(st.test), st.orelse, []
                        changed = True
                        continue
                    if (st.orelse and isinstance(st.test, ast.UnaryOp) and isinstance(st.test.op, ast.Not)
                            and not (len(st.orelse) == 1 and isinstance(st.orelse[0], ast.If))
                            and not isinstance(st.orelse[-1], TERMINATORS)):
                        st.test, st.body, st.orelse = st.test.operand, st.orelse, st.body
                        changed = True
                        self.log.append("guard:inverted")
                        continue
                    k += 1

    # -- single-assignment locals
    def _alias(self, fn):
        params = set(params_of(fn))
        for _ in range(40):
            if not self._alias_once(fn, params):
                break

    def _alias_once(self, fn, params) -> bool:
        order = preorder(fn)
        stores: dict[str, list] = {}
        loads: dict[str, list] = {}
        for n in ast.walk(fn):
            if isinstance(n, ast.Name):
                (loads if isinstance(n.ctx, ast.Load) else stores).setdefault(n.id, []).append(n)
        other_bind = set()
        for n in ast.walk(fn):
            if n is fn:
                continue
            if isinstance(n, ast.arg):
                other_bind.add(n.arg)
            elif isinstance(n, (ast.Import, ast.ImportFrom)):
                other_bind |= {(a.asname or a.name).split(".")[0] for a in n.names}
            elif isinstance(n, ast.ExceptHandler) and n.name:
                other_bind.add(n.name)
            elif isinstance(n, (ast.Global, ast.Nonlocal)):
                other_bind |= set(n.names)
        for owner, f, b in blocks_of(fn):
            for k, st in enumerate(b):
                if not (isinstance(st, ast.Assign) and len(st.targets) == 1 and isinstance(st.targets[0], ast.Name)):
                    continue
                x = st.targets[0].id
                if x in params or x in other_bind or len(stores.get(x, [])) != 1:
                    continue
                uses = loads.get(x, [])
                if not uses:
                    continue
                rhs = st.value
                if not self._alias_rhs_ok(rhs) or any(isinstance(n, ast.Name) and n.id == x for n in ast.walk(rhs)):
                    continue
                lo, hi = last_index(st, order), last_index(b[-1], order)
                upos = sorted(order[id(u)] for u in uses)
                if upos[0] <= lo or upos[-1] > hi:
                    continue                                   # a use that the store does not dominate
                has_call = any(isinstance(n, (ast.Call, ast.Await)) for n in ast.walk(rhs))
                if has_call and len(uses) != 1:
                    continue
                # a use inside a nested scope / loop below the store would re-evaluate the rhs: only for call-free rhs
                if has_call and self._inside_repeat(b[k + 1:], uses[0]):
                    continue
                # a use inside a loop that starts after the store is reached again after everything else in that loop
                hi_use = upos[-1]
                for s2 in b[k + 1:]:
                    for n in ast.walk(s2):
                        if isinstance(n, (ast.For, ast.While)) and any(u is v for u in uses for v in ast.walk(n)):
                            hi_use = max(hi_use, last_index(n, order))
                if not self._undisturbed(fn, order, rhs, lo, hi_use, has_call, self.mutators):
                    continue
                del b[k]
                if not b:
                    b.append(ast.Pass())
                _Subst({x: rhs}).visit(fn)
                self.log.append(f"alias:{x}")
                return True
        return False

    @staticmethod
    def _alias_rhs_ok(e) -> bool:
        ok = (ast.Name, ast.Attribute, ast.Subscript, ast.Constant, ast.UnaryOp, ast.BinOp, ast.BoolOp, ast.Compare,
              ast.Call, ast.IfExp, ast.Tuple, ast.keyword, ast.Load, ast.operator, ast.unaryop, ast.boolop, ast.cmpop,
              ast.Slice)
        # no list / dict / set displays: each evaluation creates a NEW mutable object (identity matters); a call that
        # creates one is only ever moved, never duplicated (single use)
        return all(isinstance(n, ok) for n in ast.walk(e))

    @staticmethod
    def _inside_repeat(stmts, use) -> bool:
        for st in stmts:
            for n in ast.walk(st):
                if isinstance(n, (ast.For, ast.While, ast.Lambda, ast.ListComp, ast.SetComp, ast.DictComp,
                                  ast.GeneratorExp)):
                    if any(u is use for u in ast.walk(n)):
                        return True
        return False

    @staticmethod
    def _undisturbed(fn, order, rhs, lo, hi, has_call, mutators=()) -> bool:
        read = []
        for n in ast.walk(rhs):
            if isinstance(n, (ast.Name, ast.Attribute, ast.Subscript)):
                p = path_of(n)
                if p is not None:
                    read.append(p)
        read = set(read)
        # the target of an assignment is stored AFTER its value has been evaluated
        late = {}
        for n in ast.walk(fn):
            if isinstance(n, (ast.Assign, ast.AugAssign)):
                for t in (n.targets if isinstance(n, ast.Assign) else [n.target]):
                    for m in ast.walk(t):
                        late[id(m)] = last_index(n, order) + 0.5
        for n in ast.walk(fn):
            i = order.get(id(n))
            if i is None:
                continue
            if isinstance(n, (ast.Name, ast.Attribute, ast.Subscript)) and isinstance(n.ctx, (ast.Store, ast.Del)):
                i = late.get(id(n), i)
            if not (lo < i <= hi):
                continue
            sp = None
            if isinstance(n, (ast.Name, ast.Attribute, ast.Subscript)) and isinstance(n.ctx, (ast.Store, ast.Del)):
                sp = path_of(n)
                if sp is None:
                    return False
            if sp is not None:
                for p in read:
                    if is_prefix(sp, p) or (has_call and is_prefix(p, sp)):
                        return False
            if not has_call and isinstance(n, ast.Call) and isinstance(n.func, ast.Attribute) and \
                    (n.func.attr.startswith(("set_", "_set_")) or n.func.attr in mutators):
                # a mutator called on an owner of something the rhs reads (detector.set_readout(..) vs
                # detector.non_destructive_readout; self._set_steps() vs self._steps)
                rp_ = path_of(n.func.value)
                if rp_ is not None and any(is_prefix(rp_, p) and len(rp_) < len(p) for p in read):
                    return False
            if has_call and isinstance(n, ast.Call) and not ast.unparse(n.func).startswith(PURE_CALLS):
                # a call that completes between the store and the (single) use (a call the use is an argument /
                # the receiver of ends after the use)
                if last_index(n, order) < hi:
                    return False
        return True

    # -- `if ..: r = A  elif ..: r = B  else: raise` ; `T = r`   ->   the branches assign T
    def _sink(self, fn):
        for owner, f, b in list(blocks_of(fn)):
            for k in range(len(b) - 1):
                tree, cp = b[k], b[k + 1]
                if not (isinstance(tree, ast.If) and isinstance(cp, ast.Assign) and len(cp.targets) == 1
                        and isinstance(cp.value, ast.Name) and path_of(cp.targets[0]) is not None
                        and not isinstance(cp.targets[0], ast.Subscript)):
                    continue
                r = cp.value.id
                names = [n for n in ast.walk(fn) if isinstance(n, ast.Name) and n.id == r]
                loads = [n for n in names if isinstance(n.ctx, ast.Load)]
                if len(loads) != 1 or loads[0] is not cp.value or r in params_of(fn):
                    continue
                leaves = self._tail_stores(tree, r)
                if leaves is None or len(leaves) != len(names) - 1 or not leaves:
                    continue
                tp = path_of(cp.targets[0])
                # nothing in the tree may read or store the target (it is now assigned earlier: at the end of a branch,
                # after which nothing else of the tree runs -- so only the tests / earlier statements matter: none may
                # mention it at all)
                if any(isinstance(n, (ast.Name, ast.Attribute)) and path_of(n) is not None
                       and (is_prefix(tp, path_of(n)) or is_prefix(path_of(n), tp)) and not (len(path_of(n)) < len(tp))
                       for n in ast.walk(tree)):
                    continue
                for st in leaves:
                    st.targets = [copy.deepcopy(cp.targets[0])]
                del b[k + 1]
                self.log.append(f"sink:{r}")
                return self._sink(fn)

    def _tail_stores(self, st, r):
        """The statements `r = e` of an if-tree when each of them is the last statement of its branch and every branch
        ends with one or with a raise; None otherwise."""
        out = []
        for body in (st.body, st.orelse):
            if not body:
                return None
            last = body[-1]
            if isinstance(last, ast.Raise):
                pass
            elif isinstance(last, ast.If):
                sub = self._tail_stores(last, r)
                if sub is None:
                    return None
                out += sub
            elif (isinstance(last, ast.Assign) and len(last.targets) == 1 and isinstance(last.targets[0], ast.Name)
                  and last.targets[0].id == r):
                out.append(last)
            else:
                return None
        return out

    # -- manual counter -> enumerate
    def _enumerate(self, fn):
        for owner, f, b in list(blocks_of(fn)):
            for k, st in enumerate(b):
                if not (isinstance(st, ast.Assign) and len(st.targets) == 1 and isinstance(st.targets[0], ast.Name)
                        and isinstance(st.value, ast.Constant) and type(st.value.value) is int):
                    continue
                x, start = st.targets[0].id, st.value.value
                mention = lambda s_: any(isinstance(n, ast.Name) and n.id == x for n in ast.walk(s_))  # noqa: E731
                j = next((j for j in range(k + 1, len(b)) if mention(b[j])), None)
                if j is None or not isinstance(b[j], ast.For) or b[j].orelse:
                    continue
                loop = b[j]
                last = loop.body[-1] if loop.body else None
                inc = (isinstance(last, ast.AugAssign) and isinstance(last.op, ast.Add) and isinstance(last.target, ast.Name)
                       and last.target.id == x and isinstance(last.value, ast.Constant) and last.value.value == 1
                       and type(last.value.value) is int) or \
                      (isinstance(last, ast.Assign) and len(last.targets) == 1 and ast.unparse(last.targets[0]) == x
                       and ast.unparse(last.value) in (f"{x} + 1", f"1 + {x}"))
                if not inc or len(loop.body) < 2:
                    continue
                stores = [n for n in ast.walk(fn) if isinstance(n, ast.Name) and n.id == x
                          and not isinstance(n.ctx, ast.Load)]
                if len(stores) != 2:                       # the initialisation and the increment
                    continue
                if any(mention(s_) for s_ in b[j + 1:]) or any(mention(s_) for s_ in [loop.target, loop.iter]):
                    continue                               # after the loop the two spellings leave different values
                if any(isinstance(n, ast.Continue) for s_ in loop.body for n in ast.walk(s_)):
                    continue
                # the block must not itself be inside a loop (the counter would be re-initialised: fine) -- but x must not
                # be read before its initialisation in an enclosing loop: it has only these two stores, so any such read
                # would see the previous round's value; refuse if x is read before st in the function
                order = preorder(fn)
                if any(isinstance(n, ast.Name) and n.id == x and order[id(n)] < order[id(st)] for n in ast.walk(fn)):
                    continue
                loop.body = loop.body[:-1]
                it = ast.Call(ast.Name("enumerate", ast.Load()), [loop.iter],
                              [] if start == 0 else [ast.keyword("start", ast.Constant(start))])
                loop.target = ast.Tuple([ast.Name(x, ast.Store()), loop.target], ast.Store())
                loop.iter = it
                del b[k]
                self.log.append(f"enumerate:{x}")
                return self._enumerate(fn)

    # -- loops over constant tuples
    def _unroll(self, fn):
        for owner, f, b in list(blocks_of(fn)):
            for k, st in enumerate(b):
                if not (isinstance(st, ast.For) and isinstance(st.target, ast.Name) and not st.orelse
                        and isinstance(st.iter, (ast.Tuple, ast.List)) and len(st.iter.elts) <= 16
                        and all(self._is_literal(e) or is_simple(e) for e in st.iter.elts)):
                    continue
                x = st.target.id
                inner = [n for s in st.body for n in ast.walk(s)]
                # elements that are not literals are READ when the tuple is built; reading them one by one instead is
                # the same as long as the body stores to none of them (attribute reads are taken to be effect-free)
                elt_paths = [path_of(e) for e in st.iter.elts if not self._is_literal(e)]
                if any(p is None for p in elt_paths):
                    continue
                if any(isinstance(n, (ast.Name, ast.Attribute, ast.Subscript)) and isinstance(n.ctx, (ast.Store, ast.Del))
                       and (path_of(n) is None or any(is_prefix(path_of(n), p) for p in elt_paths)) for n in inner):
                    continue
                if any(isinstance(n, (ast.Break, ast.Continue)) for n in inner):
                    continue
                if any(isinstance(n, ast.Name) and n.id == x and not isinstance(n.ctx, ast.Load) for n in inner):
                    continue
                # the loop variable must not be read after the loop
                order = preorder(fn)
                end = last_index(st, order)
                if any(isinstance(n, ast.Name) and n.id == x and order[id(n)] > end for n in ast.walk(fn)):
                    continue
                new = []
                for e in st.iter.elts:
                    for s in st.body:
                        new.append(_Subst({x: e}).visit(copy.deepcopy(s)))
                b[k:k + 1] = new or [ast.Pass()]
                self.log.append(f"unroll:{x}")
                return self._unroll(fn)

    # -- constant folding
    def _fold(self, fn):
        _Fold().visit(fn)
        # if <constant>
        changed = True
        while changed:
            changed = False
            for owner, f, b in list(blocks_of(fn)):
                for k, st in enumerate(b):
                    if isinstance(st, ast.If):
                        st.test = _test(st.test)
                        if isinstance(st.test, ast.Constant) and isinstance(st.test.value, bool):
                            b[k:k + 1] = (st.body if st.test.value else st.orelse) or []
                            if not b:
                                b.append(ast.Pass())
                            changed = True
                            break
                    elif isinstance(st, ast.While):
                        st.test = _test(st.test)
        self._strip(fn)

    # -- chained comparisons
    def _compare(self, fn):
        class T(ast.NodeTransformer):
            def visit_Compare(s, n):
                s.generic_visit(n)
                if len(n.ops) > 1 and all(is_simple(c) for c in n.comparators[:-1]):
                    parts, left = [], n.left
                    for op, c in zip(n.ops, n.comparators):
                        parts.append(ast.Compare(copy.deepcopy(left), [op], [c]))
                        left = c
                    return ast.BoolOp(ast.And(), parts)
                return n
        T().visit(fn)

    # -- match statements
    def _match(self, fn):
        for owner, f, b in list(blocks_of(fn)):
            for k, st in enumerate(b):
                if not isinstance(st, ast.Match) or not is_simple(st.subject):
                    continue
                chain, ok = [], True
                for c in st.cases:
                    if c.guard is not None:
                        ok = False
                        break
                    t = self._pattern_test(st.subject, c.pattern)
                    if t is None:
                        ok = False
                        break
                    chain.append((t, c.body))
                if not ok or not chain:
                    continue
                if any(t is True for t, _ in chain[:-1]):
                    continue
                node = None
                for t, body in reversed(chain):
                    if t is True:
                        node = list(body)
                    else:
                        node = [ast.If(t, list(body), node or [])]
                b[k:k + 1] = node
                self.log.append("match")

    def _pattern_test(self, subj, p):
        if isinstance(p, ast.MatchAs) and p.pattern is None and p.name is None:
            return True
        if isinstance(p, ast.MatchValue) and (self._is_literal(p.value) or isinstance(p.value, ast.Attribute)):
            return ast.Compare(copy.deepcopy(subj), [ast.Eq()], [p.value])
        if isinstance(p, ast.MatchSingleton):
            return ast.Compare(copy.deepcopy(subj), [ast.Is()], [ast.Constant(p.value)])
        if isinstance(p, ast.MatchOr):
            ts = [self._pattern_test(subj, q) for q in p.patterns]
            if any(t is None or t is True for t in ts):
                return None
            return ast.BoolOp(ast.Or(), ts)
        return None


def _test(e: ast.expr) -> ast.expr:
    """Simplify an expression used for its truth value only."""
    if isinstance(e, ast.UnaryOp) and isinstance(e.op, ast.Not):
        inner = _test(e.operand)
        if isinstance(inner, ast.UnaryOp) and isinstance(inner.op, ast.Not):
            return _test(inner.operand)
        if isinstance(inner, ast.Constant) and isinstance(inner.value, bool):
            return ast.Constant(not inner.value)
        return ast.UnaryOp(ast.Not(), inner)
    if isinstance(e, ast.Call) and isinstance(e.func, ast.Name) and e.func.id == "bool" and len(e.args) == 1 \
            and not e.keywords:
        return _test(e.args[0])
    if isinstance(e, ast.BoolOp):
        vals = [_test(v) for v in e.values]
        return _boolop(e.op, vals)
    return e


def _boolop(op, vals):
    is_and = isinstance(op, ast.And)
    out = []
    for v in vals:
        if isinstance(v, ast.Constant) and isinstance(v.value, bool):
            if v.value == is_and:
                continue                     # neutral element
            out.append(v)                    # absorbing element: nothing after it is evaluated
            break
        out.append(v)
    if not out:
        return ast.Constant(is_and)
    if len(out) == 1:
        return out[0]
    return ast.BoolOp(op, out)


class _Fold(ast.NodeTransformer):
    def visit_Compare(self, n):
        self.generic_visit(n)
        if len(n.ops) == 1 and isinstance(n.left, ast.Constant):
            r, op = n.comparators[0], n.ops[0]
            a = n.left.value
            if isinstance(r, ast.Constant):
                bv = r.value
                if type(a) is type(bv) and isinstance(a, (str, int, bool, type(None))):
                    if isinstance(op, (ast.Eq, ast.Is)):
                        return ast.Constant(a == bv)
                    if isinstance(op, (ast.NotEq, ast.IsNot)):
                        return ast.Constant(a != bv)
            if isinstance(r, ast.Tuple) and all(isinstance(e, ast.Constant) for e in r.elts) and \
                    isinstance(a, (str, int)) and all(type(e.value) is type(a) for e in r.elts):
                if isinstance(op, ast.In):
                    return ast.Constant(a in [e.value for e in r.elts])
                if isinstance(op, ast.NotIn):
                    return ast.Constant(a not in [e.value for e in r.elts])
        return n

    def visit_BoolOp(self, n):
        self.generic_visit(n)
        # value semantics: only bool constants are folded, and only where the result is unchanged as a VALUE:
        # a leading neutral element before further operands, or an absorbing first operand
        vals = list(n.values)
        is_and = isinstance(n.op, ast.And)
        while len(vals) > 1 and isinstance(vals[0], ast.Constant) and isinstance(vals[0].value, bool) \
                and vals[0].value == is_and:
            vals = vals[1:]
        if isinstance(vals[0], ast.Constant) and isinstance(vals[0].value, bool) and vals[0].value != is_and:
            return vals[0]
        return vals[0] if len(vals) == 1 else ast.BoolOp(n.op, vals)

    def visit_UnaryOp(self, n):
        self.generic_visit(n)
        if isinstance(n.op, ast.Not):
            t = _test(n.operand)
            if isinstance(t, ast.Constant) and isinstance(t.value, bool):
                return ast.Constant(not t.value)
            if isinstance(t, ast.UnaryOp) and isinstance(t.op, ast.Not):
                # not not c  -> bool(c) as a value; callers in test position strip the bool()
                return ast.Call(ast.Name("bool", ast.Load()), [t.operand], [])
            return ast.UnaryOp(ast.Not(), t)
        return n

    def visit_IfExp(self, n):
        self.generic_visit(n)
        n.test = _test(n.test)
        if isinstance(n.test, ast.Constant) and isinstance(n.test.value, bool):
            return n.body if n.test.value else n.orelse
        if all(isinstance(x, ast.Constant) and isinstance(x.value, bool) for x in (n.body, n.orelse)):
            a, b = n.body.value, n.orelse.value
            if (a, b) == (False, True):
                return ast.UnaryOp(ast.Not(), n.test)
            if (a, b) == (True, False):
                return ast.Call(ast.Name("bool", ast.Load()), [n.test], [])
            return ast.Constant(a) if is_simple(n.test) else n
        return n

    def visit_Call(self, n):
        self.generic_visit(n)
        if (isinstance(n.func, ast.Name) and n.func.id == "getattr" and len(n.args) == 2 and not n.keywords
                and isinstance(n.args[1], ast.Constant) and isinstance(n.args[1].value, str)
                and n.args[1].value.isidentifier()):
            return ast.Attribute(n.args[0], n.args[1].value, ast.Load())
        return n


class Abbreviate(ast.NodeTransformer):
    """Replace an attribute path by a plain name (`processor.detector` -> `detector`): the recognisers' vocabulary."""

    def __init__(self, mapping: dict):
        self.m = mapping

    def visit_Attribute(self, n):
        t = ast.unparse(n)
        if t in self.m and isinstance(n.ctx, ast.Load):
            return ast.Name(self.m[t], ast.Load())
        self.generic_visit(n)
        return n


def normalise(module: ast.Module, fn: ast.FunctionDef, cls: ast.ClassDef | None = None, keep=(), abbreviate=None,
              repo=None, mutators=()):
    nz = Normaliser(module, cls, set(keep), repo=repo, mutators=mutators)
    out = nz.function(fn)
    if abbreviate:
        out = Abbreviate(abbreviate).visit(out)
        ast.fix_missing_locations(out)
    return out, nz.log


# ------------------------------------------------------------------------------------------------ self-test
# Differential test of the normaliser itself: each sample function is executed in its original and in its normal form
# on the same inputs; results, exceptions and the trace of side effects must be identical.  `expect` names a rewrite
# that must (or, with a leading '!', must NOT) have been applied -- the side conditions are part of the contract.

_SAMPLES = r'''
LIMITS = (1, 5)
NAMES = ("a", "b", "c")
SKIP = "b"
GREETING = "hello"

def _chk(first, start=0.0):
    if first == 0:
        raise ValueError("zero")
    if not start < first:
        raise ValueError("start")

def _twice(v):
    return v + v

def _pick(box, v):
    if v is None:
        raise ValueError("none")
    if v == 0:
        box["zero"] = 1
        return "zero"
    elif v < 0:
        return "neg"
    box["pos"] = v
    return v * 2

def _uses_global(log):
    log.append(GREETING)

def _fill(box, key, val):
    box[key] = val
    return len(box)

class Box:
    def __init__(self):
        self.items = {}
        self.log = []
        self.a = self.b = self.c = 1
    def _reset_items(self):
        self.items = {"fresh": 1}
    def _set_items(self, v):
        self.items = v
    def is_empty(self):
        return bool(not self.items)

    def s_helper(self, xs, start):                     # expect: inline:_chk
        _chk(first=xs[0], start=start)
        return "ok"
    def s_helper_dropped(self, xs, start):              # expect: inline:_chk
        _chk(xs[0])
        return "ok"
    def s_elif(self, x):                                # expect: guard:else-hoisted
        if x < 0:
            raise ValueError("neg")
        elif x == 0:
            raise KeyError("zero")
        else:
            y = x + 1
        return y
    def s_alias(self, v):                               # expect: alias:cur
        cur = self.items
        cur["k"] = v
        return self.items
    def s_alias_rebound(self, v):                       # expect: !alias:cur
        cur = self.items
        self.items = {}
        cur["k"] = v
        return (cur, self.items)
    def s_alias_mutator(self, v):                       # expect: !alias:cur
        cur = self.items
        self._set_items({"z": v})
        return (cur, self.items)
    def s_alias_call_moved(self, v):                    # expect: !alias:n
        n = len(self.items)
        self.items[v] = v
        return n
    def s_alias_loop(self, vs):                         # expect: !alias:n
        n = self.is_empty()
        out = []
        for v in vs:
            out.append(n)
            self.items[v] = 1
        return out
    def s_named(self, v):                               # expect: alias:has
        has = not self.is_empty()
        if has:
            self.items = {}
        self.log.append(v)
        return self.items
    def s_continue(self, vs):                           # expect: guard:nested
        out = []
        for v in vs:
            if v == 2:
                continue
            out.append(v)
        return out
    def s_unroll(self, reset):                          # expect: unroll:name
        for name in NAMES:
            if name == SKIP and not reset:
                continue
            setattr(self, name, 0)
            self.log.append(getattr(self, name))
        return (self.a, self.b, self.c, self.log)
    def s_chain(self, x):                               # expect: consts:LIMITS
        return LIMITS[0] <= x <= LIMITS[1]
    def s_chain2(self, x, y):
        return 0 < x < y <= 9
    def s_ifexp(self, x):                               # expect: ifexp
        if x:
            flag = False
        else:
            flag = True
        return flag
    def s_inverted(self, x):                            # expect: guard:inverted
        if not x:
            self.log.append("no")
        else:
            self.log.append("yes")
            self.items[x] = 1
        return self.log
    def s_fresh_object(self, vs):                       # expect: !alias:out
        out = []
        for v in vs:
            out.append(v)
        acc = {}
        acc[1] = out
        return (out, acc)
    def s_counter(self, vs):                            # expect: enumerate:i
        i = 0
        for v in vs:
            self.log.append((i, v))
            i += 1
        return self.log
    def s_counter_read_after(self, vs):                 # expect: !enumerate:i
        i = 0
        for v in vs:
            self.log.append((i, v))
            i += 1
        return i
    def s_match(self, x):                               # expect: match
        match x:
            case 1 | 2:
                r = "small"
            case "big":
                r = "big"
            case _:
                r = "other"
        return r
    def s_early_return(self, reset):                    # expect: guard:nested
        self.log.append("always")
        if not reset:
            return
        self.log.append("reset")
    def s_value_helper(self, v):                        # expect: inline:_fill
        n = _fill(self.items, "k", v)
        return (n, self.items)
    def s_tail_helper(self, v):                         # expect: inline:_pick
        r = _pick(self.items, v)
        return (r, self.items)
    def s_common_return(self, v):                       # expect: guard:common-return
        if not v:
            return self.items
        self.items = {"v": v}
        return self.items
    def s_sink(self, v):                                # expect: sink:r
        if v is None:
            raise ValueError("none")
        elif v:
            self.log.append("t")
            r = [v]
        else:
            r = []
        self.items = r
        return (self.items, self.log)
    def s_tuple_loop(self):                             # expect: unroll:o
        for o in (self.items, self.log):
            o.clear()
        return (self.items, self.log)
    def s_shadowed_global(self, v):                     # expect: !inline:_uses_global
        GREETING = (v, v)
        _uses_global(self.log)
        return (GREETING, self.log)
    def s_expr_helper(self, v):                         # expect: inline-expr:_twice
        return _twice(v) + 1
    def s_method_helper(self):                          # expect: inline:_reset_items
        self._reset_items()
        return self.items
    def s_boolfold(self, x):
        return (True and x, x and False, False or x, not not x)
'''

_INPUTS = {
    "s_helper": [([1.0], 0.0), ([0.0], -1.0), ([1.0], 2.0), ([float("nan")], 0.0), ([], 0.0)],
    "s_helper_dropped": [([1.0], 0.0), ([-1.0], -2.0), ([0], 1)],
    "s_elif": [(-1,), (0,), (3,)], "s_alias": [(1,)], "s_alias_rebound": [(1,)], "s_alias_mutator": [(1,)],
    "s_alias_call_moved": [(1,)], "s_alias_loop": [([1, 2],)], "s_named": [(1,)], "s_continue": [([1, 2, 3],)],
    "s_unroll": [(True,), (False,), (0,), ("x",)], "s_chain": [(0,), (1,), (5,), (6,)],
    "s_chain2": [(1, 2), (0, 2), (3, 2), (3, 10)], "s_ifexp": [(0,), (1,), ("",), ([1],)],
    "s_inverted": [(0,), (1,)], "s_counter": [([],), ([5, 6],)], "s_counter_read_after": [([],), ([5, 6],)], "s_fresh_object": [([1, 2],)], "s_match": [(1,), (2,), ("big",), (None,)], "s_early_return": [(True,), (False,)],
    "s_value_helper": [(7,)], "s_tail_helper": [(None,), (0,), (-1,), (4,)], "s_tuple_loop": [()], "s_shadowed_global": [(3,)], "s_common_return": [(0,), (2,)], "s_sink": [(None,), (0,), (3,)], "s_expr_helper": [(2,), ("a",)], "s_method_helper": [()],
    "s_boolfold": [(0,), (1,), ("",), ([],)],
}


def selftest() -> dict:
    """Returns dict(functions=.., runs=.., failures=[..])."""
    import re
    mod = ast.parse(_SAMPLES)
    cls = [n for n in mod.body if isinstance(n, ast.ClassDef)][0]
    expects = dict(re.findall(r"def (s_\w+)\(.*# expect: (\S+)", _SAMPLES))
    new_cls = copy.deepcopy(cls)
    failures, logs = [], {}
    for k, fn in enumerate(cls.body):
        if isinstance(fn, ast.FunctionDef) and fn.name.startswith("s_"):
            nz = Normaliser(mod, cls)
            new_cls.body[k] = nz.function(fn)
            logs[fn.name] = nz.log
            e = expects.get(fn.name)
            if e and ((e.startswith("!") and e[1:] in nz.log) or (not e.startswith("!") and e not in nz.log)):
                failures.append(f"{fn.name}: expected {e}, applied {nz.log}")
    new_mod = ast.Module(body=[new_cls if n is cls else n for n in mod.body], type_ignores=[])
    ast.fix_missing_locations(new_mod)
    envs = []
    for m in (mod, new_mod):
        env: dict = {}
        exec(compile(m, "<c02_norm selftest>", "exec"), env)
        envs.append(env)
    runs = 0
    for name, inputs in _INPUTS.items():
        for args in inputs:
            outs = []
            for env in envs:
                box = env["Box"]()
                try:
                    r = ("ok", repr(getattr(box, name)(*copy.deepcopy(args))))
                except Exception as ex:      # noqa: BLE001
                    r = ("exc", type(ex).__name__, str(ex))
                outs.append((r, repr(box.items), repr(box.log), box.a, box.b, box.c))
            runs += 1
            if outs[0] != outs[1]:
                failures.append(f"{name}{args}: original {outs[0]} normal form {outs[1]}")
    return dict(functions=len(logs), runs=runs, failures=failures, applied=logs)


if __name__ == "__main__":
    import json
    r = selftest()
    print(json.dumps({k: v for k, v in r.items() if k != "applied"}, indent=1))
    for k, v in r["applied"].items():
        print(f"  {k}: {v}")
