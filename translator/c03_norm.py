"""General, behaviour-preserving normalisations of python ast, applied by translator/c03.py BEFORE any table is read.

The translator stays fail-closed: it accepts one canonical shape per site.  This module maps the syntactic variants
that are equivalent BY CONSTRUCTION onto that shape, so that a harmless rewrite of the anchored code gives the same
table (and a rewrite that is not one of these equivalences still fails closed or gives a different table):

* `inline_calls`   a call of a private helper (module-level function `_f(..)` or method `self._m(..)` of the same
                   class) standing as a statement, as the value of an assignment or of a `return` is replaced by the
                   helper's body (parameters bound to the arguments, the helper's own locals renamed apart, its early
                   returns turned into if/else); a private function whose body is `return <expr>` handed over as a
                   function object becomes the equivalent `lambda`.
* `elseify`        guard clauses: `if c: <..exit>` followed by REST  ==  `if c: <..exit> else: REST` (exit = return /
                   continue / break / raise); trailing bare `return` / `continue` are dropped.
* `simplify_ifs`   tests in canonical form (`not` pushed inward: `not a == b` -> `a != b`, `not (a and b)` ->
                   `not a or not b` (same evaluation order), `a <= x <= b` -> `a <= x and x <= b` for a pure `x`);
                   empty branch / negative test with an else branch -> branches swapped; `if a: if b: S` -> `if a and b: S`;
                   if/else assignment of one name == conditional expression (test in positive form).
* `subst_aliases`  a local name bound once to a stable expression (a name, an attribute chain, a constant) is replaced
                   by that expression where nothing in between can rebind the chain; a boolean bound once and used once
                   as the first operand of the test of the very next `if` is replaced by its expression.
* `execute`        a decision tree (nested if / elif / else over opaque atoms) is not compared by shape at all: it is RUN
                   for every valuation of its atoms, with python's short-circuit order, and the translator reads which
                   statements are executed.
* `expand_fstring` f-strings composed from single-assignment names bound to f-strings / stable expressions are flattened.

Nothing here reads message texts, comments, docstrings, annotations or logging calls.
"""
from __future__ import annotations

import ast
import copy

from .common import fail

EXITS = (ast.Return, ast.Continue, ast.Break, ast.Raise)
NEG = {ast.Eq: ast.NotEq, ast.NotEq: ast.Eq, ast.Is: ast.IsNot, ast.IsNot: ast.Is, ast.In: ast.NotIn, ast.NotIn: ast.In}
NEGATIVE_OPS = (ast.NotEq, ast.IsNot, ast.NotIn)


# ------------------------------------------------------------------------------------------ small predicates


def is_doc(st: ast.stmt) -> bool:
    return isinstance(st, ast.Expr) and isinstance(st.value, ast.Constant)


def is_noise(st: ast.stmt) -> bool:
    """Statements without effect on any table: docstrings / bare constants, `pass`, imports, bare annotations, logging."""
    if is_doc(st) or isinstance(st, (ast.Pass, ast.Import, ast.ImportFrom)):
        return True
    if isinstance(st, ast.AnnAssign) and st.value is None:
        return True
    if isinstance(st, ast.Expr) and isinstance(st.value, ast.Call):
        f = ast.unparse(st.value.func)
        if f.startswith(("logging.", "self._log.", "logger.", "log.", "warnings.warn")):
            return True
    return False


def stable(e: ast.AST) -> bool:
    """A name, an attribute chain on a name, or a constant: reading it twice gives the same object unless rebound."""
    if isinstance(e, ast.Constant):
        return True
    while isinstance(e, ast.Attribute):
        e = e.value
    return isinstance(e, ast.Name)


def terminates(stmts: list) -> bool:
    if not stmts:
        return False
    s = stmts[-1]
    if isinstance(s, EXITS):
        return True
    if isinstance(s, ast.If):
        return terminates(s.body) and terminates(s.orelse)
    return False


def only_raises(stmts: list) -> bool:
    real = [s for s in stmts if not is_noise(s)]
    return bool(real) and all(isinstance(s, ast.Raise) for s in real)


# ------------------------------------------------------------------------------------------ tests


def negate(e: ast.AST) -> ast.AST:
    if isinstance(e, ast.UnaryOp) and isinstance(e.op, ast.Not):
        return canon_test(e.operand)
    if isinstance(e, ast.Compare) and len(e.ops) == 1 and type(e.ops[0]) in NEG:
        return ast.Compare(left=e.left, ops=[NEG[type(e.ops[0])]()], comparators=e.comparators)
    if isinstance(e, ast.BoolOp):
        # De Morgan keeps the order of evaluation and the short circuit
        return _flat(ast.BoolOp(op=ast.Or() if isinstance(e.op, ast.And) else ast.And(), values=[negate(v) for v in e.values]))
    if isinstance(e, ast.Constant) and isinstance(e.value, bool):
        return ast.Constant(value=not e.value)
    return ast.UnaryOp(op=ast.Not(), operand=canon_test(e))


def _flat(b: ast.BoolOp) -> ast.BoolOp:
    vals = []
    for v in b.values:
        if isinstance(v, ast.BoolOp) and type(v.op) is type(b.op):
            vals.extend(v.values)
        else:
            vals.append(v)
    b.values = vals
    return b


def canon_test(e: ast.AST) -> ast.AST:
    """Canonical form of an expression in TEST position (only its truth value matters)."""
    if isinstance(e, ast.UnaryOp) and isinstance(e.op, ast.Not):
        return negate(e.operand)
    if isinstance(e, ast.BoolOp):
        return _flat(ast.BoolOp(op=e.op, values=[canon_test(v) for v in e.values]))
    if isinstance(e, ast.Compare) and len(e.ops) > 1 and all(stable(c) for c in e.comparators[:-1]):
        # a <= x <= b  ==  a <= x and x <= b   (x is read twice: only for a stable x)
        parts, left = [], e.left
        for op, right in zip(e.ops, e.comparators):
            parts.append(ast.Compare(left=left, ops=[op], comparators=[right]))
            left = right
        return ast.BoolOp(op=ast.And(), values=parts)
    if isinstance(e, ast.Call) and isinstance(e.func, ast.Name) and e.func.id == "bool" and len(e.args) == 1 and not e.keywords:
        return canon_test(e.args[0])
    return e


# ------------------------------------------------------------------------------------------ statement lists


def _map_bodies(st: ast.stmt, f) -> ast.stmt:
    """Apply f to every nested statement list of a compound statement (not to nested function / class definitions)."""
    if isinstance(st, (ast.FunctionDef, ast.AsyncFunctionDef, ast.ClassDef)):
        return st
    for field in ("body", "orelse", "finalbody"):
        v = getattr(st, field, None)
        if isinstance(v, list) and (not v or isinstance(v[0], ast.stmt)):
            setattr(st, field, f(v, st, field))
    for h in getattr(st, "handlers", []) or []:
        h.body = f(h.body, h, "body")
    for c in getattr(st, "cases", []) or []:
        c.body = f(c.body, c, "body")
    return st


def elseify(stmts: list) -> list:
    """`if c: ..exit` + REST -> `if c: ..exit else: REST` (and the mirror image), recursively."""
    out = []
    for i, st in enumerate(stmts):
        st = _map_bodies(st, lambda b, _p, _f: elseify(b))
        rest = stmts[i + 1:]
        if isinstance(st, ast.If) and rest:
            if terminates(st.body) and not terminates(st.orelse):
                st.orelse = elseify(st.orelse + rest)
                out.append(st)
                return out
            if terminates(st.orelse) and not terminates(st.body):
                st.body = elseify(st.body + rest)
                out.append(st)
                return out
        out.append(st)
    return out


def drop_tail(stmts: list, kind) -> list:
    """Remove a bare `return` (kind=ast.Return) / `continue` (kind=ast.Continue) in tail position."""
    if not stmts:
        return stmts
    last = stmts[-1]
    if isinstance(last, kind) and (not isinstance(last, ast.Return) or last.value is None
                                   or (isinstance(last.value, ast.Constant) and last.value.value is None)):
        return stmts[:-1]
    if isinstance(last, ast.If):
        last.body = drop_tail(last.body, kind)
        last.orelse = drop_tail(last.orelse, kind)
    return stmts


def _drop_loop_tails(stmts: list) -> list:
    for st in stmts:
        _map_bodies(st, lambda b, _p, _f: _drop_loop_tails(b))
        if isinstance(st, (ast.For, ast.While)):
            st.body = drop_tail(st.body, ast.Continue)
    return stmts


def _match_to_if(st: ast.Match) -> ast.stmt | None:
    """`match s: case <literal | dotted name | a | b>: ..  case _: ..`  ==  if / elif on `==` for a stable subject."""
    if not stable(st.subject):
        return None
    chain = []
    default = None
    for c in st.cases:
        if c.guard is not None:
            return None
        pats = c.pattern.patterns if isinstance(c.pattern, ast.MatchOr) else [c.pattern]
        if len(pats) == 1 and isinstance(pats[0], ast.MatchAs) and pats[0].pattern is None and pats[0].name is None:
            default = c.body
            break
        tests = []
        for p in pats:
            if isinstance(p, ast.MatchValue):
                tests.append(ast.Compare(left=st.subject, ops=[ast.Eq()], comparators=[p.value]))
            elif isinstance(p, ast.MatchSingleton):
                tests.append(ast.Compare(left=st.subject, ops=[ast.Is()], comparators=[ast.Constant(value=p.value)]))
            else:
                return None
        chain.append((tests[0] if len(tests) == 1 else ast.BoolOp(op=ast.Or(), values=tests), c.body))
    if not chain:
        return None
    node = default or []
    for test, body in reversed(chain):
        node = [ast.If(test=test, body=body, orelse=node)]
    return node[0]


def matches_to_ifs(stmts: list) -> list:
    out = []
    for st in stmts:
        if isinstance(st, ast.Match):
            st = _match_to_if(st) or st
        out.append(_map_bodies(st, lambda b, _p, _f: matches_to_ifs(b)))
    return out


def simplify_ifs(stmts: list) -> list:
    out = []
    for st in stmts:
        st = _map_bodies(st, lambda b, _p, _f: simplify_ifs(b))
        # if c: x = a else: x = b   ==   x = a if c else b   (kept as ONE assignment of x)
        if isinstance(st, ast.If) and len(st.body) == 1 and len(st.orelse) == 1:
            a, b = st.body[0], st.orelse[0]
            ta = a.targets[0] if isinstance(a, ast.Assign) and len(a.targets) == 1 else getattr(a, "target", None) if isinstance(a, ast.AnnAssign) else None
            tb = b.targets[0] if isinstance(b, ast.Assign) and len(b.targets) == 1 else getattr(b, "target", None) if isinstance(b, ast.AnnAssign) else None
            if isinstance(ta, ast.Name) and isinstance(tb, ast.Name) and ta.id == tb.id and a.value is not None and b.value is not None:
                t = canon_test(st.test)
                x, y = a.value, b.value
                if (isinstance(t, ast.UnaryOp) and isinstance(t.op, ast.Not)) or (
                        isinstance(t, ast.Compare) and len(t.ops) == 1 and isinstance(t.ops[0], NEGATIVE_OPS)):
                    t, x, y = negate(t), y, x
                st = ast.Assign(targets=[ta], value=ast.IfExp(test=t, body=x, orelse=y))
        if isinstance(st, (ast.Assign, ast.AnnAssign)) and isinstance(st.value, ast.IfExp):
            e = st.value
            t = canon_test(e.test)
            if (isinstance(t, ast.UnaryOp) and isinstance(t.op, ast.Not)) or (
                    isinstance(t, ast.Compare) and len(t.ops) == 1 and isinstance(t.ops[0], NEGATIVE_OPS)):
                e.test, e.body, e.orelse = negate(t), e.orelse, e.body
            else:
                e.test = t
        if isinstance(st, ast.While):
            st.test = canon_test(st.test)
        if isinstance(st, ast.If):
            st.test = canon_test(st.test)
            body = [s for s in st.body if not isinstance(s, ast.Pass)]
            orelse = [s for s in st.orelse if not isinstance(s, ast.Pass)]
            if not body and not orelse:
                out.append(ast.Expr(value=st.test))
                continue
            if not body:
                st.test, body, orelse = negate(st.test), orelse, []
            elif orelse and not only_raises(orelse) and (
                    (isinstance(st.test, ast.UnaryOp) and isinstance(st.test.op, ast.Not))
                    or (isinstance(st.test, ast.Compare) and len(st.test.ops) == 1 and isinstance(st.test.ops[0], NEGATIVE_OPS))
                    or only_raises(body)):
                st.test, body, orelse = negate(st.test), orelse, body
            st.body, st.orelse = body, orelse
            if not st.orelse and len(st.body) == 1 and isinstance(st.body[0], ast.If) and not st.body[0].orelse:
                inner = st.body[0]
                st.test = _flat(ast.BoolOp(op=ast.And(), values=[st.test, inner.test]))
                st.body = inner.body
        out.append(st)
    return out


# ------------------------------------------------------------------------------------------ names


def bindings(fn: ast.AST) -> dict:
    """name -> number of binding occurrences in fn (assignment, aug-assignment, loop / with / except / import targets)."""
    n: dict = {}
    for node in ast.walk(fn):
        if isinstance(node, ast.Name) and isinstance(node.ctx, (ast.Store, ast.Del)):
            n[node.id] = n.get(node.id, 0) + 1
        elif isinstance(node, (ast.Import, ast.ImportFrom)):
            for a in node.names:
                k = (a.asname or a.name).split(".")[0]
                n[k] = n.get(k, 0) + 1
        elif isinstance(node, ast.ExceptHandler) and node.name:
            n[node.name] = n.get(node.name, 0) + 1
        elif isinstance(node, ast.arg):
            n[node.arg] = n.get(node.arg, 0) + 1
        elif isinstance(node, (ast.Global, ast.Nonlocal)):
            for k in node.names:
                n[k] = n.get(k, 0) + 2
    return n


def _chain(e: ast.AST):
    """('root', ['a', 'b']) of root.a.b with leading underscores dropped (a property usually reads `_<name>`)."""
    parts = []
    while isinstance(e, ast.Attribute):
        parts.append(e.attr.lstrip("_"))
        e = e.value
    if isinstance(e, ast.Name):
        return e.id, parts[::-1]
    return None


def _may_rebind(stmts: list, value: ast.AST) -> bool:
    """Can executing `stmts` change what the stable expression `value` evaluates to (by syntax: an assignment / deletion
    of its root name or of a prefix of its attribute chain)?  In-place mutation of the object is not a rebinding."""
    ch = _chain(value)
    if ch is None:
        return False
    root, parts = ch
    for st in stmts:
        for node in ast.walk(st):
            if isinstance(node, ast.Name) and node.id == root and isinstance(node.ctx, (ast.Store, ast.Del)):
                return True
            if isinstance(node, ast.Attribute) and isinstance(node.ctx, (ast.Store, ast.Del)):
                c2 = _chain(node)
                if c2 and c2[0] == root and c2[1] == parts[:len(c2[1])]:
                    return True
            if isinstance(node, ast.Call) and parts:
                # setattr(root..., "attr", v)
                if isinstance(node.func, ast.Name) and node.func.id in ("setattr", "delattr"):
                    return True
                # a method called on the root or on a prefix of the chain (root.reset(), root.a.clear()) may rebind the rest
                if isinstance(node.func, ast.Attribute):
                    c2 = _chain(node.func.value)
                    if c2 and c2[0] == root and len(c2[1]) < len(parts) and c2[1] == parts[:len(c2[1])]:
                        return True
    return False


class _Subst(ast.NodeTransformer):
    def __init__(self, name, value):
        self.name, self.value, self.count = name, value, 0

    def visit_Name(self, node):
        if node.id == self.name and isinstance(node.ctx, ast.Load):
            self.count += 1
            return copy.deepcopy(self.value)
        return node


def _uses(stmts, name) -> int:
    return sum(1 for st in stmts for n in ast.walk(st) if isinstance(n, ast.Name) and n.id == name and isinstance(n.ctx, ast.Load))


def _leftmost_is(test: ast.AST, name: str) -> bool:
    while True:
        if isinstance(test, ast.UnaryOp) and isinstance(test.op, ast.Not):
            test = test.operand
        elif isinstance(test, ast.BoolOp):
            test = test.values[0]
        else:
            return isinstance(test, ast.Name) and test.id == name


def subst_aliases(fn: ast.FunctionDef) -> None:
    """In place.  See the module docstring."""
    total_uses = {}
    for n in ast.walk(fn):
        if isinstance(n, ast.Name) and isinstance(n.ctx, ast.Load):
            total_uses[n.id] = total_uses.get(n.id, 0) + 1
    nb = bindings(fn)

    def do(stmts, _parent=None, _field=None):
        i = 0
        while i < len(stmts):
            st = stmts[i]
            tgt = val = None
            if isinstance(st, ast.Assign) and len(st.targets) == 1 and isinstance(st.targets[0], ast.Name):
                tgt, val = st.targets[0].id, st.value
            elif isinstance(st, ast.AnnAssign) and isinstance(st.target, ast.Name) and st.value is not None:
                tgt, val = st.target.id, st.value
            rest = stmts[i + 1:]
            if tgt is not None and nb.get(tgt, 0) == 1 and _uses(rest, tgt) == total_uses.get(tgt, 0) and _uses([val], tgt) == 0:
                if stable(val) and not isinstance(val, ast.Constant) and not _may_rebind(rest, val):
                    s = _Subst(tgt, val)
                    for k in range(len(rest)):
                        rest[k] = s.visit(rest[k])
                    stmts[i + 1:] = rest
                    del stmts[i]
                    continue
                if (total_uses.get(tgt, 0) == 1 and rest and isinstance(rest[0], ast.If) and _uses([rest[0].test], tgt) == 1
                        and _leftmost_is(rest[0].test, tgt)):
                    s = _Subst(tgt, val)
                    rest[0].test = s.visit(rest[0].test)
                    del stmts[i]
                    continue
            _map_bodies(st, do)
            i += 1
        return stmts

    fn.body = do(fn.body)


# ------------------------------------------------------------------------------------------ inlining


def _imports_of(node: ast.AST) -> set:
    out = set()
    for n in ast.walk(node):
        if isinstance(n, ast.Import):
            out |= {("", a.name, a.asname) for a in n.names}
        elif isinstance(n, ast.ImportFrom):
            out |= {(n.module, a.name, a.asname) for a in n.names}
    return out


def _inlinable(fd: ast.FunctionDef) -> bool:
    if fd.decorator_list or fd.args.vararg or fd.args.kwarg:
        return False
    for n in ast.walk(fd):
        if isinstance(n, (ast.Yield, ast.YieldFrom, ast.Await, ast.Global, ast.Nonlocal, ast.AsyncFunctionDef, ast.ClassDef)):
            return False
        if isinstance(n, ast.FunctionDef) and n is not fd:
            return False
    return True


def lambda_of(fd: ast.FunctionDef) -> ast.Lambda | None:
    """`def f(<args>): [docstring; imports;] return <expr>`  ==  `lambda <args>: <expr>`"""
    if fd.decorator_list:
        return None
    real = [s for s in fd.body if not is_noise(s)]
    if len(real) != 1 or not isinstance(real[0], ast.Return) or real[0].value is None:
        return None
    args = copy.deepcopy(fd.args)
    for a in ast.walk(args):
        if isinstance(a, ast.arg):
            a.annotation = None
    return ast.Lambda(args=args, body=copy.deepcopy(real[0].value))


class _Rename(ast.NodeTransformer):
    def __init__(self, mapping):
        self.m = mapping

    def visit_Name(self, node):
        if node.id in self.m:
            return ast.Name(id=self.m[node.id], ctx=node.ctx)
        return node


def _returns_outside_tail(stmts: list, tail=True) -> bool:
    """After elseify: is there a `return` that is not in tail position?"""
    for i, st in enumerate(stmts):
        last = tail and i == len(stmts) - 1
        if isinstance(st, ast.Return):
            if not last:
                return True
        elif isinstance(st, ast.If):
            if _returns_outside_tail(st.body, last) or _returns_outside_tail(st.orelse, last):
                return True
        elif any(isinstance(n, ast.Return) for n in ast.walk(st)):
            return True
    return False


def _replace_tail_returns(stmts: list, target: str | None) -> list:
    if not stmts:
        return [ast.Assign(targets=[ast.Name(id=target, ctx=ast.Store())], value=ast.Constant(value=None))] if target else stmts
    last = stmts[-1]
    if isinstance(last, ast.Return):
        if target is not None:
            stmts[-1] = ast.Assign(targets=[ast.Name(id=target, ctx=ast.Store())], value=last.value or ast.Constant(value=None))
        elif last.value is None or isinstance(last.value, ast.Constant):
            stmts.pop()
        else:
            stmts[-1] = ast.Expr(value=last.value)
    elif isinstance(last, ast.If):
        last.body = _replace_tail_returns(last.body, target) or [ast.Pass()]
        last.orelse = _replace_tail_returns(last.orelse, target)
    elif target is not None and not isinstance(last, ast.Raise):
        stmts.append(ast.Assign(targets=[ast.Name(id=target, ctx=ast.Store())], value=ast.Constant(value=None)))
    return stmts


class Inliner:
    def __init__(self, module: ast.Module, cls: ast.ClassDef | None, keep=()):
        self.funcs = {n.name: n for n in module.body if isinstance(n, ast.FunctionDef)}
        self.methods = {n.name: n for n in (cls.body if cls is not None else []) if isinstance(n, ast.FunctionDef)}
        self.module_imports = _imports_of(module)
        self.keep = set(keep)
        self.local: set = set()      # functions defined inside the function being normalised
        self.counter = 0

    def callee(self, call: ast.AST):
        """(FunctionDef, bound self expression or None) of a call that may be inlined."""
        if not isinstance(call, ast.Call):
            return None
        f = call.func
        if isinstance(f, ast.Name) and f.id.startswith("_") and not f.id.startswith("__") and f.id in self.funcs and f.id not in self.keep:
            fd = self.funcs[f.id]
            return (fd, None) if _inlinable(fd) else None
        if (isinstance(f, ast.Attribute) and isinstance(f.value, ast.Name) and f.value.id == "self" and f.attr.startswith("_")
                and not f.attr.startswith("__") and f.attr in self.methods and f.attr not in self.keep):
            fd = self.methods[f.attr]
            if _inlinable(fd) and fd.args.args and fd.args.args[0].arg == "self":
                return fd, f.value
        return None

    def expand(self, call: ast.Call, target: str | None, caller_imports: set, depth: int) -> list | None:
        got = self.callee(call)
        if got is None or depth > 3:
            return None
        fd, self_expr = got
        if any(isinstance(a, ast.Starred) for a in call.args) or any(k.arg is None for k in call.keywords):
            return None
        if not _imports_of(fd) <= (caller_imports | self.module_imports):
            return None
        params = [a.arg for a in fd.args.posonlyargs + fd.args.args]
        defaults = dict(zip(params[::-1], fd.args.defaults[::-1]))
        kwonly = [a.arg for a in fd.args.kwonlyargs]
        for a, d in zip(kwonly, fd.args.kw_defaults):
            if d is not None:
                defaults[a] = d
        bound: list = []
        pos = list(call.args)
        names = params[1:] if self_expr is not None else params
        if len(pos) > len(names):
            return None
        for p, a in zip(names, pos):
            bound.append((p, a))
        for k in call.keywords:
            if k.arg not in names + kwonly or k.arg in dict(bound):
                return None
            bound.append((k.arg, k.value))
        for p in names + kwonly:
            if p not in dict(bound):
                if p not in defaults:
                    return None
                bound.append((p, defaults[p]))
        self.counter += 1
        pre = f"{fd.name.strip('_')}{self.counter}__"
        body = copy.deepcopy([s for s in fd.body if not is_noise(s)])
        imported = {(a.asname or a.name).split(".")[0] for n in ast.walk(fd) if isinstance(n, (ast.Import, ast.ImportFrom)) for a in n.names}
        local = {k for k in bindings(ast.Module(body=body, type_ignores=[]))} | set(names + kwonly)
        local -= imported
        mapping = {k: pre + k for k in local}
        if self_expr is not None:
            mapping["self"] = "self"
        ren = _Rename(mapping)
        body = [ren.visit(s) for s in body]
        body = elseify(matches_to_ifs(body))
        if _returns_outside_tail(body):
            return None
        body = _replace_tail_returns(body, target)
        head = [ast.Assign(targets=[ast.Name(id=pre + p, ctx=ast.Store())], value=a) for p, a in bound]
        return self.run(head + body, caller_imports, depth + 1)

    def run(self, stmts: list, caller_imports: set, depth: int = 0) -> list:
        out = []
        for st in stmts:
            st = _map_bodies(st, lambda b, _p, _f: self.run(b, caller_imports, depth))
            new = None
            if isinstance(st, ast.Expr):
                new = self.expand(st.value, None, caller_imports, depth)
            elif isinstance(st, (ast.Assign, ast.AnnAssign, ast.Return)) and st.value is not None and self.callee(st.value):
                tgts = st.targets if isinstance(st, ast.Assign) else [st.target] if isinstance(st, ast.AnnAssign) else []
                if len(tgts) == 1 and isinstance(tgts[0], ast.Name):
                    new = self.expand(st.value, tgts[0].id, caller_imports, depth)
                else:
                    self.counter += 1
                    tmp = f"inl{self.counter}__result"
                    new = self.expand(st.value, tmp, caller_imports, depth)
                    if new is not None:
                        st.value = ast.Name(id=tmp, ctx=ast.Load())
                        new = new + [st]
            if new is None:
                # a private `def f(..): return <expr>` handed over as a function object == the lambda
                for call in [n for n in ast.walk(st) if isinstance(n, ast.Call)]:
                    for k, a in enumerate(call.args):
                        if isinstance(a, ast.Name) and (a.id.startswith("_") or a.id in self.local) and a.id in self.funcs and a.id not in self.keep:
                            fd = self.funcs[a.id]
                            lam = lambda_of(fd)
                            if lam is not None and _imports_of(fd) <= (caller_imports | self.module_imports):
                                call.args[k] = lam
                out.append(st)
            else:
                out.extend(new)
        return out


# ------------------------------------------------------------------------------------------ entry point


def normalize(fn: ast.FunctionDef, module: ast.Module, cls: ast.ClassDef | None = None, keep=()) -> ast.FunctionDef:
    """A normalised deep copy of fn (line numbers of the original are kept where nodes survive)."""
    fn = copy.deepcopy(fn)
    # local `def f(..): return <expr>` used as a function object: treat like a module-level one
    inl = Inliner(module, cls, keep)
    for st in ast.walk(fn):
        if isinstance(st, ast.FunctionDef) and st is not fn and st.name not in inl.funcs and bindings(fn).get(st.name, 0) == 0:
            inl.funcs[st.name] = st
            inl.local.add(st.name)
    body = inl.run(matches_to_ifs(list(fn.body)), _imports_of(fn))
    body = elseify(body)
    body = drop_tail(body, ast.Return)
    body = _drop_loop_tails(body)
    fn.body = simplify_ifs(body)
    subst_aliases(fn)
    fn.body = simplify_ifs(fn.body)
    ast.fix_missing_locations(fn)
    return fn


# ------------------------------------------------------------------------------------------ decision trees


class Unknown(Exception):
    pass


def truth(test: ast.AST, atom, log: list | None = None):
    """Truth value of a test with python's evaluation order; `atom(leaf)` gives True / False / None (unknown)."""
    if isinstance(test, ast.BoolOp):
        is_and = isinstance(test.op, ast.And)
        for v in test.values:
            r = truth(v, atom, log)
            if r is None:
                return None
            if r != is_and:
                return r
        return is_and
    if isinstance(test, ast.UnaryOp) and isinstance(test.op, ast.Not):
        r = truth(test.operand, atom, log)
        return None if r is None else not r
    if isinstance(test, ast.Constant):
        return bool(test.value)
    if log is not None:
        log.append(test)
    return atom(test)


def execute(stmts: list, atom, log: list | None = None) -> list:
    """The simple statements executed by a decision tree under one valuation of its atoms, in order.  An `if` whose
    test is unknown is an ASSERTION when one of its branches only raises (the other one is followed); anything else
    unknown fails closed.  Noise statements are skipped."""
    out = []
    for st in stmts:
        if is_noise(st):
            continue
        if isinstance(st, ast.If):
            r = truth(st.test, atom, log)
            if r is None:
                if only_raises(st.orelse) and not only_raises(st.body):
                    r = True
                elif only_raises(st.body) and not only_raises(st.orelse) :
                    r = False
                else:
                    fail(st.test, "condition that is not understood")
            out.extend(execute(st.body if r else st.orelse, atom, log))
        else:
            out.append(st)
    return out


def leaves(test: ast.AST) -> list:
    if isinstance(test, ast.BoolOp):
        return [x for v in test.values for x in leaves(v)]
    if isinstance(test, ast.UnaryOp) and isinstance(test.op, ast.Not):
        return leaves(test.operand)
    return [test]


def tests_of(stmts: list) -> list:
    out = []
    for st in stmts:
        if isinstance(st, ast.If):
            out.extend(leaves(st.test))
            out.extend(tests_of(st.body))
            out.extend(tests_of(st.orelse))
    return out


# ------------------------------------------------------------------------------------------ f-strings


def expand_fstring(node: ast.AST, env: dict, depth: int = 0) -> str:
    """Flatten an f-string to text with `{expr}` holes, following single-assignment names bound to f-strings, string
    constants or stable expressions."""
    if depth > 8:
        fail(node, "f-string nesting")
    if isinstance(node, ast.Constant) and isinstance(node.value, str):
        return node.value
    if isinstance(node, ast.JoinedStr):
        parts = []
        for v in node.values:
            if isinstance(v, ast.FormattedValue):
                if v.conversion != -1 or v.format_spec is not None:
                    parts.append("{" + ast.unparse(v.value) + "!}")
                else:
                    parts.append(expand_fstring(v.value, env, depth + 1))
            else:
                parts.append(str(v.value))
        return "".join(parts)
    if isinstance(node, ast.Name) and node.id in env and len(env[node.id]) == 1:
        v = env[node.id][0]
        if isinstance(v, (ast.JoinedStr, ast.Name)) or stable(v):
            return expand_fstring(v, env, depth + 1)
    if isinstance(node, ast.BinOp) and isinstance(node.op, ast.Add):
        return expand_fstring(node.left, env, depth + 1) + expand_fstring(node.right, env, depth + 1)
    return "{" + ast.unparse(node) + "}"
