"""C17 translator: which model functions read the exposure clock, and how the time step reaches the bucket.

Reads, fail closed, from the source tree under test:

0. the schedule refusals of Readout.__init__ (first time zero, start >= first time, not strictly increasing; an
   empty `times` refused before them)  -> `readout_guards`; Properties/C17.v proves that they accept exactly the
   schedules of the model's valid_schedule.
1. every function under pyxel/models/** that reads one of the detector's time attributes (time_step, time,
   absolute_time, is_first_readout, pipeline_count, ...) or has a `time_scale` parameter  -> `time_readers`.
   Each one must be classified in CLASSIFICATION below as time-integrating (then the check exercises it) or
   excluded with a reason (random, state relaxation, bookkeeping ...).  An unclassified reader, or a classified
   function that no longer exists, is a TranslationError: a model that integrates over time must be in the table.
2. for every time-integrating model: its parameter list (every parameter must be classified below: a new option
   may change how the time step enters) and, where the function is expression-shaped (`expr=True`), the symbolic
   value X of every `detector.photon += X` / `detector.charge.add_charge_array(X)` as an arithmetic expression
   over `detector.time_step`, the arguments and step-independent detector attributes: one row per combination of
   the option branches (`if convert_to_photons:` ...), helpers that receive the time step are inlined.

3. (translator/c17_life.py) the Detector family and, for every class that defines its own `empty(reset)`, what it
   empties for reset = True / False and with which value it calls the parent's `empty`; the functions that run
   the readouts of an exposure and the argument of their `detector.empty(...)` calls  -> `det_table`, `loop_table`
   (Model/FluxDet.v); Properties/C17.v proves that on every class, by every loop, photon and charge are emptied
   at every readout and pixel exactly in destructive mode.

The rows go to Gen_C17.v as `rate_table : list rate_row` (Model/FluxExpr.v); Properties/C17.v proves over the
regenerated table that every deterministic row is linear in the time step.  Nothing here fingerprints a function
body: assignments are followed symbolically, so reordering, renaming locals or introducing intermediate factors
gives the same rows.
"""
from __future__ import annotations

import ast
import json
from fractions import Fraction
from pathlib import Path

from harness.core import TranslationError

from . import c17_life as life
from .common import HEADER, parse

MODELS_DIR = "pyxel/models"

# attributes of Detector / ReadoutProperties that carry the exposure clock
STEP_ATTR = "time_step"
CLOCK_ATTRS = {
    "time", "start_time", "absolute_time", "times_linear", "num_steps", "pipeline_count", "is_first_readout",
    "is_last_readout", "read_out", "is_dynamic", "non_destructive_readout", "readout_properties", "times", "steps",
    "end_time", "non_destructive",
}
TIME_ATTRS = CLOCK_ATTRS | {STEP_ATTR}
TIME_PARAMS = {"time_scale"}
# detector attributes that do not change during an exposure
CONST_ROOTS = {"geometry", "characteristics", "environment"}

INTEGRATING, EXCLUDED = "integrating", "excluded"


def _int(kind, params, expr=True, random_when=(), note=""):
    return dict(cls=INTEGRATING, kind=kind, params=dict(params), expr=expr, random_when=list(random_when), note=note)


def _exc(reason):
    return dict(cls=EXCLUDED, reason=reason)


# parameter classes: "time" = changes how the time step enters / scales the rate; "rate" = sets the rate's value or
# spatial shape; "noise" = switches a random branch on; "other" = irrelevant to the increment
CLASSIFICATION = {
    "pyxel/models/photon_collection/illumination.py:illumination": _int(
        "illumination", dict(level="rate", option="rate", object_size="rate", object_center="rate", time_scale="time")),
    "pyxel/models/photon_collection/load_image.py:load_image": _int(
        "load_image", dict(image_file="rate", include_header="other", header_section_index="other", position="rate",
                           align="rate", convert_to_photons="time", multiplier="time", time_scale="time",
                           bit_resolution="time")),
    "pyxel/models/photon_collection/stripe_pattern.py:stripe_pattern": _int(
        "stripe_pattern", dict(period="rate", level="rate", angle="rate", startwith="rate", time_scale="time")),
    "pyxel/models/photon_collection/usaf_illumination.py:usaf_illumination": _int(
        "usaf_illumination", dict(position="rate", align="rate", convert_to_photons="time", multiplier="time",
                                  time_scale="time", bit_resolution="time"),
        note="downloads its image (pooch.retrieve) and delegates to load_image"),
    "pyxel/models/photon_collection/simple_collection.py:simple_collection": _int(
        "scene_collection", dict(aperture="rate", filter_band="rate", resolution="rate", pixel_scale="rate",
                                 integrate_wavelength="rate"), expr=False,
        note="scene -> photon projection through xarray datasets: not expression-shaped, correspondence only"),
    "pyxel/models/charge_generation/load_charge.py:load_charge": _int(
        "load_charge", dict(filename="rate", position="rate", align="rate", time_scale="time")),
    "pyxel/models/charge_generation/dark_current.py:dark_current": _int(
        "dark_current", dict(figure_of_merit="rate", spatial_noise_factor="noise", band_gap="rate",
                             band_gap_room_temperature="rate", seed="other", temporal_noise="noise"),
        random_when=["temporal_noise", "spatial_noise_factor is not None"]),
    "pyxel/models/charge_generation/dark_current_rule07.py:dark_current_rule07": _int(
        "dark_current_rule07", dict(cutoff_wavelength="rate", spatial_noise_factor="noise", seed="other",
                                    temporal_noise="noise"),
        random_when=["temporal_noise", "spatial_noise_factor is not None"]),
    # ---- read the clock but are not deterministic flux integrators
    "pyxel/models/charge_generation/simple_dark_current.py:simple_dark_current": _exc(
        "always random: Poisson draw with mean dark_rate * time_step"),
    "pyxel/models/charge_generation/dark_current_saphira.py:dark_current_saphira": _exc(
        "always random: Poisson draw with mean dark * time_step"),
    "pyxel/models/charge_generation/dark_current_induced.py:radiation_induced_dark_current": _exc(
        "always random (Poisson interactions, exponential amplitudes) and rounded"),
    "pyxel/models/charge_generation/charge_deposition.py:charge_deposition": _exc("random particle tracks"),
    "pyxel/models/charge_generation/charge_deposition.py:charge_deposition_in_mct": _exc("random particle tracks"),
    "pyxel/models/charge_generation/cosmix/cosmix.py:cosmix": _exc("random particle tracks (int(rate * time_step) events)"),
    "pyxel/models/charge_collection/persistence.py:simple_persistence": _exc(
        "first-order trap relaxation (explicit Euler step, clipped): depends on the discretisation by construction"),
    "pyxel/models/charge_collection/persistence.py:persistence": _exc(
        "first-order trap relaxation (explicit Euler step, clipped): depends on the discretisation by construction"),
    "pyxel/models/charge_measurement/linearity.py:physical_non_linearity_with_saturation": _exc(
        "non-linear ODE of the signal, not a charge source"),
    "pyxel/models/charge_measurement/nghxrg/nghxrg.py:nghxrg": _exc("read-out noise generator"),
    "pyxel/models/charge_measurement/nghxrg/nghxrg_beta.py:HXRGNoise.__init__": _exc("read-out noise generator (own time_step = frame count)"),
    "pyxel/models/charge_measurement/nghxrg/nghxrg_beta.py:HXRGNoise.add_ktc_bias_noise": _exc("read-out noise generator"),
    "pyxel/models/charge_measurement/nghxrg/nghxrg_beta.py:HXRGNoise.add_corr_pink_noise": _exc("read-out noise generator"),
    "pyxel/models/charge_measurement/nghxrg/nghxrg_beta.py:HXRGNoise.add_uncorr_pink_noise": _exc("read-out noise generator"),
    "pyxel/models/charge_measurement/nghxrg/nghxrg_beta.py:HXRGNoise.add_pca_zero_noise": _exc("read-out noise generator"),
    "pyxel/models/charge_measurement/reset_noise.py:ktc_noise": _exc("random reset noise, first readout only"),
    "pyxel/models/data_processing/linear_regression.py:linear_regression": _exc("bookkeeping: absolute time as regression abscissa"),
    "pyxel/models/data_processing/mean_variance.py:mean_variance": _exc("bookkeeping: readout index"),
    "pyxel/models/data_processing/remove_cosmic_rays.py:remove_cosmic_rays": _exc("bookkeeping: time coordinate"),
    "pyxel/models/data_processing/snr.py:signal_to_noise_ratio": _exc("bookkeeping: time coordinate"),
    "pyxel/models/data_processing/statistics.py:statistics": _exc("bookkeeping: time coordinate"),
    "pyxel/models/photon_collection/ariel_airs.py:wavelength_dependence_airs": _exc(
        "has time_scale but uses a constant time_step = 1.0 (injects the same photons per readout whatever its "
        "duration); needs instrument data files; not among the property's models"),
    "pyxel/models/photon_collection/poppy.py:optical_psf": _exc("first-readout bookkeeping of the PSF"),
}


# the models of the property that move charge from one bucket to the next without reading the clock: what they add
# to their sink must be linear in the content of their source bucket (expectation-value conversion: photon * qe;
# collection: the charge itself) and must not depend on the time step.  Read symbolically like the rate models,
# with the source bucket's array in the role of the time step.
LINEAR_MODELS = {
    "pyxel/models/charge_generation/photoelectrons.py:simple_conversion": dict(
        kind="simple_conversion", src="photon", sink="charge", identity=False,
        params=dict(quantum_efficiency="rate", seed="other", binomial_sampling="noise"), random_when=["binomial_sampling"]),
    "pyxel/models/charge_generation/photoelectrons.py:conversion_with_qe_map": dict(
        kind="qe_map", src="photon", sink="charge", identity=False,
        params=dict(filename="rate", position="rate", align="rate", seed="other", binomial_sampling="noise"),
        random_when=["binomial_sampling"]),
    "pyxel/models/charge_collection/collection.py:simple_collection": dict(
        kind="simple_collection", src="charge", sink="pixel", identity=True, params={}, random_when=[]),
}


# ------------------------------------------------------------------------------------------ 1. time readers


def _root_name(n: ast.AST):
    while isinstance(n, (ast.Attribute, ast.Subscript, ast.Call)):
        n = n.func if isinstance(n, ast.Call) else n.value
    return n.id if isinstance(n, ast.Name) else None


def _params(fn) -> list[str]:
    a = fn.args
    return [x.arg for x in a.posonlyargs + a.args + a.kwonlyargs]


def _functions(tree: ast.Module):
    """(qualified name, FunctionDef) of every function, methods as Class.method, nested as outer.inner."""
    out = []

    def visit(node, prefix):
        for ch in ast.iter_child_nodes(node):
            if isinstance(ch, (ast.FunctionDef, ast.AsyncFunctionDef)):
                out.append((prefix + ch.name, ch))
                visit(ch, prefix + ch.name + ".")
            elif isinstance(ch, ast.ClassDef):
                visit(ch, prefix + ch.name + ".")
            elif isinstance(ch, (ast.If, ast.Try, ast.With)):
                visit(ch, prefix)

    visit(tree, "")
    return out


def scan_time_readers(repo: Path) -> dict[str, list[str]]:
    base = repo / MODELS_DIR
    if not base.is_dir():
        raise TranslationError(f"{MODELS_DIR}: directory not found")
    found: dict[str, list[str]] = {}
    for f in sorted(base.rglob("*.py")):
        rel = f.relative_to(repo).as_posix()
        tree = parse(repo, rel)
        for qn, fn in _functions(tree):
            params = set(_params(fn))
            hits = set()
            for n in ast.walk(fn):
                if isinstance(n, ast.Attribute) and n.attr in TIME_ATTRS and _root_name(n.value) in params | {"self"}:
                    hits.add(n.attr)
            hits |= {f"param:{p}" for p in params & TIME_PARAMS}
            if hits:
                found[f"{rel}:{qn}"] = sorted(hits)
        _attribute_helpers(rel, tree, found, base)
    return found


def _attribute_helpers(rel: str, tree: ast.Module, found: dict, base: Path) -> None:
    """A module-level helper that reads the clock, is not classified itself, is not imported by another models module and
    is called only from functions of its own module: its reads belong to its callers (a block extracted from a model
    function is still that model's code; the increment expression follows the call).  Repeated until nothing moves, so
    that helpers of helpers are attributed too.  A helper nobody calls, or one used elsewhere, stays a reader of its
    own and must be classified (fail closed)."""
    funcs = dict(_functions(tree))
    moved = True
    while moved:
        moved = False
        for key in [k for k in found if k.startswith(rel + ":") and k not in CLASSIFICATION]:
            qn = key.split(":", 1)[1]
            if "." in qn or qn not in funcs:
                continue
            callers = [c for c, fn in funcs.items() if c != qn and "." not in c and any(
                isinstance(n, ast.Call) and isinstance(n.func, ast.Name) and n.func.id == qn for n in ast.walk(fn))]
            other_refs = sum(1 for n in ast.walk(tree) if isinstance(n, ast.Name) and n.id == qn) - sum(
                1 for c in callers for n in ast.walk(funcs[c]) if isinstance(n, ast.Name) and n.id == qn)
            self_refs = sum(1 for n in ast.walk(funcs[qn]) if isinstance(n, ast.Name) and n.id == qn)
            if not callers or other_refs - self_refs > 0:
                continue                      # referenced at module level / from a method / as a value: not followed
            used_elsewhere = False
            for f in base.rglob("*.py"):
                if f.relative_to(base.parent.parent).as_posix() != rel:
                    txt = f.read_text()
                    if qn in txt and any(isinstance(n, (ast.ImportFrom, ast.Import)) and any(a.name.split(".")[-1] == qn for a in n.names)
                                         for n in ast.walk(ast.parse(txt))):
                        used_elsewhere = True
                        break
            if used_elsewhere:
                continue
            hits = [h for h in found.pop(key) if not h.startswith("param:")]
            for c in callers:
                ck = f"{rel}:{c}"
                found[ck] = sorted(set(found.get(ck, [])) | set(hits))
            moved = True


# ------------------------------------------------------------------------------------------ 2. symbolic values

STEP = ("step",)
DET = ("det",)
SRC = ("src",)        # linear mode: the detector bucket a conversion / collection model reads
SRC_ARRAYS = {"array", "array_2d", "array_3d", "_array"}
# methods that are linear in their receiver (only followed in linear mode): photon.integrate(coord="wavelength")
LINEAR_METHODS = {"integrate", "sum"}


def var(name):
    return ("var", name)


def bad(kind, name):
    return ("bad", kind, name[:120])


def const(x):
    return ("const", Fraction(x))


ARITH = {"neg", "add", "sub", "mul", "div", "pow"}


def atoms(v):
    if v[0] in ARITH:
        for a in v[1:]:
            yield from atoms(a)
    else:
        yield v


def is_free(v) -> bool:
    return all(a[0] in ("var", "const") for a in atoms(v))


def worst_bad(vs, text):
    kinds = [a[1] for v in vs for a in atoms(v) if a[0] == "bad"]
    for k in ("random", "clock", "state"):
        if k in kinds:
            return bad(k, text)
    return bad("nonlin", text)


PASS_THROUGH_FUNCS = {"Quantity", "np.asarray", "np.array", "np.asanyarray", "np.ascontiguousarray", "float",
                      "np.float64", "np.copy", "xr.DataArray", "numpy.asarray", "numpy.array", "u.Quantity"}
PASS_THROUGH_METHODS = {"astype", "to", "copy", "reshape", "to_value", "to_numpy", "squeeze"}
PASS_THROUGH_ATTRS = {"value", "values", "data", "magnitude"}
ONES = {"np.ones", "np.ones_like", "numpy.ones"}
ZEROS = {"np.zeros", "np.zeros_like", "numpy.zeros"}
SAFE_GLOBALS = {"len", "isinstance", "min", "max", "abs", "bool", "int", "float"}
# a conversion to one of these types keeps the value (anything else - int, bool, unsigned - truncates / wraps)
FLOAT_TYPES = {"float", "np.float64", "numpy.float64", "np.floating", "np.double", "numpy.double", "np.longdouble",
               "'float'", "'float64'", "'f8'", "'d'", "np.float128"}


def float_dtype(node: ast.AST) -> bool:
    return (dotted(node) or (repr(node.value) if isinstance(node, ast.Constant) and isinstance(node.value, str) else "?")) \
        in FLOAT_TYPES


def dotted(n: ast.AST):
    parts = []
    while isinstance(n, ast.Attribute):
        parts.append(n.attr)
        n = n.value
    if isinstance(n, ast.Name):
        parts.append(n.id)
        return ".".join(reversed(parts))
    return None


class Frame:
    def __init__(self, rel, fn, depth):
        self.rel, self.fn, self.depth = rel, fn, depth


class Path_:
    """One execution path: local environment, the option conditions assumed, the sinks reached."""

    def __init__(self, env, psub, conds=None, sinks=None, ret=None, done=False, raised=False):
        self.env, self.psub = env, psub
        self.conds = conds or []
        self.sinks = sinks or []
        self.ret, self.done, self.raised = ret, done, raised

    def fork(self):
        return Path_(dict(self.env), dict(self.psub), list(self.conds), list(self.sinks), self.ret, self.done, self.raised)


class _Fork(Exception):
    """An inlined helper has several option paths: the enclosing statement is executed once per path."""

    def __init__(self, call, results):
        self.call, self.results = call, results


class Sym:
    def __init__(self, repo: Path):
        self.repo = repo
        self.index: dict[str, list[tuple[str, ast.FunctionDef]]] = {}
        self.trees: dict[str, ast.Module] = {}
        for f in sorted((repo / "pyxel").rglob("*.py")):
            rel = f.relative_to(repo).as_posix()
            if not (rel.startswith(MODELS_DIR) or rel.startswith("pyxel/util")):
                continue
            try:
                tree = ast.parse(f.read_text(), filename=str(f))
            except SyntaxError as ex:
                raise TranslationError(f"{rel}: {ex}") from ex
            self.trees[rel] = tree
            for n in tree.body:
                if isinstance(n, ast.FunctionDef):
                    self.index.setdefault(n.name, []).append((rel, n))
        self.call_names: dict[str, str] = {}
        self._consts: dict[str, dict] = {}
        self.forced: dict[int, tuple] = {}
        self.mode = None      # None: rate models (linear atom = detector.time_step); else dict(src=bucket, sink=bucket)

    # ---------------------------------------------------------------- helpers
    def fail(self, rel, node, msg):
        raise TranslationError(f"{rel}:{getattr(node, 'lineno', '?')}: {msg}: {ast.unparse(node)[:160]}")

    def resolve(self, rel, name, with_detector):
        """A pyxel function called by its bare name from module `rel`: same module first, else a unique def
        among the modules scanned, provided the calling module imports that name."""
        same = [(r, f) for r, f in self.index.get(name, []) if r == rel]
        if len(same) == 1:
            return same[0]
        imported = any(isinstance(n, ast.ImportFrom) and any((a.asname or a.name) == name for a in n.names)
                       for n in ast.walk(self.trees[rel]))
        cands = self.index.get(name, [])
        if with_detector:
            cands = [(r, f) for r, f in cands if _params(f)[:1] == ["detector"]]
        if imported and len(cands) == 1:
            return cands[0]
        return None

    def opaque_call(self, fname, node):
        text = ast.unparse(node)
        key = f"{fname}|{text}"
        if key not in self.call_names:
            n = sum(1 for k in self.call_names if k.split("|", 1)[0] == fname)
            self.call_names[key] = f"call:{fname}" + (f"#{n + 1}" if n else "")
        return var(self.call_names[key])

    def module_consts(self, rel) -> dict:
        """NAME = <literal> assigned exactly once at module level (and nowhere else in the module): a constant moved out
        of a function is read as the literal it names."""
        if rel not in self._consts:
            tree, out, count = self.trees[rel], {}, {}
            for n in ast.walk(tree):
                if isinstance(n, ast.Name) and isinstance(n.ctx, (ast.Store, ast.Del)):
                    count[n.id] = count.get(n.id, 0) + 1
                elif isinstance(n, (ast.arg,)):
                    count[n.arg] = count.get(n.arg, 0) + 1
            for st in tree.body:
                tg = st.targets[0] if isinstance(st, ast.Assign) and len(st.targets) == 1 else (st.target if isinstance(st, ast.AnnAssign) else None)
                if isinstance(tg, ast.Name) and getattr(st, "value", None) is not None and count.get(tg.id) == 1:
                    try:
                        v = ast.literal_eval(st.value)
                    except (ValueError, SyntaxError, TypeError):
                        continue
                    if isinstance(v, (int, float, str, bool, tuple, frozenset)) or v is None:
                        out[tg.id] = st.value
            self._consts[rel] = out
        return self._consts[rel]

    def subst(self, node: ast.AST, psub, rel=None, local_names=()):
        """node rewritten over the top-level function's parameters, or None if it mentions anything else."""
        import copy

        ok = True
        consts = self.module_consts(rel) if rel is not None else {}

        class T(ast.NodeTransformer):
            def visit_Name(s, n):  # noqa: N802, N805
                nonlocal ok
                if n.id in psub and psub[n.id] is not None:
                    return copy.deepcopy(psub[n.id])
                if n.id in SAFE_GLOBALS:
                    return n
                if n.id in consts and n.id not in local_names and n.id not in psub:
                    return copy.deepcopy(consts[n.id])
                ok = False
                return n

            def visit_Attribute(s, n):  # noqa: N802, N805
                nonlocal ok
                ok = False
                return n

        new = T().visit(copy.deepcopy(node))
        return ast.fix_missing_locations(new) if ok else None

    # ---------------------------------------------------------------- expressions
    def compound(self, fr, p, n, children):
        vs = [bad("state", "detector") if v in (DET, SRC) else v for v in (self.ev(fr, p, c) for c in children)]
        if all(is_free(v) for v in vs):
            return var("expr:" + ast.unparse(n)[:80])
        return worst_bad(vs, ast.unparse(n))

    def ev(self, fr: Frame, p: Path_, n: ast.AST):
        rel = fr.rel
        if isinstance(n, ast.Constant):
            if isinstance(n.value, bool) or n.value is None or isinstance(n.value, (str, bytes)) or n.value is Ellipsis:
                return var("const:" + repr(n.value)[:40])
            if isinstance(n.value, (int, float)):
                return const(n.value)
            self.fail(rel, n, "constant of an unexpected type")
        if isinstance(n, ast.Name):
            if n.id in p.env:
                return p.env[n.id]
            return var("global:" + n.id)
        if isinstance(n, ast.Attribute):
            base = self.ev(fr, p, n.value)
            if base == SRC:
                return STEP if n.attr in SRC_ARRAYS else bad("state", f"detector.{self.mode['src']}.{n.attr}")
            if base == DET and self.mode:
                if n.attr == self.mode["src"]:
                    return SRC
                if n.attr == STEP_ATTR:
                    return bad("clock", "detector." + n.attr)      # a conversion must not depend on the time step
            if base == DET:
                if n.attr == STEP_ATTR:
                    return STEP
                if n.attr in CLOCK_ATTRS:
                    return bad("clock", "detector." + n.attr)
                if n.attr in CONST_ROOTS:
                    return var("detector." + n.attr)
                return bad("state", "detector." + n.attr)
            if base[0] == "var":
                return var(base[1] + "." + n.attr)
            if base[0] == "bad":
                if base == bad("clock", "detector.readout_properties") and n.attr == STEP_ATTR and not self.mode:
                    return STEP                         # detector.readout_properties.time_step
                return bad(base[1], base[2] + "." + n.attr)
            if n.attr in PASS_THROUGH_ATTRS:
                return base
            return worst_bad([base], ast.unparse(n))
        if isinstance(n, ast.UnaryOp):
            a = self.ev(fr, p, n.operand)
            if a == DET:
                return bad("state", "detector")
            if isinstance(n.op, ast.USub):
                return ("neg", a)
            if isinstance(n.op, ast.UAdd):
                return a
            return var("expr:" + ast.unparse(n)[:80]) if is_free(a) else worst_bad([a], ast.unparse(n))
        if isinstance(n, ast.BinOp):
            a, b = self.ev(fr, p, n.left), self.ev(fr, p, n.right)
            if DET in (a, b) or SRC in (a, b):
                self.fail(rel, n, "arithmetic on the detector object / a bucket object")
            ops = {ast.Add: "add", ast.Sub: "sub", ast.Mult: "mul", ast.Div: "div", ast.Pow: "pow"}
            for k, tag in ops.items():
                if isinstance(n.op, k):
                    return (tag, a, b)
            return var("expr:" + ast.unparse(n)[:80]) if is_free(a) and is_free(b) else worst_bad([a, b], ast.unparse(n))
        if isinstance(n, (ast.Tuple, ast.List, ast.Set)):
            vs = [self.ev(fr, p, e) for e in n.elts]
            if DET in vs:
                self.fail(rel, n, "the detector object inside a tuple")
            return var("tuple:" + ast.unparse(n)[:80]) if all(is_free(v) for v in vs) else worst_bad(vs, ast.unparse(n))
        if isinstance(n, ast.Subscript):
            base = self.ev(fr, p, n.value)
            if base == DET:
                self.fail(rel, n, "subscript of the detector object")
            idx_nodes = [e for e in ast.walk(n.slice) if isinstance(e, (ast.Name, ast.Attribute, ast.Call))]
            idx = [bad("state", "detector") if v == DET else v for v in (self.ev(fr, p, e) for e in idx_nodes)]
            if all(is_free(v) for v in idx):
                if base[0] == "var":
                    return var(base[1] + "[" + ast.unparse(n.slice)[:30] + "]")
                return base            # selecting elements of an array keeps the element-wise expression
            return worst_bad([base] + idx, ast.unparse(n))
        if isinstance(n, ast.Compare):
            return self.compound(fr, p, n, [n.left] + list(n.comparators))
        if isinstance(n, ast.BoolOp):
            return self.compound(fr, p, n, n.values)
        if isinstance(n, ast.IfExp):
            return self.compound(fr, p, n, [n.test, n.body, n.orelse])
        if isinstance(n, ast.JoinedStr):
            return self.compound(fr, p, n, [v.value for v in n.values if isinstance(v, ast.FormattedValue)])
        if isinstance(n, ast.Dict):
            return self.compound(fr, p, n, [k for k in n.keys if k is not None] + list(n.values))
        if isinstance(n, ast.Starred):
            return self.ev(fr, p, n.value)
        if isinstance(n, ast.Call):
            return self.ev_call(fr, p, n)
        self.fail(rel, n, "expression shape not accepted")

    def ev_call(self, fr: Frame, p: Path_, n: ast.Call):
        rel = fr.rel
        if id(n) in self.forced:
            return self.forced[id(n)]
        if any(isinstance(a, ast.Starred) for a in n.args) or any(k.arg is None for k in n.keywords):
            self.fail(rel, n, "star arguments in a call")
        fname = dotted(n.func)
        args = [self.ev(fr, p, a) for a in n.args]
        kwargs = {k.arg: self.ev(fr, p, k.value) for k in n.keywords}
        allv = args + list(kwargs.values())
        text = ast.unparse(n)
        if SRC in allv:
            self.fail(rel, n, "a bucket object (not its array) is passed to a call")
        lowered = (fname or text).lower()
        segs = lowered.split("(")[0].split(".")
        if "random" in segs[:-1] or segs[-1] in ("poisson", "lognormal", "normal", "binomial", "exponential", "uniform",
                                                 "standard_normal", "rand", "randn", "default_rng", "randint"):
            return bad("random", fname or text)
        if isinstance(n.func, ast.Attribute) and (fname is None or _root_name(n.func.value) in p.env):
            # a method of a local value / of the detector
            recv = self.ev(fr, p, n.func.value)
            if DET in allv:
                self.fail(rel, n, "the detector object passed to a method")
            if recv == DET:
                return bad("state", "detector." + n.func.attr + "()")
            if recv == SRC:
                return bad("state", f"detector.{self.mode['src']}.{n.func.attr}()")
            if recv[0] == "var":
                return self.opaque_call(recv[1] + "." + n.func.attr, n) if all(is_free(v) for v in allv) \
                    else worst_bad(allv, text)
            if n.func.attr in PASS_THROUGH_METHODS and all(is_free(v) for v in allv):
                if n.func.attr == "astype" and not (is_free(recv) or (len(n.args) + len(n.keywords) >= 1 and float_dtype(
                        n.args[0] if n.args else next((k.value for k in n.keywords if k.arg == "dtype"), n)))):
                    return bad("nonlin", text)         # .astype(int) truncates the value
                return recv
            if self.mode and n.func.attr in LINEAR_METHODS and all(is_free(v) for v in allv):
                return recv
            return worst_bad([recv] + allv, text)
        if fname in PASS_THROUGH_FUNCS and args and all(is_free(v) for v in args[1:] + list(kwargs.values())):
            if args[0] == DET:
                self.fail(rel, n, "the detector object passed to a wrapper")
            dt = next((k.value for k in n.keywords if k.arg == "dtype"), None)
            if dt is not None and not is_free(args[0]) and not float_dtype(dt):
                return bad("nonlin", text)             # np.array(x, dtype=int) truncates the value
            return args[0]
        if fname in ONES and all(is_free(v) for v in allv):
            return const(1)
        if fname in ZEROS and all(is_free(v) for v in allv):
            return const(0)
        needs_inline = DET in allv or not all(is_free(v) for v in allv)
        if needs_inline:
            target = self.resolve(rel, fname, DET in allv) if fname and "." not in fname else None
            if target is not None:
                return self.inline(fr, p, n, target, args, kwargs)
            if DET in allv:
                self.fail(rel, n, "the detector object is passed to a function that cannot be followed")
            return worst_bad(allv, text)
        # a pure helper / a method of a module applied to step-independent values
        return self.opaque_call(fname or "expr", n)

    def inline(self, fr: Frame, p: Path_, call: ast.Call, target, args, kwargs):
        rel2, fn = target
        if fr.depth >= 4:
            self.fail(fr.rel, call, "helper calls nested too deeply")
        if fn.args.vararg or fn.args.kwarg:
            self.fail(fr.rel, call, "helper with *args/**kwargs")
        names = [a.arg for a in fn.args.posonlyargs + fn.args.args]
        kwonly = [a.arg for a in fn.args.kwonlyargs]
        if len(args) > len(names):
            self.fail(fr.rel, call, "too many positional arguments")
        env, psub, arg_nodes = {}, {}, {}
        for nm, v, node in zip(names, args, call.args):
            env[nm], arg_nodes[nm] = v, node
        for k in call.keywords:
            if k.arg not in names + kwonly or k.arg in arg_nodes:
                self.fail(fr.rel, call, f"unexpected keyword {k.arg}")
            env[k.arg], arg_nodes[k.arg] = kwargs[k.arg], k.value
        pos_defaults = dict(zip(names[len(names) - len(fn.args.defaults):], fn.args.defaults))
        kw_defaults = {a: d for a, d in zip(kwonly, fn.args.kw_defaults) if d is not None}
        callee = Frame(rel2, fn, fr.depth + 1)
        for nm in names + kwonly:
            if nm in arg_nodes:
                psub[nm] = self.subst(arg_nodes[nm], p.psub, fr.rel, p.env)
            else:
                d = pos_defaults.get(nm, kw_defaults.get(nm))
                if d is None:
                    self.fail(fr.rel, call, f"missing argument {nm}")
                env[nm] = self.ev(callee, Path_({}, {}), d)
                psub[nm] = d if isinstance(d, ast.Constant) else None
        sub = Path_(env, psub, list(p.conds), list(p.sinks))
        outs = merge_paths([o for o in self.block(callee, [sub], body_of(fn)) if not o.raised], f"{rel2}:{fn.name}", True)
        if not outs:
            self.fail(fr.rel, call, "helper raises on every path")
        results = [(o.conds, o.sinks, o.ret if o.ret is not None else var("const:None")) for o in outs]
        if len(results) == 1:
            p.conds, p.sinks = results[0][0], results[0][1]
            return results[0][2]
        raise _Fork(call, results)

    # ---------------------------------------------------------------- statements
    def block(self, fr: Frame, paths, stmts):
        for st in stmts:
            nxt = []
            for p in paths:
                if p.done or p.raised:
                    nxt.append(p)
                else:
                    nxt.extend(self.stmt(fr, p, st))
            paths = nxt
            if len(paths) > 64:
                self.fail(fr.rel, st, "too many option paths")
        return paths

    def stmt(self, fr: Frame, p: Path_, st: ast.stmt):
        """Execute one statement; if a helper inlined inside it has several option paths, once per path."""
        backup = p.fork()
        try:
            return self.stmt1(fr, p, st)
        except _Fork as fk:
            res = []
            for conds, sinks, ret in fk.results:
                q = backup.fork()
                q.conds, q.sinks = list(conds), list(sinks)
                self.forced[id(fk.call)] = ret
                try:
                    res.extend(self.stmt(fr, q, st))
                finally:
                    self.forced.pop(id(fk.call), None)
            return res

    def assign(self, fr, p, target, value, node):
        if isinstance(target, ast.Name):
            p.env[target.id] = value
            p.psub.pop(target.id, None)
            return
        if isinstance(target, (ast.Tuple, ast.List)):
            if value == DET or not is_free(value):
                self.fail(fr.rel, node, "tuple unpacking of a value that depends on the time step")
            for i, t in enumerate(target.elts):
                if not isinstance(t, ast.Name):
                    self.fail(fr.rel, node, "nested unpacking")
                p.env[t.id] = var(f"{value[1]}[{i}]" if value[0] == "var" else f"unpack:{t.id}")
                p.psub.pop(t.id, None)
            return
        if isinstance(target, ast.Attribute):
            base = self.ev(fr, p, target.value)
            if base == DET:
                if target.attr in ("header",):
                    return
                self.fail(fr.rel, node, "assignment to a detector attribute")
            if base[0] == "bad":
                self.fail(fr.rel, node, "a detector bucket / clock attribute is assigned (only `+=` adds)")
            return
        if isinstance(target, ast.Subscript):
            base = self.ev(fr, p, target.value)
            if base == DET or base[0] == "bad":
                self.fail(fr.rel, node, "item assignment into a detector bucket")
            nm = _root_name(target)
            if nm in p.env and not (value != DET and is_free(value)):
                # a step-dependent value is written into a container: it is no longer a plain expression
                p.env[nm] = worst_bad([value], ast.unparse(node)[:80])
            return
        self.fail(fr.rel, node, "assignment target not accepted")

    def sink_of(self, fr, p, node):
        """('photon'|'charge'|'pixel', value AST) if node adds to a detector bucket."""
        if self.mode and isinstance(node, ast.AugAssign) and isinstance(node.op, ast.Add) \
                and isinstance(node.target, ast.Attribute) and node.target.attr in ("array", "_array") \
                and isinstance(node.target.value, ast.Attribute) and node.target.value.attr == "pixel" \
                and self.ev(fr, p, node.target.value.value) == DET:
            return "pixel", node.value                  # detector.pixel.array += X
        if isinstance(node, ast.AugAssign) and isinstance(node.op, ast.Add) and isinstance(node.target, ast.Attribute):
            if self.ev(fr, p, node.target.value) == DET and node.target.attr == "photon":
                return "photon", node.value
        if isinstance(node, ast.Expr) and isinstance(node.value, ast.Call) and isinstance(node.value.func, ast.Attribute):
            f = node.value.func
            if f.attr == "add_charge_array" and isinstance(f.value, ast.Attribute) and f.value.attr == "charge" \
                    and self.ev(fr, p, f.value.value) == DET:
                c = node.value
                if len(c.args) + len(c.keywords) != 1:
                    self.fail(fr.rel, node, "add_charge_array with an unexpected argument list")
                return "charge", (c.args[0] if c.args else c.keywords[0].value)
        return None

    def only_raises(self, stmts) -> bool:
        if not stmts or not isinstance(stmts[-1], ast.Raise):
            return False
        return all(isinstance(s, ast.Expr) for s in stmts[:-1])

    def stmt1(self, fr: Frame, p: Path_, st: ast.stmt):
        rel = fr.rel
        if isinstance(st, (ast.Pass, ast.Import, ast.ImportFrom, ast.Assert, ast.Global, ast.Nonlocal)):
            return [p]
        snk = self.sink_of(fr, p, st)
        if snk is not None:
            v = self.ev(fr, p, snk[1])
            p.sinks.append((snk[0], v))
            return [p]
        if isinstance(st, ast.Expr):
            if not isinstance(st.value, ast.Constant):
                self.ev(fr, p, st.value)      # a call for its side effect (warnings.warn, header.update, ...)
            return [p]
        if isinstance(st, (ast.Assign, ast.AnnAssign)) and isinstance(st.value, ast.IfExp):
            # `x = a if c else b` == `if c: x = a else: x = b`
            tg = st.targets if isinstance(st, ast.Assign) else [st.target]
            mk = lambda v: [ast.fix_missing_locations(ast.copy_location(ast.Assign(targets=tg, value=v), st))]  # noqa: E731
            fake = ast.copy_location(ast.If(test=st.value.test, body=mk(st.value.body), orelse=mk(st.value.orelse)), st)
            return self.if_stmt(fr, p, fake)
        if isinstance(st, ast.Match):
            from .c17_guards import match_as_if

            chain = match_as_if(st)
            if chain is None:
                self.fail(rel, st, "match statement with patterns other than literals")
            return self.block(fr, [p], chain)
        if isinstance(st, ast.Assign):
            v = self.ev(fr, p, st.value)
            for t in st.targets:
                self.assign(fr, p, t, v, st)
            return [p]
        if isinstance(st, ast.AnnAssign):
            if st.value is not None:
                self.assign(fr, p, st.target, self.ev(fr, p, st.value), st)
            return [p]
        if isinstance(st, ast.AugAssign):
            if not isinstance(st.target, ast.Name):
                base = self.ev(fr, p, st.target.value) if isinstance(st.target, (ast.Attribute, ast.Subscript)) else None
                if base is None or base == DET or base[0] == "bad":
                    self.fail(rel, st, "in-place update of a detector attribute other than `detector.photon += X`")
                rhs = self.ev(fr, p, st.value)
                nm = _root_name(st.target)
                if nm in p.env and not (rhs != DET and is_free(rhs)):
                    p.env[nm] = worst_bad([rhs], ast.unparse(st)[:80])
                return [p]
            fake = ast.BinOp(left=ast.Name(id=st.target.id, ctx=ast.Load()), op=st.op, right=st.value)
            ast.copy_location(fake, st)
            ast.fix_missing_locations(fake)
            self.assign(fr, p, st.target, self.ev(fr, p, fake), st)
            return [p]
        if isinstance(st, ast.Return):
            p.ret = self.ev(fr, p, st.value) if st.value is not None else var("const:None")
            p.done = True
            return [p]
        if isinstance(st, ast.Raise):
            p.raised = True
            return [p]
        if isinstance(st, ast.With):
            for it in st.items:
                v = self.ev(fr, p, it.context_expr)
                if v == DET or not is_free(v):
                    self.fail(rel, st, "context manager depends on the time step")
                if it.optional_vars is not None:
                    self.assign(fr, p, it.optional_vars, var("ctx:" + ast.unparse(it.context_expr)[:40]), st)
            return self.block(fr, [p], st.body)
        if isinstance(st, ast.If):
            return self.if_stmt(fr, p, st)
        if isinstance(st, ast.Try) and not st.finalbody and st.handlers and all(self.only_raises(h.body) for h in st.handlers):
            # `try: x = detector.characteristics.y  except ValueError: raise ...`: the failing path is a refusal
            return self.block(fr, self.block(fr, [p], st.body), st.orelse)
        self.fail(rel, st, "statement shape not accepted")

    def if_stmt(self, fr: Frame, p: Path_, st: ast.If):
        cond = self.subst(st.test, p.psub, fr.rel, p.env)
        body, orelse = st.body, st.orelse
        while isinstance(cond, ast.UnaryOp) and isinstance(cond.op, ast.Not):
            cond, body, orelse = cond.operand, orelse, body      # `if not c: A else: B` == `if c: B else: A`
        cond = fold_const(cond)
        if isinstance(cond, ast.Constant):               # an option fixed by the caller (usaf -> load_image)
            return self.block(fr, [p], body if cond.value else orelse)
        if cond is not None:
            a, b = p, p.fork()
            a.conds.append(ast.unparse(cond))
            b.conds.append(ast.unparse(ast.UnaryOp(op=ast.Not(), operand=cond)))
            if body is st.body:
                return self.block(fr, [a], body) + self.block(fr, [b], orelse)
            return self.block(fr, [b], orelse) + self.block(fr, [a], body)       # rows in source order
        if self.only_raises(st.body):
            return self.block(fr, [p], st.orelse)        # a guard on something else than the options
        # a branch on a run-time value: followed on both sides; it must not reach a bucket, return or raise, and
        # the locals it changes become step-independent unknowns (or bad values if the test is not step-independent)
        tv = self.ev(fr, p, st.test)
        tv = bad("state", "detector") if tv in (DET, SRC) else tv
        outs = self.block(fr, [p.fork()], st.body) + self.block(fr, [p.fork()], st.orelse)
        for o in outs:
            if not o.raised and (o.sinks != p.sinks or o.conds != p.conds):
                self.fail(fr.rel, st, "branch on something else than the model's options reaches a bucket")
        # guard clause / early return on a run-time value == the rest of the function nested in the other branch: a side
        # that leaves the function stays a path of its own (a refusal is dropped, a `return` is kept with what has
        # reached the buckets so far); `merge_paths` at the end of the function demands that all paths under the same
        # option conditions added the same expressions - otherwise the run-time value decides the increment: fail closed
        left = [o for o in outs if o.done and not o.raised]
        outs = [o for o in outs if not (o.raised or o.done)]
        if not outs:
            if not left:
                p.raised = True
                return [p]
            return left
        changed = sorted({k for o in outs for k, v in o.env.items() if p.env.get(k) != v})
        for k in changed:
            vals = [o.env.get(k, p.env.get(k, var("global:" + k))) for o in outs]
            vals = [bad("state", "detector") if v in (DET, SRC) else v for v in vals]
            if all(v == vals[0] for v in vals):
                p.env[k] = vals[0]                  # the same value on every side (photon 2-D / 3-D integrated)
            elif all(is_free(v) for v in [tv] + vals):
                p.env[k] = var("branch:" + k)
            elif is_free(tv):
                # two different step-dependent values chosen by a step-independent run-time test: each side may be
                # fine, but this translator has no conditional expression - fail closed rather than reject the row
                self.fail(fr.rel, st, f"branch on a run-time value changes the step-dependent local '{k}'")
            else:
                p.env[k] = worst_bad([tv] + vals, "branch:" + k)
            p.psub.pop(k, None)
        return [p] + left


def fold_const(cond):
    """A test made of literals only (an option fixed by the caller, after substitution) -> its value."""
    if cond is None or isinstance(cond, ast.Constant):
        return cond
    if all(isinstance(n, (ast.Constant, ast.BoolOp, ast.UnaryOp, ast.Compare, ast.boolop, ast.unaryop, ast.cmpop,
                          ast.Tuple, ast.List, ast.Load, ast.IfExp)) for n in ast.walk(cond)):
        try:
            v = eval(compile(ast.fix_missing_locations(ast.Expression(body=cond)), "<fold>", "eval"), {"__builtins__": {}}, {})  # noqa: S307
        except Exception:  # noqa: BLE001
            return cond
        return ast.Constant(value=bool(v))
    return cond


def merge_paths(outs, where, with_ret=False):
    """Paths that differ only by run-time branches (same option conditions): one path if they agree on what reached the
    buckets (and, inside a helper, on the value returned); otherwise a run-time value decides the increment."""
    merged, seen = [], {}
    for o in outs:
        key = tuple(o.conds)
        if key not in seen:
            seen[key] = o
            merged.append(o)
            continue
        q = seen[key]
        if q.sinks != o.sinks or (with_ret and (q.ret if q.ret is not None else var("const:None")) != (o.ret if o.ret is not None else var("const:None"))):
            raise TranslationError(f"{where}: under the options [{' & '.join(o.conds)}] a branch on a run-time value decides "
                                   f"what is added to a bucket / returned (early return before the bucket is reached?)")
    return merged


def body_of(fn):
    b = list(fn.body)
    if b and isinstance(b[0], ast.Expr) and isinstance(b[0].value, ast.Constant) and isinstance(b[0].value.value, str):
        b = b[1:]
    return b


def find_function(tree: ast.Module, qn: str):
    for name, fn in _functions(tree):
        if name == qn:
            return fn
    return None


def model_rows(sym: Sym, rel: str, qn: str, fn) -> list[dict]:
    params = _params(fn)
    if not params:
        raise TranslationError(f"{rel}:{qn}: no detector parameter")
    env = {params[0]: DET}
    psub = {}
    for nm in params[1:]:
        env[nm] = var(nm)
        psub[nm] = ast.Name(id=nm, ctx=ast.Load())
    fr = Frame(rel, fn, 0)
    sym.call_names = {}
    outs = merge_paths([o for o in sym.block(fr, [Path_(env, psub)], body_of(fn)) if not o.raised], f"{rel}:{qn}")
    rows = []
    for o in outs:
        if len(o.sinks) != 1:
            raise TranslationError(f"{rel}:{qn}: path [{' & '.join(o.conds)}] adds to {len(o.sinks)} buckets (expected 1)")
        kind, v = o.sinks[0]
        if v == DET:
            raise TranslationError(f"{rel}:{qn}: the detector object is added to a bucket")
        rows.append(dict(model=f"{rel}:{qn}", conds=list(o.conds), sink=kind, expr=v))
    if not rows:
        raise TranslationError(f"{rel}:{qn}: no path reaches a detector bucket")
    return rows


def linear_rows(sym: Sym, key: str, spec: dict) -> tuple[list[dict], dict]:
    """Rows of one conversion / collection model: the expression added to the sink bucket, over the source bucket's
    array (TStep in the expression) and step-independent values."""
    rel, qn = key.split(":")
    fn = find_function(sym.trees.get(rel) or parse(sym.repo, rel), qn)
    if fn is None:
        raise TranslationError(f"{key}: function not found")
    params = _params(fn)[1:]
    if fn.args.vararg or fn.args.kwarg:
        raise TranslationError(f"{key}: *args/**kwargs in a conversion model")
    if set(params) != set(spec["params"]):
        raise TranslationError(f"{key}: parameters changed (new: {sorted(set(params) - set(spec['params']))}, "
                               f"gone: {sorted(set(spec['params']) - set(params))}); classify them in translator/c17.py")
    sym.mode = dict(src=spec["src"], sink=spec["sink"])
    try:
        rows = model_rows(sym, rel, qn, fn)
    finally:
        sym.mode = None
    for r in rows:
        if r["sink"] != spec["sink"]:
            raise TranslationError(f"{key}: path [{path_label(r['conds'])}] adds to '{r['sink']}' instead of '{spec['sink']}'")
        if r["expr"] == SRC:
            raise TranslationError(f"{key}: the bucket object itself is added to '{spec['sink']}'")
        r["src"] = spec["src"]
        r["identity"] = bool(spec["identity"])
        r["random"] = any(a[0] == "bad" and a[1] == "random" for a in atoms(r["expr"]))
        if r["random"] and not any(cd in r["conds"] for cd in spec["random_when"]):
            raise TranslationError(f"{key}: path [{path_label(r['conds'])}] draws random numbers outside the noise "
                                   f"options {spec['random_when']}")
    return rows, dict(kind=spec["kind"], params=params, defaults=defaults_of(fn), expr=True)


def defaults_of(fn) -> dict:
    """Literal defaults of the model function's parameters (for evaluating the option conditions)."""
    a = fn.args
    names = [x.arg for x in a.posonlyargs + a.args]
    out = {}
    for nm, d in list(zip(names[len(names) - len(a.defaults):], a.defaults)) + \
            [(x.arg, d) for x, d in zip(a.kwonlyargs, a.kw_defaults) if d is not None]:
        try:
            out[nm] = ast.literal_eval(d)
        except (ValueError, SyntaxError):
            out[nm] = None
    return out


# ------------------------------------------------------------------------------------------ 3. Readout guards

READOUT_FILE, READOUT_CLASS = "pyxel/exposure/readout.py", "Readout"

RP_FILE, RP_CLASS = "pyxel/detectors/readout_properties.py", "ReadoutProperties"


def readout_guards(repo: Path, file=None, cls=None, local_aliases=False) -> dict:
    """The refusals of Readout.__init__ (or, with file / cls, of the detector's ReadoutProperties.__init__, which
    every run goes through again) that concern the schedule: which of the three guards are present on EVERY accepting
    path of the constructor, and whether an empty `times` is refused.  Read by paths (translator/c17_guards.py): helper
    calls followed, aliases substituted, guard clauses == if/elif chains, match == if/elif, inverted tests.  A test on the
    times / start time that is not the passing side of a known refusal: fail closed."""
    from . import c17_guards

    r = c17_guards.readout_guards(Path(repo), file or READOUT_FILE, cls or READOUT_CLASS, bool(local_aliases))
    return dict(guards=r["guards"], empty_refused=r["empty_refused"])


# ------------------------------------------------------------------------------------------ rendering


def q_lit(f: Fraction) -> str:
    return f"({f.numerator} # {f.denominator})" if f.numerator >= 0 else f"(-{-f.numerator} # {f.denominator})"


def s_lit(s: str) -> str:
    return '"' + s.replace('"', "'").replace("\n", " ") + '"'


BADK = {"clock": "BClock", "state": "BState", "random": "BRandom", "nonlin": "BNonlin"}


def e_lit(v) -> str:
    t = v[0]
    if t == "step":
        return "TStep"
    if t == "var":
        return f"(TVar {s_lit(v[1])})"
    if t == "bad":
        return f"(TBad {BADK[v[1]]} {s_lit(v[2])})"
    if t == "const":
        return f"(TConst {q_lit(v[1])})"
    if t == "neg":
        return f"(TNeg {e_lit(v[1])})"
    if t in ("add", "sub", "mul", "div", "pow"):
        return f"(T{t.capitalize()} {e_lit(v[1])} {e_lit(v[2])})"
    raise TranslationError(f"value that is not an expression reaches a bucket: {v!r}"[:200])


def e_json(v):
    if v[0] == "const":
        return ["const", str(v[1])]
    return [v[0]] + [e_json(a) if isinstance(a, tuple) else a for a in v[1:]]


def e_unjson(j):
    if j[0] == "const":
        return ("const", Fraction(j[1]))
    return tuple([j[0]] + [e_unjson(a) if isinstance(a, list) else a for a in j[1:]])


def path_label(conds) -> str:
    return " & ".join(conds) if conds else "(always)"


def render(st: dict) -> str:
    L = [HEADER,
         "(* C17: time readers of pyxel/models and the increment expressions of the time-integrating models *)",
         "From Coq Require Import QArith List String.",
         "From PyxelV Require Import Model.FluxExpr Model.FluxDet.",
         "Import ListNotations.", "Open Scope string_scope.", "Open Scope Q_scope.", ""]
    L.append("(* every function under pyxel/models that reads the exposure clock (or has a time_scale parameter) *)")
    L.append("Definition time_readers : list (string * list string) := [")
    L.append(";\n".join(f"  ({s_lit(k)}, [{'; '.join(s_lit(a) for a in v)}])" for k, v in sorted(st["readers"].items())))
    L.append("].\n")
    L.append("(* classified as time-integrating: exercised by the check; the ones listed in expr_models have rows below *)")
    L.append("Definition integrating_models : list string := [" + "; ".join(s_lit(k) for k in st["integrating"]) + "].")
    L.append("Definition expr_models : list string := [" + "; ".join(s_lit(k) for k in st["expr_models"]) + "].")
    L.append("(* classified as not a deterministic flux integrator, with the reason *)")
    L.append("Definition excluded_models : list (string * string) := [")
    L.append(";\n".join(f"  ({s_lit(k)}, {s_lit(v)})" for k, v in st["excluded"]))
    L.append("].\n")
    L.append("(* the schedule refusals of Readout.__init__ *)")
    L.append("Definition readout_guards : list sguard := [" + "; ".join(st["readout"]["guards"]) + "].")
    L.append(f"Definition readout_empty_refused : bool := {'true' if st['readout']['empty_refused'] else 'false'}.")
    L.append("(* the same refusals in ReadoutProperties.__init__, through which Detector.set_readout passes every run *)")
    L.append("Definition detector_readout_guards : list sguard := [" + "; ".join(st["readout_rp"]["guards"]) + "].\n")
    L.append("Definition rate_table : list rate_row := [")
    rows = []
    for r in st["rows"]:
        rows.append(f"  {{| rr_model := {s_lit(r['model'])}; rr_path := {s_lit(path_label(r['conds']))};\n"
                    f"     rr_sink := {'SPhoton' if r['sink'] == 'photon' else 'SCharge'};\n"
                    f"     rr_expr := {e_lit(r['expr'])} |}}")
    L.append(";\n".join(rows))
    L.append("].\n")
    L.append("(* the conversion / collection models: what they add to their sink bucket, over the content of their source\n"
             "   bucket (TStep stands for that content here) *)")
    L.append("Definition conv_table : list conv_row := [")
    crows = []
    sk = {"photon": "BkPhoton", "charge": "BkCharge", "pixel": "BkPixel"}
    for r in st["conv_rows"]:
        crows.append(f"  {{| cr_model := {s_lit(r['model'])}; cr_path := {s_lit(path_label(r['conds']))};\n"
                     f"     cr_src := {sk[r['src']]}; cr_sink := {sk[r['sink']]}; cr_identity := {'true' if r['identity'] else 'false'};\n"
                     f"     cr_expr := {e_lit(r['expr'])} |}}")
    L.append(";\n".join(crows))
    L.append("].")
    L.append("Definition conv_models : list string := [" + "; ".join(s_lit(k) for k in sorted(st["conv_models"])) + "].\n")
    L.append(life.render_life(st["family"], st["loops"]))
    return "\n".join(L) + "\n"


# ------------------------------------------------------------------------------------------ entry points


def translate_struct(repo: Path) -> dict:
    repo = Path(repo)
    readers = scan_time_readers(repo)
    unknown = sorted(set(readers) - set(CLASSIFICATION))
    if unknown:
        raise TranslationError("model function(s) read the exposure clock but are not classified as time-integrating "
                               "or excluded (translator/c17.py CLASSIFICATION): " + ", ".join(unknown))
    # an excluded entry whose function disappeared or stopped reading the clock is harmless (kept in the table);
    # an integrating model must still exist - whether it still uses the time step is decided by its rows below
    sym = Sym(repo)
    st = dict(readout=readout_guards(repo), readout_rp=readout_guards(repo, RP_FILE, RP_CLASS, True), readers=readers, integrating=[], expr_models=[], excluded=[], rows=[], models={},
              family=life.detector_family(repo), loops=life.readout_loops(repo))
    for key in sorted(CLASSIFICATION):
        c = CLASSIFICATION[key]
        if c["cls"] == EXCLUDED:
            if key in readers:
                st["excluded"].append((key, c["reason"]))
            continue
        rel, qn = key.split(":")
        fn = find_function(sym.trees.get(rel) or parse(repo, rel), qn)
        if fn is None:
            raise TranslationError(f"{key}: function not found")
        params = _params(fn)[1:]
        if fn.args.vararg or fn.args.kwarg:
            raise TranslationError(f"{key}: *args/**kwargs in a time-integrating model")
        if set(params) != set(c["params"]):
            raise TranslationError(
                f"{key}: parameters changed (new: {sorted(set(params) - set(c['params']))}, "
                f"gone: {sorted(set(c['params']) - set(params))}); classify them in translator/c17.py")
        st["integrating"].append(key)
        st["models"][key] = dict(kind=c["kind"], params=params, defaults=defaults_of(fn), expr=c["expr"])
        if not c["expr"]:
            continue
        st["expr_models"].append(key)
        rows = model_rows(sym, rel, qn, fn)
        for r in rows:
            is_random = any(a[0] == "bad" and a[1] == "random" for a in atoms(r["expr"]))
            if is_random and not any(cd in r["conds"] for cd in c["random_when"]):
                raise TranslationError(f"{key}: path [{path_label(r['conds'])}] draws random numbers outside the "
                                       f"noise options {c['random_when']}")
            r["random"] = is_random
        st["rows"] += rows
    st["conv_rows"], st["conv_models"] = [], {}
    for key in sorted(LINEAR_MODELS):
        rows, info = linear_rows(sym, key, LINEAR_MODELS[key])
        st["conv_rows"] += rows
        st["conv_models"][key] = info
    return st


def translate(repo: Path) -> str:
    return render(translate_struct(repo))


def struct_to_json(st: dict) -> str:
    d = dict(st)
    d["rows"] = [dict(r, expr=e_json(r["expr"])) for r in st["rows"]]
    d["conv_rows"] = [dict(r, expr=e_json(r["expr"])) for r in st["conv_rows"]]
    return json.dumps(d, indent=1, sort_keys=True)


def struct_from_json(s: str) -> dict:
    d = json.loads(s)
    d["rows"] = [dict(r, expr=e_unjson(r["expr"])) for r in d["rows"]]
    d["conv_rows"] = [dict(r, expr=e_unjson(r["expr"])) for r in d["conv_rows"]]
    d["excluded"] = [tuple(x) for x in d["excluded"]]
    return d


_FB = Path(__file__).with_name("c17_fallback.json")


def fallback_struct() -> dict:
    """The table of the unchanged tree (used by the failing-input search when translation fails)."""
    return struct_from_json(_FB.read_text())


def __getattr__(name):
    if name == "FALLBACK":
        return render(fallback_struct())
    raise AttributeError(name)


if __name__ == "__main__":
    import sys

    rp = Path(sys.argv[1] if len(sys.argv) > 1 else "/repo")
    s = translate_struct(rp)
    if "--write-fallback" in sys.argv:
        _FB.write_text(struct_to_json(s))
    print(render(s))
