"""C12: range guards of the detector classes and the exactly-one checks of the configuration loader,
as Gallina data (Gen_C12.v).  Fails closed on every shape not listed here.

Extracted
---------
* for every constructor parameter of Geometry, Characteristics, Environment, APDCharacteristics:
  the guard of the constructor and the guard of the property setter, each as
  (precondition kind, list of raise-clauses, else-reject):
      if not (lo <= x <= hi): raise            -> PAlways   [RaiseUnlessAll [x >= lo; x <= hi]]
      if x is not None and not (...): raise    -> PNotNone  ...
      if x and not (...): raise                -> PTruthy   ...
      if isinstance(x, int | float) and not (...): raise -> PIsNumber ...
      if x <= 0: raise / if np.min(x) < a or np.max(x) > b: raise -> [RaiseIfAny [...]]
      if len(x) != 2: raise / if x and not len(x) == 2: raise     -> [RaiseUnlessLen 2]
      if <presence test on x>: <the same shapes nested>            -> precondition from the enclosing test
      if isinstance(x, int | float): ... elif not isinstance(x, C): raise -> else-reject
  Every `if` of a constructor/setter that contains an ordering or length comparison must be one of these;
  `raise` under pure presence logic (is None / is not None) is not a range guard and is skipped.
  A parameter that is re-bound before / between its checks (`row = int(row)`) is refused (fail closed).
* for the same parameters, WHAT IS STORED of an accepted value (`self._<field> = <expr>`), constructor and setter:
      self._f = f | self._f: T = f | a local holding None / the re-packed elements of f     -> StId
      self._f = float(f) | float(f) if f is not None else None | float(f) if isinstance(f, int | float) else f
                                                                                             -> StFloatIf <pre>
      self._f = int(f) (also inside a conditional expression)                                -> StInt
      no such assignment                                                                     -> StNone
  any other expression that mentions the parameter fails closed; an assignment that does not mention it (a value
  computed from the other parameters when this one is not given) is skipped.
* the geometry subclasses (CCD/CMOS/MKID/APD) add nothing to Geometry (docstring-only bodies);
* `_build_configuration` and `Configuration.__post_init__`: the key lists, the count expression — HOW a section is
  counted: `key in dct` (presence) / `dct.get(key) is not None` / `bool(dct.get(key))`, for the built objects
  `el is not None`; as `sum(<test> for key in keys)`, `sum(1 for key in keys if <test>)` or
  `len([key for key in keys if <test>])` — and the comparison `if count != 1: raise`; a count computed in any other
  way (a helper function ...) fails closed; the if/elif dispatch tests `"k" in dct` and uses the same key for the
  test, the builder's argument and the keyword; to_ccd/to_cmos/to_mkid_array/to_apd feed each section to the builder
  of the same name; the geometry/characteristics builders pass the section unchanged (`Cls(**dct)`).
"""
from __future__ import annotations

import ast
from pathlib import Path

from .common import HEADER, body_no_doc, fail, find_func, parse
from .c12_norm import normalize

CLASSES = [
    ("pyxel/detectors/geometry.py", "Geometry", "CGeometry"),
    ("pyxel/detectors/characteristics.py", "Characteristics", "CCharacteristics"),
    ("pyxel/detectors/environment.py", "Environment", "CEnvironment"),
    ("pyxel/detectors/apd/apd_characteristics.py", "APDCharacteristics", "CAPDCharacteristics"),
]
GEOMETRY_SUBCLASSES = [
    ("pyxel/detectors/ccd/ccd_geometry.py", "CCDGeometry"),
    ("pyxel/detectors/cmos/cmos_geometry.py", "CMOSGeometry"),
    ("pyxel/detectors/mkid/mkid_geometry.py", "MKIDGeometry"),
    ("pyxel/detectors/apd/apd_geometry.py", "APDGeometry"),
]

FLIP = {"OLt": "OGt", "OLe": "OGe", "OGt": "OLt", "OGe": "OLe"}
OPS = {ast.Lt: "OLt", ast.LtE: "OLe", ast.Gt: "OGt", ast.GtE: "OGe"}


# ------------------------------------------------------------------------------------------ small recognisers


def q_of_const(node):
    """exact rational (num, den) of a numeric literal, else None"""
    neg = False
    if isinstance(node, ast.UnaryOp) and isinstance(node.op, ast.USub):
        neg, node = True, node.operand
    if isinstance(node, ast.Constant) and isinstance(node.value, (int, float)) and not isinstance(node.value, bool):
        v = node.value
        if isinstance(v, float):
            if v != v or v in (float("inf"), float("-inf")):
                return None
            n, d = v.as_integer_ratio()
        else:
            n, d = v, 1
        return (-n if neg else n, d)
    return None


def is_name(node, name) -> bool:
    """`name`, or np.min(name) / np.max(name) (the scalar itself for a scalar)"""
    if isinstance(node, ast.Name) and node.id == name:
        return True
    if (isinstance(node, ast.Call) and ast.unparse(node.func) in ("np.min", "np.max", "numpy.min", "numpy.max")
            and len(node.args) == 1 and not node.keywords):
        return is_name(node.args[0], name)
    return False


def is_len_of(node, name) -> bool:
    return (isinstance(node, ast.Call) and isinstance(node.func, ast.Name) and node.func.id == "len"
            and len(node.args) == 1 and isinstance(node.args[0], ast.Name) and node.args[0].id == name)


def mentions(node, name) -> bool:
    return any(isinstance(n, ast.Name) and n.id == name for n in ast.walk(node))


def has_range_atom(node) -> bool:
    """does the expression contain an ordering comparison or a len() comparison"""
    for n in ast.walk(node):
        if isinstance(n, ast.Compare):
            if any(isinstance(o, (ast.Lt, ast.LtE, ast.Gt, ast.GtE)) for o in n.ops):
                return True
            if any(isinstance(x, ast.Call) and isinstance(x.func, ast.Name) and x.func.id == "len"
                   for x in [n.left] + n.comparators):
                return True
    return False


def contains_raise(stmts) -> bool:
    return any(isinstance(n, ast.Raise) for s in stmts for n in ast.walk(s))


def chain_atoms(cmp: ast.Compare, name):
    """`lo <= x <= hi`, `x > 0.0`, `4 <= x` -> list of (op, (num, den)) with x on the left; None if another shape"""
    terms = [cmp.left] + list(cmp.comparators)
    atoms = []
    for l, o, r in zip(terms, cmp.ops, terms[1:]):
        op = OPS.get(type(o))
        if op is None:
            return None
        if is_name(l, name) and q_of_const(r) is not None:
            atoms.append((op, q_of_const(r)))
        elif is_name(r, name) and q_of_const(l) is not None:
            atoms.append((FLIP[op], q_of_const(l)))
        else:
            return None
    return atoms


def len_clause(node, name):
    """len(x) != k  |  not len(x) == k  -> k"""
    if isinstance(node, ast.UnaryOp) and isinstance(node.op, ast.Not):
        c = node.operand
        if (isinstance(c, ast.Compare) and len(c.ops) == 1 and isinstance(c.ops[0], ast.Eq)
                and is_len_of(c.left, name) and isinstance(c.comparators[0], ast.Constant)
                and isinstance(c.comparators[0].value, int)):
            return c.comparators[0].value
        return None
    if (isinstance(node, ast.Compare) and len(node.ops) == 1 and isinstance(node.ops[0], ast.NotEq)
            and is_len_of(node.left, name) and isinstance(node.comparators[0], ast.Constant)
            and isinstance(node.comparators[0].value, int)):
        return node.comparators[0].value
    return None


PROJECT_CLASSES: set[str] = set()    # classes defined in the module being translated (set by extract_class)
STORES: dict[str, list] = {}         # class name -> [(parameter, constructor storeop, setter storeop)] (set by extract_class)


def is_not_project_instance(node, name) -> bool:
    """`not isinstance(x, C)` with C a class defined in the same module (WavelengthHandling ...): no value of the
    modelled domain (None, numbers, NaN, +-inf, sequences) is an instance of it, so the conjunct is True on the domain"""
    if isinstance(node, ast.UnaryOp) and isinstance(node.op, ast.Not):
        c = node.operand
        return (isinstance(c, ast.Call) and isinstance(c.func, ast.Name) and c.func.id == "isinstance"
                and len(c.args) == 2 and isinstance(c.args[0], ast.Name) and c.args[0].id == name
                and isinstance(c.args[1], ast.Name) and c.args[1].id in PROJECT_CLASSES)
    return False


def presence_kind(node, name):
    """x is not None -> PNotNone ; x -> PTruthy ; isinstance(x, int | float) -> PIsNumber ; else None
    (`<presence> and not isinstance(x, <class of this module>)` counts as <presence>)"""
    if isinstance(node, ast.BoolOp) and isinstance(node.op, ast.And):
        rest = [v for v in node.values if not is_not_project_instance(v, name)]
        if len(rest) == 1 and len(rest) < len(node.values):
            return presence_kind(rest[0], name)
        return None
    if (isinstance(node, ast.Compare) and len(node.ops) == 1 and isinstance(node.ops[0], ast.IsNot)
            and isinstance(node.left, ast.Name) and node.left.id == name
            and isinstance(node.comparators[0], ast.Constant) and node.comparators[0].value is None):
        return "PNotNone"
    if isinstance(node, ast.Name) and node.id == name:
        return "PTruthy"
    if (isinstance(node, ast.Call) and isinstance(node.func, ast.Name) and node.func.id == "isinstance"
            and len(node.args) == 2 and isinstance(node.args[0], ast.Name) and node.args[0].id == name):
        t = ast.unparse(node.args[1]).replace(" ", "")
        if t in ("int|float", "float|int", "(int,float)", "(float,int)"):
            return "PIsNumber"
    return None


def raise_condition(node, name):
    """the part of an `if` test that decides the raise -> clause, or None"""
    k = len_clause(node, name)
    if k is not None:
        return ("RaiseUnlessLen", k)
    if isinstance(node, ast.UnaryOp) and isinstance(node.op, ast.Not) and isinstance(node.operand, ast.Compare):
        at = chain_atoms(node.operand, name)
        return ("RaiseUnlessAll", at) if at else None
    if (isinstance(node, ast.UnaryOp) and isinstance(node.op, ast.Not) and isinstance(node.operand, ast.BoolOp)
            and isinstance(node.operand.op, ast.And)):
        # not (np.min(x) >= lo and np.max(x) <= hi)
        ats = []
        for v in node.operand.values:
            if not isinstance(v, ast.Compare):
                return None
            at = chain_atoms(v, name)
            if not at:
                return None
            ats += at
        return ("RaiseUnlessAll", ats)
    if isinstance(node, ast.Compare) and len(node.ops) == 1:
        at = chain_atoms(node, name)
        return ("RaiseIfAny", at) if at else None
    if isinstance(node, ast.BoolOp) and isinstance(node.op, ast.Or):
        ats = []
        for v in node.values:
            if not (isinstance(v, ast.Compare) and len(v.ops) == 1):
                return None
            at = chain_atoms(v, name)
            if not at:
                return None
            ats += at
        return ("RaiseIfAny", ats)
    return None


def only_raises(body) -> bool:
    return len(body) == 1 and isinstance(body[0], ast.Raise)


# ------------------------------------------------------------------------------------------ guard extraction


class GuardAcc:
    def __init__(self):
        self.pre = None
        self.clauses = []
        self.else_reject = False

    def add(self, node, pre, clause):
        if self.pre is None:
            self.pre = pre
        elif self.pre != pre:
            fail(node, f"two range checks of one field under different preconditions ({self.pre} / {pre})")
        self.clauses.append(clause)


def is_sequence_typecheck(test, name) -> bool:
    """not isinstance(x, Sequence): subsumed by the length clause (len() of a non-sequence raises as well)"""
    if isinstance(test, ast.UnaryOp) and isinstance(test.op, ast.Not):
        c = test.operand
        return (isinstance(c, ast.Call) and isinstance(c.func, ast.Name) and c.func.id == "isinstance"
                and len(c.args) == 2 and isinstance(c.args[0], ast.Name) and c.args[0].id == name)
    return False


def walk_guards(stmts, names, acc: dict, ctx: dict):
    """names: the parameters whose guards are collected; ctx: name -> precondition established by enclosing ifs."""
    for st in stmts:
        if isinstance(st, ast.If):
            handle_if(st, names, acc, ctx)
        elif isinstance(st, (ast.Assign, ast.AnnAssign, ast.AugAssign, ast.Expr, ast.Pass, ast.Return,
                             ast.Import, ast.ImportFrom)):
            for n in ast.walk(st):
                if isinstance(n, (ast.Name,)) and isinstance(n.ctx, ast.Store) and n.id in names:
                    fail(st, f"parameter {n.id!r} is re-bound: its checks and its store would not speak about the "
                             f"value that was given")
            continue
        elif isinstance(st, ast.Raise):
            if not ctx.get("__presence__"):
                fail(st, "unconditional raise")
        else:
            if contains_raise([st]) or has_range_atom(st):
                fail(st, "unsupported statement around a range check")


def handle_if(st: ast.If, names, acc, ctx):
    test = st.test
    if has_range_atom(test):
        # a range guard: [precondition and] raise-condition, body = raise
        conj = list(test.values) if isinstance(test, ast.BoolOp) and isinstance(test.op, ast.And) else [test]
        cond = conj[-1]
        pres = conj[:-1]
        owner = [n for n in names if mentions(cond, n)]
        if len(owner) != 1:
            fail(st, "range check must speak about exactly one parameter")
        n = owner[0]
        cl = raise_condition(cond, n)
        if cl is None:
            fail(st, "unsupported range check")
        if not only_raises(st.body) or st.orelse:
            fail(st, "a range check must be `if ...: raise ...` without else")
        pres = [q for q in pres if not (len(pres) > 1 and is_not_project_instance(q, n))]
        if len(pres) > 1:
            fail(st, "more than one precondition")
        if pres:
            pk = presence_kind(pres[0], n)
            if pk is None:
                fail(st, "unsupported precondition")
            if ctx.get(n) not in (None, pk):
                fail(st, "precondition differs from the enclosing test")
        else:
            pk = ctx.get(n, "PAlways")
        for other, k in ctx.items():
            if other not in (n, "__presence__") and k is not None:
                fail(st, f"range check of {n} only runs under a test on {other}")
        acc[n].add(st, pk, cl)
        return
    # no ordering/length comparison in the test: presence / type logic
    single = None
    for n in names:
        pk = presence_kind(test, n)
        if pk is not None:
            single = (n, pk)
    if single is not None:
        n, pk = single
        if ctx.get(n) not in (None, pk):
            fail(st, "nested presence tests of different kinds")
        inner = dict(ctx)
        inner[n] = pk
        inner["__presence__"] = True
        walk_guards(st.body, names, acc, inner)
        # else branch
        if st.orelse:
            if (pk == "PIsNumber" and len(st.orelse) == 1 and isinstance(st.orelse[0], ast.If)
                    and is_sequence_typecheck(st.orelse[0].test, n) and only_raises(st.orelse[0].body)
                    and not st.orelse[0].orelse):
                acc[n].else_reject = True
                if acc[n].pre is None:
                    acc[n].pre = "PIsNumber"
            else:
                if any(has_range_atom(s) for s in st.orelse):
                    fail(st, "range check in the else branch of a presence test")
                o = dict(ctx)
                o["__presence__"] = True
                walk_guards(st.orelse, names, acc, o)
        return
    for n in names:
        if is_sequence_typecheck(test, n) and only_raises(st.body) and not st.orelse:
            return  # subsumed by the length clause; checked by the caller that one exists
    # other presence logic (x is None, combinations): no range check may hide below it
    for branch in (st.body, st.orelse):
        for s in branch:
            if has_range_atom(s):
                fail(st, "range check below an unsupported test")
    inner = dict(ctx)
    inner["__presence__"] = True
    walk_guards(st.body, names, acc, inner)
    walk_guards(st.orelse, names, acc, inner)


def q_lit(q) -> str:
    n, d = q
    return f"(Qmake ({n}) {d})"


def clause_lit(cl) -> str:
    kind, arg = cl
    if kind == "RaiseUnlessLen":
        return f"RaiseUnlessLen {arg}"
    ats = "; ".join(f"Atom {op} {q_lit(q)}" for op, q in arg)
    return f"{kind} [{ats}]"


def guard_lit(g: GuardAcc) -> str:
    pre = g.pre or "PAlways"
    cls = "; ".join(clause_lit(c) for c in g.clauses)
    return f"Guard {pre} [{cls}] {'true' if g.else_reject else 'false'}"


# ------------------------------------------------------------------------------------------ what is stored


def _is_call_of(node, fname, pname) -> bool:
    return (isinstance(node, ast.Call) and isinstance(node.func, ast.Name) and node.func.id == fname
            and len(node.args) == 1 and not node.keywords and isinstance(node.args[0], ast.Name)
            and node.args[0].id == pname)


def _is_none(node) -> bool:
    return isinstance(node, ast.Constant) and node.value is None


def _self_attr(node):
    """self.<attr> -> attr"""
    if isinstance(node, ast.Attribute) and isinstance(node.value, ast.Name) and node.value.id == "self":
        return node.attr
    return None


def _local_repack_ok(fn, var, pname) -> bool:
    """every assignment to the local `var` is None, the parameter itself, tuple(p)/list(p), or the tuple/list of the names
    that were unpacked from the parameter (`a, b = p`), in that order"""
    unpack = [e.id for e in n_unpack_order(fn, pname)]
    found = False
    for n in ast.walk(fn):
        if not isinstance(n, (ast.Assign, ast.AnnAssign)):
            continue
        nm, val = assigned(n)
        if nm != var:
            continue
        found = True
        if (_is_none(val) or (isinstance(val, ast.Name) and val.id == pname)
                or _is_call_of(val, "tuple", pname) or _is_call_of(val, "list", pname)):
            continue
        if (isinstance(val, (ast.Tuple, ast.List)) and unpack and all(isinstance(e, ast.Name) for e in val.elts)
                and [e.id for e in val.elts] == unpack):
            continue
        return False
    return found


def n_unpack_order(fn, pname):
    """the names of `a, b = p`, in order (first such statement)"""
    for n in ast.walk(fn):
        if (isinstance(n, ast.Assign) and len(n.targets) == 1 and isinstance(n.targets[0], (ast.Tuple, ast.List))
                and isinstance(n.value, ast.Name) and n.value.id == pname
                and all(isinstance(e, ast.Name) for e in n.targets[0].elts)):
            return list(n.targets[0].elts)
    return []


def store_kind(expr, pname, fn):
    """Gallina storeop of one assigned expression that mentions the parameter; None = it does not mention it"""
    if isinstance(expr, ast.Name) and expr.id != pname and _local_repack_ok(fn, expr.id, pname):
        return "StId"
    if not mentions(expr, pname):
        return None
    if isinstance(expr, ast.Name):
        return "StId"
    if _is_call_of(expr, "float", pname):
        return "(StFloatIf PAlways)"
    if _is_call_of(expr, "int", pname):
        return "StInt"
    if _is_call_of(expr, "tuple", pname) or _is_call_of(expr, "list", pname):
        return "StId"
    if isinstance(expr, ast.IfExp):
        pk = presence_kind(expr.test, pname)
        if pk is None:
            fail(expr, f"stored value of {pname!r}: unsupported condition")
        b, o = expr.body, expr.orelse
        o_same = isinstance(o, ast.Name) and o.id == pname
        o_none = _is_none(o) and pk == "PNotNone"       # `x if x else None` would turn 0 into None
        if not (o_same or o_none):
            fail(expr, f"stored value of {pname!r}: unsupported else-value")
        if _is_call_of(b, "int", pname):
            return "StInt"
        if _is_call_of(b, "float", pname):
            return f"(StFloatIf {pk})"
        if isinstance(b, ast.Name) and b.id == pname:
            return "StId"
        fail(expr, f"stored value of {pname!r}: unsupported conversion")
    fail(expr, f"stored value of {pname!r}: unsupported expression `{ast.unparse(expr)[:60]}`")


def extract_store(fn, pname, field) -> str:
    """what `fn` keeps of parameter `pname` in self._<field>"""
    kinds = []
    for n in ast.walk(fn):
        if isinstance(n, ast.Assign):
            targets, val = n.targets, n.value
        elif isinstance(n, ast.AnnAssign) and n.value is not None:
            targets, val = [n.target], n.value
        elif isinstance(n, ast.AugAssign):
            if _self_attr(n.target) == "_" + field:
                fail(n, f"self._{field} is updated in place")
            continue
        else:
            continue
        for t in targets:
            if _self_attr(t) == "_" + field:
                k = store_kind(val, pname, fn)
                if k is not None:
                    kinds.append(k)
    if not kinds:
        return "StNone"
    if len(set(kinds)) != 1:
        fail(fn, f"self._{field} is stored in different ways: {sorted(set(kinds))}")
    return kinds[0]


def class_node(tree, name) -> ast.ClassDef:
    c = [n for n in tree.body if isinstance(n, ast.ClassDef) and n.name == name]
    if len(c) != 1:
        fail(None, f"class {name}: found {len(c)}")
    return c[0]


def extract_class(repo: Path, rel: str, cname: str):
    tree = parse(repo, rel)
    cn = class_node(tree, cname)
    PROJECT_CLASSES.clear()
    PROJECT_CLASSES.update(n.name for n in tree.body if isinstance(n, ast.ClassDef))
    init = find_func(tree, "__init__", cname)
    if init.args.vararg or init.args.kwarg or init.args.posonlyargs:
        fail(init, "constructor signature")
    init = normalize(repo, rel, tree, init, cname)       # helpers inlined, aliases substituted, match -> if ... (c12_norm)
    params = [a.arg for a in init.args.args[1:]] + [a.arg for a in init.args.kwonlyargs]
    acc = {p: GuardAcc() for p in params}
    walk_guards(body_no_doc(init), params, acc, {})
    setters = {}
    setter_fns = {}
    for fn in cn.body:
        if not isinstance(fn, ast.FunctionDef):
            continue
        decs = [ast.unparse(d) for d in fn.decorator_list]
        if any(d.endswith(".setter") for d in decs):
            if decs != [f"{fn.name}.setter"] or len(fn.args.args) != 2:
                fail(fn, "setter shape")
            fn = normalize(repo, rel, tree, fn, cname)
            v = fn.args.args[1].arg
            a = {v: GuardAcc()}
            walk_guards(body_no_doc(fn), [v], a, {})
            if fn.name in setters:
                fail(fn, "two setters")
            setters[fn.name] = a[v]
            setter_fns[fn.name] = fn
    rows = []
    for p in params:
        rows.append((p, guard_lit(acc[p]), guard_lit(setters[p]) if p in setters else "read_only"))
    extra = sorted(set(setters) - set(params))
    STORES[cname] = [(p, extract_store(init, p, p),
                      extract_store(setter_fns[p], setter_fns[p].args.args[1].arg, p) if p in setter_fns else "StNone")
                     for p in params]
    return rows, extra


def check_plain_subclass(repo: Path, rel: str, cname: str):
    tree = parse(repo, rel)
    cn = class_node(tree, cname)
    if [ast.unparse(b) for b in cn.bases] != ["Geometry"]:
        fail(cn, "geometry subclass bases")
    for st in cn.body:
        if isinstance(st, ast.Pass):
            continue
        if isinstance(st, ast.Expr) and isinstance(st.value, ast.Constant) and isinstance(st.value.value, str):
            continue
        fail(st, f"{cname} adds behaviour to Geometry (not modelled)")


# ------------------------------------------------------------------------------------------ configuration loader


def str_list(node):
    if isinstance(node, (ast.List, ast.Tuple)) and all(
            isinstance(e, ast.Constant) and isinstance(e.value, str) for e in node.elts):
        return [e.value for e in node.elts]
    return None


def self_attr_list(node):
    """[self.a, self.b, ...] -> [a, b, ...]"""
    if isinstance(node, (ast.List, ast.Tuple)) and node.elts and all(
            isinstance(e, ast.Attribute) and isinstance(e.value, ast.Name) and e.value.id == "self" for e in node.elts):
        return [e.attr for e in node.elts]
    return None


def assigned(st):
    """(target name, value) of `x = v` / `x: T = v`"""
    if isinstance(st, ast.Assign) and len(st.targets) == 1 and isinstance(st.targets[0], ast.Name):
        return st.targets[0].id, st.value
    if isinstance(st, ast.AnnAssign) and isinstance(st.target, ast.Name) and st.value is not None:
        return st.target.id, st.value
    return None, None


CNT = {ast.NotEq: "CNe", ast.Lt: "CLt", ast.Gt: "CGt", ast.Eq: "CEq"}


def _is_dct_get(node, var) -> bool:
    """dct.get(var)"""
    return (isinstance(node, ast.Call) and isinstance(node.func, ast.Attribute) and node.func.attr == "get"
            and isinstance(node.func.value, ast.Name) and node.func.value.id == "dct" and len(node.args) == 1
            and not node.keywords and isinstance(node.args[0], ast.Name) and node.args[0].id == var)


def _is_not_none(node, inner) -> bool:
    return (isinstance(node, ast.Compare) and len(node.ops) == 1 and isinstance(node.ops[0], ast.IsNot)
            and inner(node.left) and isinstance(node.comparators[0], ast.Constant) and node.comparators[0].value is None)


def count_method(test, var: str, mode: str):
    """HOW one section is counted -> CMPresent | CMNotNone | CMTruthy | None (unknown)
    mode 'keys' : var in dct | dct.get(var) is not None | dct.get(var) | bool(dct.get(var))
    mode 'attrs': var is not None                                   (var ranges over the built objects)"""
    is_var = lambda n: isinstance(n, ast.Name) and n.id == var
    if mode == "keys":
        if (isinstance(test, ast.Compare) and len(test.ops) == 1 and isinstance(test.ops[0], ast.In)
                and is_var(test.left) and isinstance(test.comparators[0], ast.Name) and test.comparators[0].id == "dct"):
            return "CMPresent"
        if _is_not_none(test, lambda n: _is_dct_get(n, var)):
            return "CMNotNone"
        if _is_dct_get(test, var):
            return "CMTruthy"
        if (isinstance(test, ast.Call) and isinstance(test.func, ast.Name) and test.func.id == "bool"
                and len(test.args) == 1 and not test.keywords and _is_dct_get(test.args[0], var)):
            return "CMTruthy"
        return None
    if _is_not_none(test, is_var):
        return "CMNotNone"
    return None


def count_expr(val, lists, mode: str):
    """sum(<test> for v in L) | sum([<test> for v in L]) | sum(1 for v in L if <test>) | len([v for v in L if <test>])
    -> (keys of L, method) ; None if `val` is not a counting expression over a known list; fails on an unknown test"""
    if not (isinstance(val, ast.Call) and isinstance(val.func, ast.Name) and val.func.id in ("sum", "len")
            and len(val.args) == 1 and not val.keywords
            and isinstance(val.args[0], (ast.GeneratorExp, ast.ListComp))):
        return None
    g = val.args[0]
    if len(g.generators) != 1 or g.generators[0].is_async or not isinstance(g.generators[0].target, ast.Name):
        fail(val, "count expression")
    gen = g.generators[0]
    var = gen.target.id
    if isinstance(gen.iter, ast.Name) and gen.iter.id in lists:
        keys = lists[gen.iter.id]
    elif str_list(gen.iter) is not None:
        keys = str_list(gen.iter)
    elif self_attr_list(gen.iter) is not None:
        keys = self_attr_list(gen.iter)
    else:
        fail(val, "count expression over an unknown list")
    if val.func.id == "sum" and not gen.ifs:
        test = g.elt
    elif len(gen.ifs) == 1 and (
            (val.func.id == "sum" and isinstance(g.elt, ast.Constant) and g.elt.value == 1 and g.elt.value is not True)
            or (val.func.id == "len" and isinstance(g, ast.ListComp))):
        test = gen.ifs[0]
    else:
        fail(val, "count expression")
    how = count_method(test, var, mode)
    if how is None:
        fail(val, f"sections are counted in an unsupported way: `{ast.unparse(test)[:80]}`")
    return keys, how


def count_checks(fn: ast.FunctionDef, site: str, mode: str):
    """the exactly-one checks of `fn`: [(site, keys, how, op, n)].
    mode 'keys': the sections of the document `dct` ; mode 'attrs': the built objects (a list of self.x).
    Every `if <name> <cmp> <int>: ... raise` must compare a count that was understood (fail closed otherwise)."""
    lists, counts, checks = {}, {}, []
    for st in body_no_doc(fn):
        nm, val = assigned(st)
        if nm is not None:
            sl = str_list(val)
            if sl is not None:
                lists[nm] = sl
                continue
            if self_attr_list(val) is not None:
                lists[nm] = self_attr_list(val)
                continue
            ce = count_expr(val, lists, mode)
            if ce is not None:
                counts[nm] = ce
                continue
            counts.pop(nm, None)       # re-bound to something else: no longer a known count
        if isinstance(st, ast.If):
            t = st.test
            if not (isinstance(t, ast.Compare) and len(t.ops) == 1):
                continue
            c = t.comparators[0]
            is_int = isinstance(c, ast.Constant) and isinstance(c.value, int) and not isinstance(c.value, bool)
            ends_in_raise = bool(st.body) and isinstance(st.body[-1], ast.Raise)
            if isinstance(t.left, ast.Name) and t.left.id in counts:
                keys, how = counts[t.left.id]
            elif count_expr(t.left, lists, mode) is not None:
                keys, how = count_expr(t.left, lists, mode)
            elif is_int and ends_in_raise and isinstance(t.left, (ast.Name, ast.Call)):
                fail(st, f"`{ast.unparse(t)[:60]}` decides a refusal but the count is computed in an unsupported way "
                         f"(a helper function?): how empty sections are counted is unknown")
            else:
                continue
            op = CNT.get(type(t.ops[0]))
            if op is None or not is_int:
                fail(st, "count comparison")
            if not ends_in_raise or st.orelse:
                fail(st, "count check must end in raise")
            checks.append((site, keys, how, op, c.value))
    return checks, counts


def _in_dct_test(t):
    """"k" in dct -> k"""
    if (isinstance(t, ast.Compare) and len(t.ops) == 1 and isinstance(t.ops[0], ast.In)
            and isinstance(t.left, ast.Constant) and isinstance(t.left.value, str)
            and isinstance(t.comparators[0], ast.Name) and t.comparators[0].id == "dct"):
        return t.left.value
    return None


def _chain_link(b, target: str):
    """target["k"] = <v>  |  target = {"k": <v>}   -> (k, v) ; None if the statement does not write `target`"""
    if not (isinstance(b, ast.Assign) and len(b.targets) == 1):
        return None
    t, v = b.targets[0], b.value
    if (isinstance(t, ast.Subscript) and isinstance(t.value, ast.Name) and t.value.id == target
            and isinstance(t.slice, ast.Constant)):
        return t.slice.value, v
    if (isinstance(t, ast.Name) and t.id == target and isinstance(v, ast.Dict) and len(v.keys) == 1
            and isinstance(v.keys[0], ast.Constant)):
        return v.keys[0].value, v.values[0]
    return None


def _is_empty_dict_assign(b, target) -> bool:
    return (isinstance(b, ast.Assign) and len(b.targets) == 1 and isinstance(b.targets[0], ast.Name)
            and b.targets[0].id == target and isinstance(b.value, ast.Dict) and not b.value.keys)


def dispatch_chain(fn: ast.FunctionDef, target: str):
    """if "k" in dct: target["k"] = to_x(dct["k"]) elif ... else: raise  -> [(k, to_x), ...] (all three k's equal).
    A link may also be written `target = {"k": to_x(dct["k"])}`; the chain may end in `else: target = {}` when a later
    `if not target: raise` refuses the document (the shape an inlined `first key present` helper leaves)."""
    body = body_no_doc(fn)
    for pos, st in enumerate(body):
        if not isinstance(st, ast.If) or _in_dct_test(st.test) is None:
            continue
        if len(st.body) != 1 or _chain_link(st.body[0], target) is None:
            continue
        node, keys = st, []
        while True:
            k = _in_dct_test(node.test)
            if k is None:
                fail(node, f"dispatch chain for {target}: test is not `\"key\" in dct`")
            link = _chain_link(node.body[0], target) if len(node.body) == 1 else None
            if link is None:
                fail(node, f"dispatch chain for {target}: a branch does more than build its section")
            sk, v = link
            if not (sk == k and isinstance(v, ast.Call) and isinstance(v.func, ast.Name) and len(v.args) == 1
                    and not v.keywords and ast.unparse(v.args[0]) == f"dct[{k!r}]"):
                fail(node.body[0], f"section {k!r} is not built from dct[{k!r}] into {target}[{k!r}]")
            keys.append((k, v.func.id))
            if len(node.orelse) == 1 and isinstance(node.orelse[0], ast.If):
                node = node.orelse[0]
                continue
            if len(node.orelse) == 1 and isinstance(node.orelse[0], ast.Raise):
                break
            if len(node.orelse) == 1 and _is_empty_dict_assign(node.orelse[0], target) and any(
                    isinstance(later, ast.If) and ast.unparse(later.test) == f"not {target}" and not later.orelse
                    and later.body and isinstance(later.body[-1], ast.Raise) for later in body[pos + 1:]):
                break
            fail(node, "dispatch chain must end with else: raise")
        return keys
    fail(fn, f"dispatch chain for {target} not found")


def _resolve_local(fn, node):
    """a name that is assigned exactly once in `fn` -> the assigned expression (named intermediate result)"""
    seen = set()
    while isinstance(node, ast.Name) and node.id not in seen:
        seen.add(node.id)
        vals = [assigned(n)[1] for n in ast.walk(fn) if assigned(n)[0] == node.id]
        stores = [n for n in ast.walk(fn) if isinstance(n, ast.Name) and n.id == node.id and isinstance(n.ctx, ast.Store)]
        if len(vals) != 1 or len(stores) != 1:
            break
        node = vals[0]
    return node


def check_builders(repo, rel, tree, det_builders):
    """to_ccd & co: every keyword kw of the detector call is to_*(dct["kw"]); to_*_geometry / to_*_characteristics
    pass the section unchanged.  Nothing of this enters a theorem (what the builders do with a section is judged by the
    correspondence, setting by setting): a builder written in another way is NOTED in Gen_C12.v, not refused."""
    notes = []
    atoms = lambda name: name.startswith("to_")
    for fname in det_builders:
        try:
            fn = normalize(repo, rel, tree, find_func(tree, fname), atoms=atoms)
            rets = [n for n in ast.walk(fn) if isinstance(n, ast.Return)]
            if len(rets) != 1 or not isinstance(_resolve_local(fn, rets[0].value), ast.Call):
                fail(fn, "detector builder shape")
            call = _resolve_local(fn, rets[0].value)
            kws = {k.arg for k in call.keywords}
            if call.args or kws != {"geometry", "environment", "characteristics"}:
                fail(call, "detector builder keywords")
            for k in call.keywords:
                v = _resolve_local(fn, k.value)
                if not (isinstance(v, ast.Call) and isinstance(v.func, ast.Name) and len(v.args) == 1 and not v.keywords
                        and ast.unparse(_resolve_local(fn, v.args[0])) == f"dct[{k.arg!r}]" and k.arg in v.func.id):
                    fail(k.value, f"{fname}: section {k.arg!r} is not built from dct[{k.arg!r}] by its own builder")
                sub = normalize(repo, rel, tree, find_func(tree, v.func.id), atoms=atoms)
                sb = body_no_doc(sub)
                # optional `if dct is None: dct = {}`
                if sb and isinstance(sb[0], ast.If) and ast.unparse(sb[0].test) == "dct is None":
                    if ast.unparse(sb[0].body[0]) != "dct = {}" or len(sb[0].body) != 1 or sb[0].orelse:
                        fail(sb[0], "section default")
                    sb = sb[1:]
                rets2 = [n for n in sb if isinstance(n, ast.Return)]
                if len(rets2) != 1 or sb[-1] is not rets2[0]:
                    fail(sub, "section builder shape")
                r = _resolve_local(sub, rets2[0].value)
                okr = (isinstance(r, ast.Call) and not r.args and len(r.keywords) == 1 and r.keywords[0].arg is None
                       and ast.unparse(r.keywords[0].value) == "dct")
                okr = okr or (isinstance(r, ast.Call) and ast.unparse(r.func).endswith(".from_dict")
                              and len(r.args) == 1 and ast.unparse(r.args[0]) == "dct" and not r.keywords)
                if not okr:
                    fail(sub, f"{v.func.id}: the section is not passed unchanged to the class")
        except Exception as ex:       # TranslationError included: noted, not refused (see the docstring)
            notes.append(f"builder {fname}: not read ({str(ex)[:160]})")
    return notes


BUILDER_NOTES: list[str] = []


def extract_configuration(repo: Path):
    rel = "pyxel/configuration/configuration.py"
    tree = parse(repo, rel)
    atoms = lambda name: name.startswith("to_") or name == "Configuration"
    bc = normalize(repo, rel, tree, find_func(tree, "_build_configuration"), atoms=atoms)
    checks1, _ = count_checks(bc, "_build_configuration", "keys")
    pi = normalize(repo, rel, tree, find_func(tree, "__post_init__", "Configuration"), "Configuration")
    checks2, _ = count_checks(pi, "Configuration.__post_init__", "attrs")
    modes = dispatch_chain(bc, "running_mode")
    dets = dispatch_chain(bc, "detector")
    BUILDER_NOTES[:] = check_builders(repo, rel, tree, [f for _, f in dets])
    # the collected dicts reach Configuration(**running_mode, **detector)
    ok = False
    for n in ast.walk(bc):
        if isinstance(n, ast.Call) and ast.unparse(n.func) == "Configuration":
            stars = sorted(ast.unparse(k.value) for k in n.keywords if k.arg is None)
            named = {k.arg: ast.unparse(_resolve_local(bc, k.value)) for k in n.keywords if k.arg is not None}
            ok = (stars == ["detector", "running_mode"] and set(named) == {"pipeline"}
                  and named["pipeline"].startswith("to_pipeline(") and not n.args)
    if not ok:
        fail(bc, "Configuration(pipeline=pipeline, **running_mode, **detector) not found")
    return checks1, checks2, [k for k, _ in modes], [k for k, _ in dets]



# ------------------------------------------------------------------------------------------ Readout.replace


def _self_attr_of_key(node, key) -> bool:
    """self._key or self.key"""
    return (isinstance(node, ast.Attribute) and isinstance(node.value, ast.Name) and node.value.id == "self"
            and node.attr in (key, "_" + key))


def _is_changes(node, kw) -> bool:
    return isinstance(node, ast.Name) and node.id == kw


def _readout_ctor(node) -> bool:
    """Readout(...) | type(self)(...) | self.__class__(...)"""
    return isinstance(node, ast.Call) and ast.unparse(node.func) in ("Readout", "type(self)", "self.__class__")


def extract_readout(repo: Path):
    """(constructor parameters of Readout, the settings Readout.replace carries over to the new object).

    accepted bodies of replace(self, **changes):
      A  d = {"k": self._k, ...} ; [m = {**d, **changes} | m = d | changes | d.update(changes)] ;
         return Readout(**m)  (also Readout(**{**d, **changes}), type(self)(...), self.__class__(...))
      B  return Readout(k=changes.get("k", self._k), ...)
    `changes` must override the stored values; every value must be the attribute of the same name."""
    tree = parse(repo, "pyxel/exposure/readout.py")
    init = find_func(tree, "__init__", "Readout")
    if init.args.vararg or init.args.kwarg or init.args.posonlyargs:
        fail(init, "Readout constructor signature")
    params = [a.arg for a in init.args.args[1:]] + [a.arg for a in init.args.kwonlyargs]
    rep = normalize(repo, "pyxel/exposure/readout.py", tree, find_func(tree, "replace", "Readout"), "Readout")
    if rep.args.kwarg is None or rep.args.vararg or len(rep.args.args) != 1 or rep.args.kwonlyargs:
        fail(rep, "Readout.replace signature (expected (self, **changes))")
    kw = rep.args.kwarg.arg
    dicts: dict[str, list[str]] = {}     # name -> keys it holds from self
    merged: set[str] = set()             # names into which `changes` has been merged (changes last)

    def dict_keys(node):
        """{"k": self._k, ...} -> [k, ...]"""
        if not isinstance(node, ast.Dict) or any(k is None for k in node.keys):
            return None
        keys = []
        for k, v in zip(node.keys, node.values):
            if not (isinstance(k, ast.Constant) and isinstance(k.value, str)):
                return None
            if not _self_attr_of_key(v, k.value):
                fail(v, f"Readout.replace: the value carried for {k.value!r} is not the attribute of that name")
            keys.append(k.value)
        return keys

    def merge_expr(node):
        """{**d, **changes} | d | changes | dict(d, **changes)  -> keys of d (changes override)"""
        if isinstance(node, ast.Dict) and len(node.keys) == 2 and node.keys == [None, None]:
            a, b = node.values
            if _is_changes(b, kw):
                if isinstance(a, ast.Name) and a.id in dicts:
                    return dicts[a.id]
                return dict_keys(a)
            if _is_changes(a, kw):
                fail(node, "Readout.replace: the stored values override the requested changes")
        if isinstance(node, ast.BinOp) and isinstance(node.op, ast.BitOr) and _is_changes(node.right, kw):
            if isinstance(node.left, ast.Name) and node.left.id in dicts:
                return dicts[node.left.id]
            return dict_keys(node.left)
        if (isinstance(node, ast.Call) and isinstance(node.func, ast.Name) and node.func.id == "dict"
                and len(node.args) == 1 and isinstance(node.args[0], ast.Name) and node.args[0].id in dicts
                and len(node.keywords) == 1 and node.keywords[0].arg is None and _is_changes(node.keywords[0].value, kw)):
            return dicts[node.args[0].id]
        return None

    carried = None
    for st in body_no_doc(rep):
        nm, val = assigned(st)
        if nm is not None:
            ks = dict_keys(val)
            if ks is not None:
                dicts[nm] = ks
                merged.discard(nm)
                continue
            ks = merge_expr(val)
            if ks is not None:
                dicts[nm] = ks
                merged.add(nm)
                continue
            fail(st, "Readout.replace: unsupported assignment")
        if (isinstance(st, ast.Expr) and isinstance(st.value, ast.Call) and isinstance(st.value.func, ast.Attribute)
                and st.value.func.attr == "update" and isinstance(st.value.func.value, ast.Name)
                and st.value.func.value.id in dicts and len(st.value.args) == 1 and not st.value.keywords
                and _is_changes(st.value.args[0], kw)):
            merged.add(st.value.func.value.id)
            continue
        if isinstance(st, ast.Return) and _readout_ctor(st.value):
            call = st.value
            if call.args:
                fail(st, "Readout.replace: positional arguments")
            if len(call.keywords) == 1 and call.keywords[0].arg is None:
                v = call.keywords[0].value
                if isinstance(v, ast.Name) and v.id in dicts and v.id in merged:
                    carried = dicts[v.id]
                else:
                    carried = merge_expr(v)
                if carried is None:
                    fail(st, "Readout.replace: the constructor arguments are not <stored settings> overridden by **changes")
            elif call.keywords and all(k.arg is not None for k in call.keywords):
                carried = []
                for k in call.keywords:
                    v = k.value
                    okv = (isinstance(v, ast.Call) and isinstance(v.func, ast.Attribute) and v.func.attr == "get"
                           and _is_changes(v.func.value, kw) and len(v.args) == 2 and not v.keywords
                           and isinstance(v.args[0], ast.Constant) and v.args[0].value == k.arg
                           and _self_attr_of_key(v.args[1], k.arg))
                    if not okv:
                        fail(v, f"Readout.replace: argument {k.arg!r} is not changes.get({k.arg!r}, self._{k.arg})")
                    carried.append(k.arg)
            else:
                fail(st, "Readout.replace: unsupported constructor call")
            break
        fail(st, "Readout.replace: unsupported statement")
    if carried is None:
        fail(rep, "Readout.replace: no `return Readout(...)` found")
    return params, carried



# ------------------------------------------------------------------------------------------ constructor parameters

# every class an object of which pyxel.load builds from the document
REACHABLE = [
    ("Exposure", "pyxel/exposure/exposure.py"), ("Readout", "pyxel/exposure/readout.py"),
    ("Observation", "pyxel/observation/observation.py"), ("ParameterValues", "pyxel/observation/parameter_values.py"),
    ("Calibration", "pyxel/calibration/calibration.py"), ("Algorithm", "pyxel/calibration/algorithm.py"),
    ("ExposureOutputs", "pyxel/outputs/exposure_outputs.py"), ("ObservationOutputs", "pyxel/outputs/observation_outputs.py"),
    ("CalibrationOutputs", "pyxel/outputs/calibration_outputs.py"),
    ("ModelFunction", "pyxel/pipelines/model_function.py"), ("FitnessFunction", "pyxel/pipelines/model_function.py"),
    ("DetectionPipeline", "pyxel/pipelines/pipeline.py"),
    ("Geometry", "pyxel/detectors/geometry.py"), ("Characteristics", "pyxel/detectors/characteristics.py"),
    ("APDCharacteristics", "pyxel/detectors/apd/apd_characteristics.py"), ("Environment", "pyxel/detectors/environment.py"),
    ("WavelengthHandling", "pyxel/detectors/environment.py"),
]


def ctor_params(repo: Path, cname: str, rel: str):
    """the names a document may write for an object of this class: parameters of __init__, or the fields of a dataclass"""
    tree = parse(repo, rel)
    cn = class_node(tree, cname)
    inits = [n for n in cn.body if isinstance(n, ast.FunctionDef) and n.name == "__init__"]
    if len(inits) == 1:
        a = inits[0].args
        if a.vararg or a.kwarg or a.posonlyargs:
            fail(inits[0], f"{cname}.__init__: *args / **kwargs / positional-only parameters")
        return [x.arg for x in a.args[1:]] + [x.arg for x in a.kwonlyargs]
    if inits:
        fail(cn, f"{cname}: several __init__")
    if any(ast.unparse(d).split("(")[0] in ("dataclass", "dataclasses.dataclass") for d in cn.decorator_list):
        return [st.target.id for st in cn.body if isinstance(st, ast.AnnAssign) and isinstance(st.target, ast.Name)]
    fail(cn, f"{cname}: neither __init__ nor a dataclass")


def extract_ctor_params(repo: Path):
    return [(c, ctor_params(repo, c, rel)) for c, rel in REACHABLE]


# ------------------------------------------------------------------------------------------ entry


def gstr(s: str) -> str:
    return '"' + s + '"%string'


PRELUDE = ("From Coq Require Import QArith ZArith List String.\nFrom PyxelV Require Import Model.Config.\n"
           "Import ListNotations.\nOpen Scope Z_scope.\n")


def translate(repo: Path) -> str:
    repo = Path(repo)
    rows, notes = [], []
    for rel, cname, ccls in CLASSES:
        r, extra = extract_class(repo, rel, cname)
        for p, gc, gs in r:
            rows.append(f"  (({ccls}, {gstr(p)}),\n    ({gc},\n     {gs}))")
        if extra:
            notes.append(f"{cname}: setters without constructor parameter: {', '.join(extra)}")
    for rel, cname in GEOMETRY_SUBCLASSES:
        check_plain_subclass(repo, rel, cname)
    srows = []
    for rel, cname, ccls in CLASSES:
        for p, sc, ss in STORES[cname]:
            srows.append(f"  (({ccls}, {gstr(p)}), ({sc}, {ss}))")
    pre, post, modes, dets = extract_configuration(repo)

    def crows(checks):
        return [f"  PCheck {gstr(site)} [{'; '.join(gstr(k) for k in keys)}] {how} {op} {n}"
                for site, keys, how, op, n in checks]
    out = HEADER + PRELUDE
    for n in notes + BUILDER_NOTES:
        out += f"(* {n.replace('*)', '* )')} *)\n"
    out += "Definition src_guards : guard_table := [\n" + ";\n".join(rows) + "\n].\n"
    out += "Definition src_stores : store_table := [\n" + ";\n".join(srows) + "\n].\n"
    out += "Definition src_checks_doc : list presence_check := [\n" + ";\n".join(crows(pre)) + "\n].\n"
    out += "Definition src_checks_built : list presence_check := [\n" + ";\n".join(crows(post)) + "\n].\n"
    out += f"Definition src_mode_dispatch : list string := [{'; '.join(gstr(k) for k in modes)}].\n"
    out += f"Definition src_detector_dispatch : list string := [{'; '.join(gstr(k) for k in dets)}].\n"
    rparams, carried = extract_readout(repo)
    out += f"Definition src_readout_params : list string := [{'; '.join(gstr(k) for k in rparams)}].\n"
    out += f"Definition src_replace_carried : list string := [{'; '.join(gstr(k) for k in carried)}].\n"
    rows = [f"  ({gstr(c)}, [{'; '.join(gstr(k) for k in ps)}])" for c, ps in extract_ctor_params(repo)]
    out += "Definition src_ctor_params : list (string * list string) := [\n" + ";\n".join(rows) + "\n].\n"
    return out


# the text for the repaired tree (fix: commits of round 2; kept literal so that it never depends on the tree under test)
FALLBACK = r'''(* GENERATED on every run from the current source tree by /verif/translator — do not edit *)
From Coq Require Import QArith ZArith List String.
From PyxelV Require Import Model.Config.
Import ListNotations.
Open Scope Z_scope.
Definition src_guards : guard_table := [
  ((CGeometry, "row"%string),
    (Guard PAlways [RaiseUnlessAll [Atom OGt (Qmake (0) 1)]] false,
     Guard PAlways [RaiseUnlessAll [Atom OGt (Qmake (0) 1)]] false));
  ((CGeometry, "col"%string),
    (Guard PAlways [RaiseUnlessAll [Atom OGt (Qmake (0) 1)]] false,
     Guard PAlways [RaiseUnlessAll [Atom OGt (Qmake (0) 1)]] false));
  ((CGeometry, "total_thickness"%string),
    (Guard PTruthy [RaiseUnlessAll [Atom OGe (Qmake (0) 1); Atom OLe (Qmake (10000) 1)]] false,
     Guard PAlways [RaiseUnlessAll [Atom OGe (Qmake (0) 1); Atom OLe (Qmake (10000) 1)]] false));
  ((CGeometry, "pixel_vert_size"%string),
    (Guard PTruthy [RaiseUnlessAll [Atom OGe (Qmake (0) 1); Atom OLe (Qmake (1000) 1)]] false,
     Guard PAlways [RaiseUnlessAll [Atom OGe (Qmake (0) 1); Atom OLe (Qmake (1000) 1)]] false));
  ((CGeometry, "pixel_horz_size"%string),
    (Guard PTruthy [RaiseUnlessAll [Atom OGe (Qmake (0) 1); Atom OLe (Qmake (1000) 1)]] false,
     Guard PAlways [RaiseUnlessAll [Atom OGe (Qmake (0) 1); Atom OLe (Qmake (1000) 1)]] false));
  ((CGeometry, "pixel_scale"%string),
    (Guard PTruthy [RaiseUnlessAll [Atom OGe (Qmake (0) 1); Atom OLe (Qmake (1000) 1)]] false,
     Guard PAlways [RaiseUnlessAll [Atom OGe (Qmake (0) 1); Atom OLe (Qmake (1000) 1)]] false));
  ((CCharacteristics, "quantum_efficiency"%string),
    (Guard PNotNone [RaiseUnlessAll [Atom OGe (Qmake (0) 1); Atom OLe (Qmake (1) 1)]] false,
     Guard PAlways [RaiseUnlessAll [Atom OGe (Qmake (0) 1); Atom OLe (Qmake (1) 1)]] false));
  ((CCharacteristics, "charge_to_volt_conversion"%string),
    (Guard PTruthy [RaiseUnlessAll [Atom OGe (Qmake (0) 1); Atom OLe (Qmake (100) 1)]] false,
     Guard PAlways [RaiseUnlessAll [Atom OGe (Qmake (0) 1); Atom OLe (Qmake (100) 1)]] false));
  ((CCharacteristics, "pre_amplification"%string),
    (Guard PNotNone [RaiseUnlessAll [Atom OGe (Qmake (0) 1); Atom OLe (Qmake (10000) 1)]] false,
     Guard PAlways [RaiseUnlessAll [Atom OGe (Qmake (0) 1); Atom OLe (Qmake (10000) 1)]] false));
  ((CCharacteristics, "full_well_capacity"%string),
    (Guard PNotNone [RaiseUnlessAll [Atom OGe (Qmake (0) 1); Atom OLe (Qmake (10000000) 1)]] false,
     Guard PAlways [RaiseUnlessAll [Atom OGe (Qmake (0) 1); Atom OLe (Qmake (10000000) 1)]] false));
  ((CCharacteristics, "adc_bit_resolution"%string),
    (Guard PNotNone [RaiseUnlessAll [Atom OGe (Qmake (4) 1); Atom OLe (Qmake (64) 1)]] false,
     Guard PAlways [RaiseUnlessAll [Atom OGe (Qmake (4) 1); Atom OLe (Qmake (64) 1)]] false));
  ((CCharacteristics, "adc_voltage_range"%string),
    (Guard PNotNone [RaiseUnlessLen 2] false,
     Guard PAlways [RaiseUnlessLen 2] false));
  ((CEnvironment, "temperature"%string),
    (Guard PNotNone [RaiseUnlessAll [Atom OGt (Qmake (0) 1); Atom OLe (Qmake (1000) 1)]] false,
     Guard PAlways [RaiseUnlessAll [Atom OGt (Qmake (0) 1); Atom OLe (Qmake (1000) 1)]] false));
  ((CEnvironment, "wavelength"%string),
    (Guard PNotNone [RaiseUnlessAll [Atom OGt (Qmake (0) 1)]] false,
     Guard PIsNumber [RaiseUnlessAll [Atom OGt (Qmake (0) 1)]] true));
  ((CAPDCharacteristics, "roic_gain"%string),
    (Guard PAlways [] false,
     read_only));
  ((CAPDCharacteristics, "quantum_efficiency"%string),
    (Guard PTruthy [RaiseUnlessAll [Atom OGe (Qmake (0) 1); Atom OLe (Qmake (1) 1)]] false,
     Guard PAlways [RaiseUnlessAll [Atom OGe (Qmake (0) 1); Atom OLe (Qmake (1) 1)]] false));
  ((CAPDCharacteristics, "full_well_capacity"%string),
    (Guard PTruthy [RaiseUnlessAll [Atom OGe (Qmake (0) 1); Atom OLe (Qmake (10000000) 1)]] false,
     Guard PAlways [RaiseUnlessAll [Atom OGe (Qmake (0) 1); Atom OLe (Qmake (10000000) 1)]] false));
  ((CAPDCharacteristics, "adc_bit_resolution"%string),
    (Guard PNotNone [RaiseUnlessAll [Atom OGe (Qmake (4) 1); Atom OLe (Qmake (64) 1)]] false,
     Guard PAlways [RaiseUnlessAll [Atom OGe (Qmake (4) 1); Atom OLe (Qmake (64) 1)]] false));
  ((CAPDCharacteristics, "adc_voltage_range"%string),
    (Guard PNotNone [RaiseUnlessLen 2] false,
     Guard PAlways [RaiseUnlessLen 2] false));
  ((CAPDCharacteristics, "avalanche_gain"%string),
    (Guard PNotNone [RaiseUnlessAll [Atom OGe (Qmake (1) 1); Atom OLe (Qmake (1000) 1)]] false,
     Guard PAlways [RaiseUnlessAll [Atom OGe (Qmake (1) 1); Atom OLe (Qmake (1000) 1)]] false));
  ((CAPDCharacteristics, "pixel_reset_voltage"%string),
    (Guard PAlways [] false,
     Guard PAlways [] false));
  ((CAPDCharacteristics, "common_voltage"%string),
    (Guard PAlways [] false,
     Guard PAlways [] false))
].
Definition src_stores : store_table := [
  ((CGeometry, "row"%string), (StId, StId));
  ((CGeometry, "col"%string), (StId, StId));
  ((CGeometry, "total_thickness"%string), (StId, StId));
  ((CGeometry, "pixel_vert_size"%string), (StId, StId));
  ((CGeometry, "pixel_horz_size"%string), (StId, StId));
  ((CGeometry, "pixel_scale"%string), (StId, StId));
  ((CCharacteristics, "quantum_efficiency"%string), (StId, StId));
  ((CCharacteristics, "charge_to_volt_conversion"%string), (StId, StId));
  ((CCharacteristics, "pre_amplification"%string), (StId, StId));
  ((CCharacteristics, "full_well_capacity"%string), (StId, StId));
  ((CCharacteristics, "adc_bit_resolution"%string), (StId, StId));
  ((CCharacteristics, "adc_voltage_range"%string), (StId, StId));
  ((CEnvironment, "temperature"%string), ((StFloatIf PNotNone), StId));
  ((CEnvironment, "wavelength"%string), ((StFloatIf PIsNumber), StId));
  ((CAPDCharacteristics, "roic_gain"%string), (StId, StNone));
  ((CAPDCharacteristics, "quantum_efficiency"%string), (StId, StId));
  ((CAPDCharacteristics, "full_well_capacity"%string), (StId, StId));
  ((CAPDCharacteristics, "adc_bit_resolution"%string), (StId, StId));
  ((CAPDCharacteristics, "adc_voltage_range"%string), (StId, StId));
  ((CAPDCharacteristics, "avalanche_gain"%string), (StId, StId));
  ((CAPDCharacteristics, "pixel_reset_voltage"%string), (StId, StId));
  ((CAPDCharacteristics, "common_voltage"%string), (StId, StId))
].
Definition src_checks_doc : list presence_check := [
  PCheck "_build_configuration"%string ["exposure"%string; "observation"%string; "calibration"%string] CMPresent CNe 1;
  PCheck "_build_configuration"%string ["ccd_detector"%string; "cmos_detector"%string; "mkid_detector"%string; "apd_detector"%string] CMPresent CNe 1
].
Definition src_checks_built : list presence_check := [
  PCheck "Configuration.__post_init__"%string ["exposure"%string; "observation"%string; "calibration"%string] CMNotNone CNe 1;
  PCheck "Configuration.__post_init__"%string ["ccd_detector"%string; "cmos_detector"%string; "mkid_detector"%string; "apd_detector"%string] CMNotNone CNe 1
].
Definition src_mode_dispatch : list string := ["exposure"%string; "observation"%string; "calibration"%string].
Definition src_detector_dispatch : list string := ["ccd_detector"%string; "cmos_detector"%string; "mkid_detector"%string; "apd_detector"%string].
Definition src_readout_params : list string := ["times"%string; "times_from_file"%string; "start_time"%string; "non_destructive"%string].
Definition src_replace_carried : list string := ["times"%string; "start_time"%string; "non_destructive"%string].
Definition src_ctor_params : list (string * list string) := [
  ("Exposure"%string, ["readout"%string; "outputs"%string; "result_type"%string; "pipeline_seed"%string; "working_directory"%string]);
  ("Readout"%string, ["times"%string; "times_from_file"%string; "start_time"%string; "non_destructive"%string]);
  ("Observation"%string, ["parameters"%string; "outputs"%string; "readout"%string; "mode"%string; "from_file"%string; "column_range"%string; "with_dask"%string; "result_type"%string; "pipeline_seed"%string; "working_directory"%string]);
  ("ParameterValues"%string, ["key"%string; "values"%string; "boundaries"%string; "enabled"%string; "logarithmic"%string]);
  ("Calibration"%string, ["target_data_path"%string; "fitness_function"%string; "algorithm"%string; "parameters"%string; "outputs"%string; "readout"%string; "mode"%string; "result_type"%string; "result_fit_range"%string; "result_input_arguments"%string; "target_fit_range"%string; "pygmo_seed"%string; "pipeline_seed"%string; "num_islands"%string; "num_evolutions"%string; "num_best_decisions"%string; "topology"%string; "type_islands"%string; "weights_from_file"%string; "weights"%string; "working_directory"%string]);
  ("Algorithm"%string, ["type"%string; "generations"%string; "population_size"%string; "variant"%string; "variant_adptv"%string; "ftol"%string; "xtol"%string; "memory"%string; "cr"%string; "eta_c"%string; "m"%string; "param_m"%string; "param_s"%string; "crossover"%string; "mutation"%string; "selection"%string; "nlopt_solver"%string; "maxtime"%string; "maxeval"%string; "xtol_rel"%string; "xtol_abs"%string; "ftol_rel"%string; "ftol_abs"%string; "stopval"%string; "local_optimizer"%string; "replacement"%string; "nlopt_selection"%string]);
  ("ExposureOutputs"%string, ["output_folder"%string; "custom_dir_name"%string; "save_data_to_file"%string; "save_exposure_data"%string]);
  ("ObservationOutputs"%string, ["output_folder"%string; "custom_dir_name"%string; "save_data_to_file"%string; "save_observation_data"%string]);
  ("CalibrationOutputs"%string, ["output_folder"%string; "custom_dir_name"%string; "save_data_to_file"%string; "save_calibration_data"%string]);
  ("ModelFunction"%string, ["func"%string; "name"%string; "arguments"%string; "enabled"%string]);
  ("FitnessFunction"%string, ["func"%string; "arguments"%string]);
  ("DetectionPipeline"%string, ["scene_generation"%string; "photon_collection"%string; "phasing"%string; "charge_generation"%string; "charge_collection"%string; "charge_transfer"%string; "charge_measurement"%string; "signal_transfer"%string; "readout_electronics"%string; "data_processing"%string]);
  ("Geometry"%string, ["row"%string; "col"%string; "total_thickness"%string; "pixel_vert_size"%string; "pixel_horz_size"%string; "pixel_scale"%string]);
  ("Characteristics"%string, ["quantum_efficiency"%string; "charge_to_volt_conversion"%string; "pre_amplification"%string; "full_well_capacity"%string; "adc_bit_resolution"%string; "adc_voltage_range"%string]);
  ("APDCharacteristics"%string, ["roic_gain"%string; "quantum_efficiency"%string; "full_well_capacity"%string; "adc_bit_resolution"%string; "adc_voltage_range"%string; "avalanche_gain"%string; "pixel_reset_voltage"%string; "common_voltage"%string]);
  ("Environment"%string, ["temperature"%string; "wavelength"%string]);
  ("WavelengthHandling"%string, ["cut_on"%string; "cut_off"%string; "resolution"%string])
].
'''
