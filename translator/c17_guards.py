"""C17: the schedule refusals of `Readout.__init__` / `ReadoutProperties.__init__`, read by PATHS instead of by text shape.

The constructor is walked path by path (every `if` / `match` / conditional expression forks unless its test is decided by
constants; `raise` ends a refusing path; calls to helpers defined in the same module or class are followed with their
arguments substituted, each of the helper's paths continuing the caller's path with the value it returns; single-assignment
locals are substituted into the tests).  What is extracted is a property of the set of ACCEPTING paths:

  * a guard kind (first time zero / start >= first time / not strictly increasing) is present iff EVERY accepting path
    has passed a test of one of the known shapes of that refusal with the accepting outcome;
  * an empty `times` is refused iff every accepting path contains a test whose outcome is impossible for `times = []`,
    `times_from_file = None` (three-valued evaluation of the tests: `times`, `len(times) > 0`, `times is None`, ...);
  * a test on the schedule (the times array or the start time) on an accepting path that is not the accepting outcome of
    a known refusal is a shape this translator does not know: fail closed.

Hence guard clauses versus if/elif chains, inverted conditions with swapped branches, `a and b` versus nested ifs, chained
versus split comparisons, extraction of a block into a private helper (early returns included), local aliases, a `match`
on literals and conditional expressions all give the same table.  Message texts and exception types are never read.
"""
from __future__ import annotations

import ast
import copy
from pathlib import Path

from harness.core import TranslationError

from .common import body_no_doc, find_func, parse

MAX_PATHS = 512
MAX_DEPTH = 4

GUARD_SHAPES = {
    "GFirstZero": {"T[0] == 0", "0 == T[0]", "T[0] == 0.0", "0.0 == T[0]", "not T[0]", "not T[0] != 0", "not T[0] != 0.0",
                   "not 0 != T[0]"},
    "GStartGeFirst": {"S >= T[0]", "T[0] <= S", "not S < T[0]", "not T[0] > S"},
    "GNotIncreasing": {"not np.all(np.diff(T) > 0)", "not (np.diff(T) > 0).all()", "np.any(np.diff(T) <= 0)",
                       "(np.diff(T) <= 0).any()", "not np.all(T[1:] > T[:-1])", "np.any(T[1:] <= T[:-1])",
                       "not np.all(np.diff(T) > 0.0)", "np.any(np.diff(T) <= 0.0)", "not (T[1:] > T[:-1]).all()",
                       "(T[1:] <= T[:-1]).any()", "not np.all(T[:-1] < T[1:])", "np.any(T[:-1] >= T[1:])"},
}
GUARD_ORDER = ["GFirstZero", "GStartGeFirst", "GNotIncreasing"]
# a refusal that can never fire on a schedule given as a flat list (the model's schedules are lists)
HARMLESS_GUARDS = {"T.ndim != 1", "np.ndim(T) != 1", "T.ndim > 1", "not T.ndim == 1", "not np.ndim(T) == 1"}
# conversions that keep the sequence of times (and its emptiness)
_CONV_FUNCS = {"np.array", "np.asarray", "np.asanyarray", "numpy.array", "numpy.asarray", "numpy.asanyarray", "list", "tuple"}
_CONV_METHODS = {"tolist", "copy", "flatten", "ravel"}


def _canon(text: str) -> str:
    return ast.unparse(ast.parse(text, mode="eval").body)


def _lit_of_shape(text: str):
    e = ast.parse(text, mode="eval").body
    pol = True
    while isinstance(e, ast.UnaryOp) and isinstance(e.op, ast.Not):
        e, pol = e.operand, not pol
    return ast.unparse(e), pol


_REFUSING = {k: {_lit_of_shape(s) for s in v} for k, v in GUARD_SHAPES.items()}
_HARMLESS = {_lit_of_shape(s) for s in HARMLESS_GUARDS}


# ------------------------------------------------------------------------------------------ three-valued evaluation

class _Empty:           # the empty list given as `times`
    def __repr__(self):
        return "EMPTY"


class _NonNull:         # some object that is not None (truth value unknown)
    def __repr__(self):
        return "NONNULL"


EMPTY, NONNULL, UNKNOWN = _Empty(), _NonNull(), object()


def _dotted(n):
    parts = []
    while isinstance(n, ast.Attribute):
        parts.append(n.attr)
        n = n.value
    if isinstance(n, ast.Name):
        parts.append(n.id)
        return ".".join(reversed(parts))
    return None


def value(e: ast.AST, binding: dict):
    """A python constant, EMPTY, NONNULL or UNKNOWN."""
    if isinstance(e, ast.Constant):
        return e.value
    if isinstance(e, ast.Name):
        return binding.get(e.id, UNKNOWN)
    if isinstance(e, (ast.List, ast.Tuple, ast.Set, ast.Dict, ast.ListComp, ast.DictComp, ast.JoinedStr, ast.Lambda)):
        if isinstance(e, (ast.List, ast.Tuple)) and not e.elts:
            return EMPTY
        return NONNULL
    if isinstance(e, ast.Call):
        fn = _dotted(e.func)
        if fn in _CONV_FUNCS and e.args:
            v = value(e.args[0], binding)
            return EMPTY if v is EMPTY else NONNULL
        if isinstance(e.func, ast.Attribute) and e.func.attr in _CONV_METHODS:
            v = value(e.func.value, binding)
            return EMPTY if v is EMPTY else (NONNULL if v is not None else UNKNOWN)
        if fn == "len" and len(e.args) == 1:
            return 0 if value(e.args[0], binding) is EMPTY else UNKNOWN
        if fn == "isinstance" and len(e.args) == 2:
            v, t = value(e.args[0], binding), ast.unparse(e.args[1])
            if v is None:
                return False if "None" not in t else UNKNOWN
            if v is EMPTY:
                if any(w in t for w in ("list", "Sequence", "Iterable", "Collection")):
                    return True
                return False if all(w.strip("() ").split(".")[-1] in ("ndarray", "str", "int", "float", "Number", "Path", "bool", "dict")
                                    for w in t.split(",")) else UNKNOWN
            return UNKNOWN
        if fn is not None and fn.split(".")[0] in ("np", "numpy") and fn.split(".")[-1] in (
                "array", "asarray", "asanyarray", "zeros", "ones", "arange", "linspace", "diff", "concatenate", "full", "empty"):
            return NONNULL
        if isinstance(e.func, ast.Attribute) and e.func.attr in ("to_numpy", "astype", "reshape", "squeeze"):
            return NONNULL
        return UNKNOWN
    if isinstance(e, (ast.BinOp,)):
        return UNKNOWN
    if isinstance(e, (ast.UnaryOp, ast.BoolOp, ast.Compare)):
        t = truth(e, binding)
        return UNKNOWN if t is None else t
    return UNKNOWN


def _plain(v):
    return v is None or isinstance(v, (bool, int, float, str))


def truth(e: ast.AST, binding: dict):
    """True / False / None (unknown)."""
    if isinstance(e, ast.UnaryOp) and isinstance(e.op, ast.Not):
        t = truth(e.operand, binding)
        return None if t is None else not t
    if isinstance(e, ast.BoolOp):
        ts = [truth(v, binding) for v in e.values]
        if isinstance(e.op, ast.And):
            return False if any(t is False for t in ts) else (True if all(t is True for t in ts) else None)
        return True if any(t is True for t in ts) else (False if all(t is False for t in ts) else None)
    if isinstance(e, ast.Compare):
        vals = [value(x, binding) for x in [e.left] + list(e.comparators)]
        out = True
        for op, a, b in zip(e.ops, vals, vals[1:]):
            r = _cmp(op, a, b)
            if r is False:
                return False
            if r is None:
                out = None
        return out
    v = value(e, binding)
    if v is UNKNOWN or v is NONNULL:
        return None
    if v is EMPTY:
        return False
    return bool(v)


def _cmp(op, a, b):
    if a is UNKNOWN or b is UNKNOWN:
        return None
    if isinstance(op, (ast.Is, ast.IsNot)):
        if a is None or b is None:
            r = a is None and b is None
        elif a is EMPTY and b is EMPTY:
            return None
        elif a is NONNULL or b is NONNULL or a is EMPTY or b is EMPTY:
            return None
        elif isinstance(a, bool) and isinstance(b, bool):
            r = a is b
        else:
            return None
        return r if isinstance(op, ast.Is) else not r
    if a is NONNULL or b is NONNULL:
        if isinstance(op, (ast.Eq, ast.NotEq)) and (a is None or b is None):
            return isinstance(op, ast.NotEq)
        return None
    if a is EMPTY or b is EMPTY:
        if isinstance(op, (ast.Eq, ast.NotEq)):
            if a is None or b is None:
                return isinstance(op, ast.NotEq)
            if a is EMPTY and b is EMPTY:
                return isinstance(op, ast.Eq)
        return None
    if _plain(a) and _plain(b):
        try:
            r = {ast.Eq: lambda: a == b, ast.NotEq: lambda: a != b, ast.Lt: lambda: a < b, ast.LtE: lambda: a <= b,
                 ast.Gt: lambda: a > b, ast.GtE: lambda: a >= b}.get(type(op), lambda: None)()
        except TypeError:
            return None
        return r
    return None


# ------------------------------------------------------------------------------------------ paths

class GPath:
    def __init__(self, env=None, lits=None, t_exprs=None):
        self.env = env if env is not None else {}
        self.lits = lits if lits is not None else []       # [(ast, bool)]
        self.t_exprs = t_exprs if t_exprs is not None else []
        self.ret, self.done, self.raised = None, False, False

    def fork(self):
        q = GPath(dict(self.env), list(self.lits), list(self.t_exprs))
        q.ret, q.done, q.raised = self.ret, self.done, self.raised
        return q


def literals(test: ast.AST, pol: bool):
    """The elementary outcomes known when `test` evaluated to `pol`."""
    if isinstance(test, ast.UnaryOp) and isinstance(test.op, ast.Not):
        return literals(test.operand, not pol)
    if isinstance(test, ast.BoolOp) and ((isinstance(test.op, ast.And) and pol) or (isinstance(test.op, ast.Or) and not pol)):
        return [l for v in test.values for l in literals(v, pol)]
    if isinstance(test, ast.Compare) and len(test.ops) > 1 and pol:
        xs = [test.left] + list(test.comparators)
        return [(ast.Compare(left=a, ops=[op], comparators=[b]), True) for op, a, b in zip(test.ops, xs, xs[1:])]
    return [(test, pol)]


class Walker:
    def __init__(self, rel: str, tree: ast.Module, cls: ast.ClassDef | None):
        self.rel, self.tree, self.cls = rel, tree, cls
        self.fresh = 0
        self.stack: list[str] = []

    def fail(self, node, msg):
        raise TranslationError(f"{self.rel}:{getattr(node, 'lineno', '?')}: {msg}: {ast.unparse(node)[:140]}")

    # ---- substitution of locals
    def sub(self, e: ast.AST, env: dict) -> ast.AST:
        class T(ast.NodeTransformer):
            def visit_Name(s, n):  # noqa: N802, N805
                if isinstance(n.ctx, ast.Load) and n.id in env:
                    return copy.deepcopy(env[n.id])
                return n

            def visit_Lambda(s, n):  # noqa: N802, N805
                return n

        return ast.fix_missing_locations(T().visit(copy.deepcopy(e)))

    def unknown(self, name: str) -> ast.Name:
        self.fresh += 1
        return ast.Name(id=f"{name}__u{self.fresh}", ctx=ast.Load())

    # ---- helper resolution
    def resolve(self, call: ast.Call):
        """(FunctionDef, number of leading parameters bound implicitly) or None."""
        if any(isinstance(a, ast.Starred) for a in call.args) or any(k.arg is None for k in call.keywords):
            return None
        f = call.func
        fn, skip = None, 0
        if isinstance(f, ast.Name):
            c = [n for n in self.tree.body if isinstance(n, ast.FunctionDef) and n.name == f.id]
            fn = c[0] if len(c) == 1 else None
        elif isinstance(f, ast.Attribute) and self.cls is not None and (
                (isinstance(f.value, ast.Name) and f.value.id in ("self", "cls", self.cls.name))
                or ast.unparse(f.value) in ("type(self)", "self.__class__")):
            c = [n for n in self.cls.body if isinstance(n, ast.FunctionDef) and n.name == f.attr]
            if len(c) == 1:
                decos = {ast.unparse(d) for d in c[0].decorator_list}
                if decos <= {"staticmethod", "classmethod"}:
                    fn = c[0]
                    skip = 0 if "staticmethod" in decos else 1
        if fn is None or fn.args.vararg or fn.args.kwarg or fn.name in self.stack or len(self.stack) >= MAX_DEPTH:
            return None
        if any(isinstance(n, (ast.Yield, ast.YieldFrom, ast.Await)) for n in ast.walk(fn)):
            return None
        return fn, skip

    def call_paths(self, p: GPath, call: ast.Call, target):
        """Follow a helper: the caller's path continued by each path of the helper (`ret` = the value returned)."""
        fn, skip = target
        a = fn.args
        names = [x.arg for x in a.posonlyargs + a.args]
        implicit, names = names[:skip], names[skip:]
        kwonly = [x.arg for x in a.kwonlyargs]
        if len(call.args) > len(names):
            self.fail(call, "too many positional arguments for a helper")
        env = {}
        for nm in implicit:
            env[nm] = ast.Name(id="self", ctx=ast.Load())
        for nm, arg in zip(names, call.args):
            env[nm] = self.sub(arg, p.env)
        for k in call.keywords:
            if k.arg not in names + kwonly or k.arg in env:
                self.fail(call, f"unexpected keyword {k.arg} for a helper")
            env[k.arg] = self.sub(k.value, p.env)
        defaults = dict(zip(names[len(names) - len(a.defaults):], a.defaults))
        defaults.update({x: d for x, d in zip(kwonly, a.kw_defaults) if d is not None})
        for nm in names + kwonly:
            if nm not in env:
                if nm not in defaults:
                    self.fail(call, f"helper argument {nm} missing")
                env[nm] = copy.deepcopy(defaults[nm])
        sub = GPath(env, list(p.lits), list(p.t_exprs))
        self.stack.append(fn.name)
        try:
            outs = self.block([sub], body_no_doc(fn))
        finally:
            self.stack.pop()
        res = []
        for o in outs:
            q = p.fork()
            q.lits, q.t_exprs = o.lits, o.t_exprs
            q.raised = o.raised
            q.ret = o.ret if o.ret is not None else ast.Constant(value=None)     # value of the call
            res.append(q)
        return res

    # ---- statements
    def block(self, paths, stmts):
        for st in stmts:
            nxt = []
            for p in paths:
                if p.done or p.raised:
                    nxt.append(p)
                else:
                    nxt.extend(self.stmt(p, st))
            paths = nxt
            if len(paths) > MAX_PATHS:
                self.fail(st, "too many paths through the constructor")
        return paths

    def branch(self, p: GPath, test: ast.AST, body, orelse):
        t = self.sub(test, p.env)
        tv = truth(t, {})
        if tv is True:
            return self.block([p], body)
        if tv is False:
            return self.block([p], orelse)
        a, b = p, p.fork()
        a.lits += literals(t, True)
        b.lits += literals(t, False)
        return self.block([a], body) + self.block([b], orelse)

    def assign_value(self, p: GPath, targets, val: ast.AST, node):
        """`targets = val` with val an expression of the current scope; may fork (helper call, conditional expression)."""
        if isinstance(val, ast.IfExp):
            mk = lambda v: [ast.copy_location(ast.Assign(targets=targets, value=v), node)]  # noqa: E731
            return self.branch(p, val.test, mk(val.body), mk(val.orelse))
        outs = [p]
        vals = None
        if isinstance(val, ast.Call):
            tgt = self.resolve(val)
            if tgt is not None:
                outs = self.call_paths(p, val, tgt)
                vals = [o.ret for o in outs]
                for o in outs:
                    o.ret = None
        res = []
        for i, o in enumerate(outs):
            if o.raised:
                res.append(o)
                continue
            v = vals[i] if vals is not None else self.sub(val, o.env)
            for t in targets:
                if isinstance(t, ast.Name):
                    o.env[t.id] = v
                elif isinstance(t, ast.Attribute) and isinstance(t.value, ast.Name) and t.value.id == "self" \
                        and t.attr in ("_times", "times"):
                    o.t_exprs.append(v)
                elif isinstance(t, (ast.Tuple, ast.List)):
                    for x in ast.walk(t):
                        if isinstance(x, ast.Name):
                            o.env[x.id] = self.unknown(x.id)
            res.append(o)
        return res

    def assigned_names(self, stmts):
        out = set()
        for s in stmts:
            for n in ast.walk(s):
                if isinstance(n, ast.Name) and isinstance(n.ctx, (ast.Store, ast.Del)):
                    out.add(n.id)
        return out

    def stmt(self, p: GPath, st: ast.stmt):
        if isinstance(st, ast.Assign):
            return self.assign_value(p, st.targets, st.value, st)
        if isinstance(st, ast.AnnAssign):
            return self.assign_value(p, [st.target], st.value, st) if st.value is not None else [p]
        if isinstance(st, ast.AugAssign):
            if isinstance(st.target, ast.Name):
                fake = ast.BinOp(left=ast.Name(id=st.target.id, ctx=ast.Load()), op=st.op, right=st.value)
                p.env[st.target.id] = self.sub(ast.copy_location(fake, st), p.env)
            return [p]
        if isinstance(st, ast.Expr):
            if isinstance(st.value, ast.Call):
                tgt = self.resolve(st.value)
                if tgt is not None:
                    outs = self.call_paths(p, st.value, tgt)
                    for o in outs:
                        o.ret = None
                    return outs
            return [p]
        if isinstance(st, ast.Return):
            if st.value is None:
                p.ret, p.done = ast.Constant(value=None), True
                return [p]
            if isinstance(st.value, ast.IfExp):
                mk = lambda v: [ast.copy_location(ast.Return(value=v), st)]  # noqa: E731
                return self.branch(p, st.value.test, mk(st.value.body), mk(st.value.orelse))
            if isinstance(st.value, ast.Call):
                tgt = self.resolve(st.value)
                if tgt is not None:
                    outs = self.call_paths(p, st.value, tgt)
                    for o in outs:
                        o.done = not o.raised
                    return outs
            p.ret, p.done = self.sub(st.value, p.env), True
            return [p]
        if isinstance(st, ast.Raise):
            p.raised = True
            return [p]
        if isinstance(st, ast.If):
            return self.branch(p, st.test, st.body, st.orelse)
        if isinstance(st, ast.Match):
            return self.match(p, st)
        if isinstance(st, ast.With):
            for it in st.items:
                if it.optional_vars is not None:
                    for x in ast.walk(it.optional_vars):
                        if isinstance(x, ast.Name):
                            p.env[x.id] = self.unknown(x.id)
            return self.block([p], st.body)
        if isinstance(st, ast.Try):
            entry = p.fork()
            outs = self.block(self.block([p], st.body), st.orelse)
            for h in st.handlers:
                q = entry.fork()
                for nm in self.assigned_names(st.body):
                    q.env[nm] = self.unknown(nm)
                if h.name:
                    q.env[h.name] = self.unknown(h.name)
                outs += self.block([q], h.body)
            return self.block(outs, st.finalbody)
        if isinstance(st, (ast.For, ast.While)):
            # not followed (a refusal written as a loop is not recognised -> the guard is missing -> fail closed)
            for nm in self.assigned_names([st]):
                p.env[nm] = self.unknown(nm)
            return [p]
        if isinstance(st, ast.Delete):
            for nm in self.assigned_names([st]):
                p.env[nm] = self.unknown(nm)
            return [p]
        if isinstance(st, (ast.Pass, ast.Import, ast.ImportFrom, ast.Assert, ast.Global, ast.Nonlocal, ast.FunctionDef,
                           ast.ClassDef)):
            return [p]
        self.fail(st, "statement shape not accepted in a constructor that refuses schedules")

    def match(self, p: GPath, st: ast.Match):
        chain = match_as_if(st)
        if chain is None:
            self.fail(st, "match statement with patterns other than literals")
        return self.block([p], chain)


def match_as_if(st: ast.Match):
    """`match` on literals / enum members / None (| alternatives, `_` last) == if/elif on `==` / `is`: the equivalent
    statement list, or None for any other pattern (captures, guards, sequences, classes)."""
    def test_of(pat):
        if isinstance(pat, ast.MatchValue):
            return ast.Compare(left=copy.deepcopy(st.subject), ops=[ast.Eq()], comparators=[pat.value])
        if isinstance(pat, ast.MatchSingleton):
            return ast.Compare(left=copy.deepcopy(st.subject), ops=[ast.Is()], comparators=[ast.Constant(value=pat.value)])
        if isinstance(pat, ast.MatchOr):
            ts = [test_of(x) for x in pat.patterns]
            return None if any(t is None or t is True for t in ts) else ast.BoolOp(op=ast.Or(), values=ts)
        if isinstance(pat, ast.MatchAs) and pat.pattern is None and pat.name is None:
            return True
        return None

    if not isinstance(st.subject, (ast.Name, ast.Attribute)):
        return None                                   # the subject would be evaluated once per arm
    chain = []
    for c in st.cases:
        t = test_of(c.pattern)
        if t is None or c.guard is not None:
            return None
        chain.append((t, c.body))
    if any(t is True for t, _ in chain[:-1]):
        return None
    orelse: list = []
    for t, body in reversed(chain):
        if t is True:
            orelse = body
        else:
            orelse = [ast.fix_missing_locations(ast.copy_location(ast.If(test=t, body=body, orelse=orelse), st))]
    return orelse


# ------------------------------------------------------------------------------------------ the table

def _normalise(e: ast.AST, t_texts: set, times_is_t: bool) -> str:
    """The test over T (the array of readout times) and S (the start time)."""

    def is_t(n):
        return (isinstance(n, ast.Attribute) and isinstance(n.value, ast.Name) and n.value.id == "self" and n.attr in ("_times", "times")) \
            or (times_is_t and isinstance(n, ast.Name) and n.id == "times") or ast.unparse(n) in t_texts

    class T(ast.NodeTransformer):
        def visit(s, n):  # noqa: N805
            if isinstance(n, ast.expr):
                if is_t(n):
                    return ast.Name(id="T", ctx=ast.Load())
                if (isinstance(n, ast.Attribute) and isinstance(n.value, ast.Name) and n.value.id == "self"
                        and n.attr in ("_start_time", "start_time")) or (isinstance(n, ast.Name) and n.id == "start_time"):
                    return ast.Name(id="S", ctx=ast.Load())
            n = s.generic_visit(n)
            # a conversion of T is T: np.array(T, dtype=float), np.asarray(T), T.copy()
            if isinstance(n, ast.Call):
                fn = _dotted(n.func)
                if fn in _CONV_FUNCS - {"list", "tuple"} and n.args and isinstance(n.args[0], ast.Name) and n.args[0].id == "T" \
                        and all(k.arg in ("dtype", "copy") for k in n.keywords) and len(n.args) == 1:
                    return ast.Name(id="T", ctx=ast.Load())
                if isinstance(n.func, ast.Attribute) and n.func.attr == "copy" and isinstance(n.func.value, ast.Name) \
                        and n.func.value.id == "T" and not n.args:
                    return ast.Name(id="T", ctx=ast.Load())
            return n

    return ast.unparse(ast.fix_missing_locations(T().visit(copy.deepcopy(e))))


def _mentions_schedule(text: str) -> bool:
    return bool({"T", "S"} & {n.id for n in ast.walk(ast.parse(text, mode="eval")) if isinstance(n, ast.Name)})


def readout_guards(repo: Path, rel: str, cls_name: str, times_is_t: bool) -> dict:
    tree = parse(repo, rel)
    fn = find_func(tree, "__init__", cls=cls_name)
    cls = next(n for n in ast.walk(tree) if isinstance(n, ast.ClassDef) and n.name == cls_name)
    w = Walker(rel, tree, cls)
    outs = w.block([GPath()], body_no_doc(fn))
    accepting = [o for o in outs if not o.raised]
    if not accepting:
        raise TranslationError(f"{rel}: {cls_name}.__init__ raises on every path")
    present = {k: True for k in GUARD_ORDER}
    first_seen: dict[str, int] = {}
    empty_refused = True
    for o in accepting:
        t_texts = {ast.unparse(x) for x in o.t_exprs if not isinstance(x, ast.Constant)}
        norm = [(_normalise(e, t_texts, times_is_t), pol, e) for e, pol in o.lits]
        passed = set()
        for i, (text, pol, e) in enumerate(norm):
            if not _mentions_schedule(text):
                continue
            kinds = [k for k in GUARD_ORDER if (text, not pol) in _REFUSING[k]]
            if kinds:
                passed.add(kinds[0])
                first_seen.setdefault(kinds[0], len(first_seen))
            elif (text, not pol) in _HARMLESS:
                pass
            else:
                raise TranslationError(f"{rel}:{getattr(e, 'lineno', '?')}: {cls_name}.__init__ accepts a schedule after the test "
                                       f"`{text}` = {pol}, which is not the passing side of a known refusal")
        for k in GUARD_ORDER:
            if k not in passed:
                present[k] = False
        hyp = {"times": EMPTY, "times_from_file": None}
        if not any(truth(e, hyp) is (not pol) for e, pol in o.lits):
            empty_refused = False
    guards = sorted((k for k in GUARD_ORDER if present[k]), key=lambda k: first_seen.get(k, 99))
    return dict(guards=guards, empty_refused=empty_refused, paths=len(outs), accepting=len(accepting))
