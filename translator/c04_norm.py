"""General, behaviour-preserving normalisations of python ASTs used by translator/c04.py BEFORE it reads a
function, so that equivalent shapes give the same tables (nothing here knows any particular patch):

  inline_helpers   a statement `x = helper(...)` / `x: T = helper(...)` / `helper(...)` / `return helper(...)` whose
                   callee is a plain function of the same module (or a method of the same class called through
                   `self.`) is replaced by the helper's body: parameters bound by assignments, the helper's
                   locals renamed apart, `return e` in tail position -> `x = e`.  Early returns are first turned
                   into if/else (guards_to_ifelse).  Anything it cannot do SAFELY is left alone (the reader
                   then sees an unknown call and fails closed as before).
  guards_to_ifelse `if c: A; return` + rest  ==  `if c: A else: rest` at the tail of a function body;
                   `if c: A; continue` + rest  ==  `if c: A else: rest` at the tail of a loop body.
  subst_aliases    a local bound exactly ONCE (plain / annotated assignment, not in a loop) to a name or an
                   attribute chain whose root name and chain are never assigned elsewhere in the function is
                   replaced by that expression at every use that comes after the binding.
"""
from __future__ import annotations

import ast
import copy

MAX_DEPTH = 3


# ------------------------------------------------------------------ guards


def _always_exits(stmts, kinds) -> bool:
    if not stmts:
        return False
    last = stmts[-1]
    if isinstance(last, kinds):
        return True
    if isinstance(last, ast.If) and last.orelse:
        return _always_exits(last.body, kinds) and _always_exits(last.orelse, kinds)
    return False


def guards_to_ifelse(stmts, exit_kinds=(ast.Return, ast.Raise)):
    """stmts is the TAIL of a function body (nothing runs after it).  Returns a new list."""
    out = []
    for i, st in enumerate(stmts):
        rest = stmts[i + 1:]
        if isinstance(st, ast.If):
            body = guards_to_ifelse(st.body, exit_kinds) if not rest else st.body
            orelse = guards_to_ifelse(st.orelse, exit_kinds) if not rest else st.orelse
            if rest and _always_exits(st.body, exit_kinds):
                new = ast.If(test=st.test, body=guards_to_ifelse(st.body, exit_kinds),
                             orelse=guards_to_ifelse(list(st.orelse) + list(rest), exit_kinds))
                out.append(ast.copy_location(new, st))
                return out
            if rest and st.orelse and _always_exits(st.orelse, exit_kinds):
                new = ast.If(test=st.test, body=guards_to_ifelse(list(st.body) + list(rest), exit_kinds),
                             orelse=guards_to_ifelse(st.orelse, exit_kinds))
                out.append(ast.copy_location(new, st))
                return out
            out.append(ast.copy_location(ast.If(test=st.test, body=body, orelse=orelse), st))
            continue
        if isinstance(st, ast.With) and not rest:
            out.append(ast.copy_location(ast.With(items=st.items, body=guards_to_ifelse(st.body, exit_kinds)), st))
            continue
        out.append(st)
    return out


def ifelse_to_ifexp(stmts):
    """`if c: t = a else: t = b` (one assignment to the same target in each branch) -> `t = a if c else b`;
    a trailing bare `return` in either branch is ignored (tail of a function)."""
    out = []
    for st in stmts:
        if isinstance(st, ast.If) and st.orelse:
            b = [x for x in ifelse_to_ifexp(st.body) if not (isinstance(x, ast.Return) and x.value is None)]
            o = [x for x in ifelse_to_ifexp(st.orelse) if not (isinstance(x, ast.Return) and x.value is None)]

            def tv(x):
                if isinstance(x, ast.Assign) and len(x.targets) == 1:
                    return x.targets[0], x.value
                if isinstance(x, ast.AnnAssign) and x.value is not None:
                    return x.target, x.value
                return None, None
            def raise_only(x):
                return isinstance(x, ast.If) and not x.orelse and all(isinstance(y, ast.Raise) for y in x.body)
            if all(isinstance(y, ast.Raise) for y in b) and b:
                # `if c: raise ... else: REST`  ==  the guard `if c: raise ...` followed by REST
                out.append(ast.copy_location(ast.If(test=st.test, body=b, orelse=[]), st))
                out += o
                continue
            # validation that only raises does not change what is stored on the paths that go on
            b = [x for x in b if not raise_only(x)]
            o = [x for x in o if not raise_only(x)]
            if len(b) == 1 and len(o) == 1:
                (tb, vb), (to, vo) = tv(b[0]), tv(o[0])
                if tb is not None and to is not None and ast.unparse(tb) == ast.unparse(to):
                    new = ast.Assign(targets=[tb], value=ast.IfExp(test=st.test, body=vb, orelse=vo), lineno=st.lineno)
                    out.append(ast.fix_missing_locations(ast.copy_location(new, st)))
                    continue
        out.append(st)
    return out


def normalise_loops(node):
    """`if c: ...; continue` + rest at the tail of a loop body -> if/else (the trailing `continue` is dropped)."""
    for n in ast.walk(node):
        if isinstance(n, (ast.For, ast.While)):
            body = guards_to_ifelse(n.body, (ast.Continue,))
            n.body = _drop_tail(body, ast.Continue) or [ast.Pass()]
    return node


def _drop_tail(stmts, kind):
    """Remove a bare `kind` statement in tail position (recursively through if/else)."""
    if not stmts:
        return stmts
    last = stmts[-1]
    if isinstance(last, kind) and (not isinstance(last, ast.Return) or last.value is None):
        return stmts[:-1]
    if isinstance(last, ast.If):
        new = ast.If(test=last.test, body=_drop_tail(last.body, kind) or [ast.Pass()],
                     orelse=_drop_tail(last.orelse, kind))
        return stmts[:-1] + [ast.copy_location(new, last)]
    return stmts


# ------------------------------------------------------------------ inlining


def _tail_returns_only(stmts) -> bool:
    """Every `return` of the statement list is in tail position (after guards_to_ifelse)."""
    def ok(ss, tail):
        for i, st in enumerate(ss):
            is_last = tail and i == len(ss) - 1
            if isinstance(st, ast.Return):
                if not is_last:
                    return False
                continue
            if isinstance(st, ast.If):
                if not ok(st.body, is_last) or not ok(st.orelse, is_last):
                    return False
                continue
            if isinstance(st, (ast.FunctionDef, ast.AsyncFunctionDef, ast.ClassDef)):
                return False
            if isinstance(st, ast.With):
                # `with cm: ...; return e` in tail position: the value is computed inside the block either way
                if not ok(st.body, is_last):
                    return False
                continue
            if any(isinstance(x, ast.Return) for x in ast.walk(st)):
                return False
        return True
    return ok(stmts, True)


def _inlinable(fn) -> bool:
    if not isinstance(fn, ast.FunctionDef):
        return False
    if any(ast.unparse(d) not in ("staticmethod",) for d in fn.decorator_list):
        return False
    a = fn.args
    if a.vararg or a.kwarg or a.posonlyargs:
        return False
    for n in ast.walk(fn):
        if isinstance(n, (ast.Yield, ast.YieldFrom, ast.Await, ast.Global, ast.Nonlocal, ast.Lambda)):
            return False
        if n is not fn and isinstance(n, (ast.FunctionDef, ast.AsyncFunctionDef, ast.ClassDef)):
            return False
    return True


def _body_no_doc(fn):
    b = list(fn.body)
    if b and isinstance(b[0], ast.Expr) and isinstance(b[0].value, ast.Constant) and isinstance(b[0].value.value, str):
        b = b[1:]
    return b


class _Rename(ast.NodeTransformer):
    def __init__(self, names, suffix):
        self.names, self.suffix = names, suffix

    def visit_Name(self, n):
        if n.id in self.names:
            return ast.copy_location(ast.Name(id=n.id + self.suffix, ctx=n.ctx), n)
        return n


def _stored_names(stmts) -> set:
    out = set()
    for st in stmts:
        for n in ast.walk(st):
            if isinstance(n, ast.Name) and isinstance(n.ctx, (ast.Store, ast.Del)):
                out.add(n.id)
            elif isinstance(n, ast.ExceptHandler) and n.name:
                out.add(n.name)
    return out


def _bind(fn, call, is_method):
    """[(param, arg expr)] or None when the call does not bind cleanly."""
    params = [a.arg for a in fn.args.args]
    if is_method:
        if not params:
            return None
        params = params[1:]          # `self` stays `self` (same object: the call is self.<method>(...))
    kwonly = [a.arg for a in fn.args.kwonlyargs]
    defaults = dict(zip(params[len(params) - len(fn.args.defaults):], fn.args.defaults)) if fn.args.defaults else {}
    for a, d in zip(fn.args.kwonlyargs, fn.args.kw_defaults):
        if d is not None:
            defaults[a.arg] = d
    if any(isinstance(x, ast.Starred) for x in call.args) or any(k.arg is None for k in call.keywords):
        return None
    if len(call.args) > len(params):
        return None
    got = {}
    for p, x in zip(params, call.args):
        got[p] = x
    for k in call.keywords:
        if k.arg in got or k.arg not in params + kwonly:
            return None
        got[k.arg] = k.value
    out = []
    for p in params + kwonly:
        if p in got:
            out.append((p, got[p]))
        elif p in defaults:
            out.append((p, defaults[p]))
        else:
            return None
    return out


class Inliner:
    def __init__(self, module: ast.Module, cls: ast.ClassDef | None = None, stop=(), only=None):
        self.funcs = {n.name: n for n in module.body if isinstance(n, ast.FunctionDef)}
        self.methods = {n.name: n for n in (cls.body if cls is not None else []) if isinstance(n, ast.FunctionDef)}
        if only is not None:
            self.funcs = {k: v for k, v in self.funcs.items() if only(v)}
            self.methods = {k: v for k, v in self.methods.items() if only(v)}
        self.stop = set(stop)
        self.k = 0

    def resolve(self, call):
        f = call.func
        if isinstance(f, ast.Name) and f.id in self.funcs and f.id not in self.stop:
            return self.funcs[f.id], False
        if isinstance(f, ast.Attribute) and isinstance(f.value, ast.Name) and f.value.id == "self" \
                and f.attr in self.methods and f.attr not in self.stop:
            m = self.methods[f.attr]
            if any(ast.unparse(d) in ("staticmethod", "classmethod", "property") for d in m.decorator_list):
                return None
            return m, True
        return None

    def expand(self, call, sink, depth, active):
        """Statements replacing a statement whose value is `call`; sink(value expr or None) -> statement list for a
        tail `return value`.  None when not possible."""
        r = self.resolve(call)
        if r is None:
            return None
        fn, is_method = r
        if fn.name in active or depth >= MAX_DEPTH or not _inlinable(fn):
            return None
        binds = _bind(fn, call, is_method)
        if binds is None:
            return None
        body = guards_to_ifelse(copy.deepcopy(_body_no_doc(fn)))
        if not _tail_returns_only(body):
            return None
        self.k += 1
        suffix = f"__h{self.k}"
        local = _stored_names(body) | {p for p, _ in binds}
        ren = _Rename(local, suffix)
        body = [ren.visit(st) for st in body]
        pre = [ast.Assign(targets=[ast.Name(id=p + suffix, ctx=ast.Store())], value=copy.deepcopy(v), lineno=call.lineno)
               for p, v in binds]

        def tails(ss):
            if not ss:
                return sink(None)
            out = list(ss[:-1])
            last = ss[-1]
            if isinstance(last, ast.Return):
                out += sink(last.value)
            elif isinstance(last, ast.If):
                out.append(ast.copy_location(ast.If(test=last.test, body=tails(last.body), orelse=tails(last.orelse)), last))
            elif isinstance(last, ast.With) and any(isinstance(x, ast.Return) for x in ast.walk(last)):
                out.append(ast.copy_location(ast.With(items=last.items, body=tails(last.body)), last))
            elif isinstance(last, ast.Raise):
                out.append(last)
            else:
                out.append(last)
                out += sink(None)
            return out

        new = pre + tails(body)
        new = self.block(new, depth + 1, active | {fn.name})
        for st in new:
            ast.fix_missing_locations(st)
        return new

    def stmt(self, st, depth, active):
        none = ast.Constant(value=None)
        if isinstance(st, ast.Assign) and len(st.targets) == 1 and isinstance(st.value, ast.Call):
            tgt = st.targets[0]
            return self.expand(st.value, lambda v: [ast.Assign(targets=[copy.deepcopy(tgt)], value=v or none, lineno=st.lineno)],
                               depth, active)
        if isinstance(st, ast.AnnAssign) and st.value is not None and isinstance(st.value, ast.Call):
            tgt = st.target
            return self.expand(st.value, lambda v: [ast.Assign(targets=[copy.deepcopy(tgt)], value=v or none, lineno=st.lineno)],
                               depth, active)
        if isinstance(st, ast.Expr) and isinstance(st.value, ast.Call):
            return self.expand(st.value, lambda v: ([ast.Expr(value=v)] if v is not None else []), depth, active)
        if isinstance(st, ast.Return) and isinstance(st.value, ast.Call):
            return self.expand(st.value, lambda v: [ast.Return(value=v)], depth, active)
        return None

    def block(self, stmts, depth=0, active=frozenset()):
        out = []
        for st in stmts:
            new = None
            try:
                new = self.stmt(st, depth, active)
            except Exception:  # noqa: BLE001 - never let a normalisation break the reader: leave the call alone
                new = None
            if new is not None:
                out += new or [ast.Pass()]
                continue
            for field in ("body", "orelse", "finalbody"):
                sub = getattr(st, field, None)
                if isinstance(sub, list) and sub and isinstance(sub[0], ast.stmt) \
                        and not isinstance(st, (ast.FunctionDef, ast.AsyncFunctionDef, ast.ClassDef)):
                    setattr(st, field, self.block(sub, depth, active))
            if isinstance(st, ast.Try):
                for h in st.handlers:
                    h.body = self.block(h.body, depth, active)
            out.append(st)
        return out


# ------------------------------------------------------------------ aliases


def _chain(e):
    """['a', 'b', 'c'] for a.b.c ; None for anything else."""
    parts = []
    while isinstance(e, ast.Attribute):
        parts.append(e.attr)
        e = e.value
    if isinstance(e, ast.Name):
        return [e.id] + parts[::-1]
    return None


def subst_aliases(fn: ast.FunctionDef):
    params = {a.arg for a in fn.args.args + fn.args.kwonlyargs + fn.args.posonlyargs}
    if fn.args.vararg:
        params.add(fn.args.vararg.arg)
    if fn.args.kwarg:
        params.add(fn.args.kwarg.arg)
    # how often, and how, every name / attribute chain is (re)bound in the function
    name_stores, chain_stores, loop_depth = {}, [], {}
    nested = [n for n in ast.walk(fn) if n is not fn and isinstance(n, (ast.FunctionDef, ast.AsyncFunctionDef, ast.Lambda, ast.ClassDef))]
    nested_ids = {id(x) for f in nested for x in ast.walk(f)}
    for n in ast.walk(fn):
        if isinstance(n, ast.Name) and isinstance(n.ctx, (ast.Store, ast.Del)):
            name_stores[n.id] = name_stores.get(n.id, 0) + 1
        elif isinstance(n, ast.Attribute) and isinstance(n.ctx, (ast.Store, ast.Del)):
            c = _chain(n)
            if c:
                chain_stores.append(c)
        elif isinstance(n, (ast.Global, ast.Nonlocal)):
            for x in n.names:
                name_stores[x] = name_stores.get(x, 0) + 5
        elif isinstance(n, ast.ExceptHandler) and n.name:
            name_stores[n.name] = name_stores.get(n.name, 0) + 5
    in_loop, inner_loop = set(), {}
    for n in ast.walk(fn):          # breadth first: inner loops are met later and overwrite the entry
        if isinstance(n, (ast.For, ast.While, ast.AsyncFor)):
            for st in n.body + n.orelse:
                for x in ast.walk(st):
                    in_loop.add(id(x))
                    inner_loop[id(x)] = n
    aliases = {}     # name -> (value expr, line of the binding)
    cands = []
    loop_bound = {x.id for n in ast.walk(fn) if isinstance(n, (ast.For, ast.While, ast.AsyncFor)) for st in ([n.target] if hasattr(n, 'target') else []) + n.body + n.orelse
                  for x in ast.walk(st) if isinstance(x, ast.Name) and isinstance(x.ctx, ast.Store)}
    for n in ast.walk(fn):
        tgt = v = None
        if isinstance(n, ast.Assign) and len(n.targets) == 1:
            tgt, v = n.targets[0], n.value
        elif isinstance(n, ast.AnnAssign) and n.value is not None:
            tgt, v = n.target, n.value
        if not isinstance(tgt, ast.Name) or id(n) in nested_ids:
            continue
        if tgt.id in params or name_stores.get(tgt.id, 0) != 1:
            continue
        c = _chain(v)
        if c is None:
            continue
        cands.append((tgt.id, v, c, n))
    changed = True
    while changed:
        changed = False
        for name, v, c, n in cands:
            if name in aliases:
                continue
            root = c[0]
            if id(n) in in_loop:
                # bound afresh in every iteration, right before its uses (which must come later in the text): fine as
                # long as nothing inside that loop's body rebinds the root (the loop's own target is bound outside it)
                lp = inner_loop[id(n)]
                if any(isinstance(x, ast.Name) and x.id == root and isinstance(x.ctx, (ast.Store, ast.Del))
                       for st in lp.body + lp.orelse for x in ast.walk(st)):
                    continue
            elif root in params:
                if name_stores.get(root, 0) != 0:
                    continue                            # the parameter is rebound somewhere: not a stable alias
            elif root in name_stores:
                if name_stores[root] != 1 or root in loop_bound:
                    continue                            # a local bound more than once / inside a loop
            if any(len(s) <= len(c) and c[:len(s)] == s for s in chain_stores):
                continue                                # the chain (or a prefix of it) is assigned to in the function
            if any(isinstance(x, ast.Name) and x.id == name for f in nested for x in ast.walk(f)):
                continue                                # captured by a closure
            aliases[name] = (v, n.lineno, getattr(n, "end_lineno", n.lineno))
            changed = True
    if not aliases:
        return fn

    class Sub(ast.NodeTransformer):
        def visit_Name(self, n):
            if isinstance(n.ctx, ast.Load) and n.id in aliases:
                v, ln, end = aliases[n.id]
                if getattr(n, "lineno", 0) > end:
                    return ast.copy_location(copy.deepcopy(v), n)
            return n

    # to a fixpoint (alias of an alias)
    for _ in range(4):
        Sub().visit(fn)
        for k, (v, ln, end) in list(aliases.items()):
            aliases[k] = (Sub().visit(copy.deepcopy(v)), ln, end)
    return fn


# ------------------------------------------------------------------ entry point


def normalised(fn: ast.FunctionDef, module: ast.Module, cls: ast.ClassDef | None = None, stop=(), only=None) -> ast.FunctionDef:
    """A normalised deep copy of `fn` (helpers inlined, guards -> if/else, aliases substituted)."""
    new = copy.deepcopy(fn)
    try:
        inl = Inliner(module, cls, stop=set(stop) | {fn.name}, only=only)
        new.body = inl.block(new.body)
        new.body = guards_to_ifelse(new.body)
        normalise_loops(new)
        ast.fix_missing_locations(new)
        # line numbers of inlined statements are those of the helper: give the whole function fresh, increasing ones
        _renumber(new)
        subst_aliases(new)
    except RecursionError:
        return copy.deepcopy(fn)
    return new


def _renumber(fn):
    """Re-derive line numbers from the unparsed text so that `use comes after binding` can be read off them."""
    text = ast.unparse(fn)
    fresh = ast.parse(text).body[0]
    fn.body, fn.args, fn.decorator_list = fresh.body, fresh.args, fresh.decorator_list
    return fn


def resolve(fn: ast.FunctionDef, e):
    """A named intermediate result: the expression a Name is bound to, when the name is bound exactly once in the
    function (plain / annotated assignment, not in a loop) and the object is never changed through the name
    (`name[k] = v`, `del name[k]`, `name.method(...)`, augmented assignment).  Otherwise `e` itself."""
    seen = 0
    while isinstance(e, ast.Name) and seen < 4:
        seen += 1
        name = e.id
        binds, bad = [], False
        loop_ids = {id(x) for n in ast.walk(fn) if isinstance(n, (ast.For, ast.While, ast.AsyncFor))
                    for st in n.body + n.orelse for x in ast.walk(st)}
        for n in ast.walk(fn):
            if isinstance(n, ast.Assign) and len(n.targets) == 1 and isinstance(n.targets[0], ast.Name) and n.targets[0].id == name:
                binds.append(n)
            elif isinstance(n, ast.AnnAssign) and n.value is not None and isinstance(n.target, ast.Name) and n.target.id == name:
                binds.append(n)
            elif isinstance(n, ast.Name) and n.id == name and isinstance(n.ctx, (ast.Store, ast.Del)):
                pass
            elif isinstance(n, ast.AugAssign) and isinstance(n.target, ast.Name) and n.target.id == name:
                bad = True
            elif isinstance(n, (ast.Subscript, ast.Attribute)) and isinstance(n.value, ast.Name) and n.value.id == name:
                if isinstance(n.ctx, (ast.Store, ast.Del)):
                    bad = True
            elif isinstance(n, ast.Call) and isinstance(n.func, ast.Attribute) and isinstance(n.func.value, ast.Name) \
                    and n.func.value.id == name:
                bad = True
        stores = sum(1 for n in ast.walk(fn) if isinstance(n, ast.Name) and n.id == name and isinstance(n.ctx, (ast.Store, ast.Del)))
        if bad or len(binds) != 1 or stores != 1 or id(binds[0]) in loop_ids:
            return e
        e = binds[0].value
    return e
