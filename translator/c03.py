"""C03: the declarative part of the result assembly -> Gen_C03.v (src_tables, src_shape).

Read from the CURRENT source tree, fail closed on any shape that is not listed here.  Every function is first brought
into a NORMAL FORM by translator/c03_norm.py (private helpers / methods inlined, a private `def f: return e` handed over as a
function object -> lambda, guard clauses and early returns / continues -> if/else, `not` pushed inward, negated test with an
else branch -> branches swapped, nested ifs merged, match on literals -> if/elif, single-assignment aliases of stable
expressions and a boolean used by the very next `if` substituted, module-level constants resolved, f-strings flattened), and
every branching block (key loops, the dtype restoration, the debug comparison) is RUN for all valuations of its conditions
instead of being compared by shape -- so the shapes below stand for everything these normalisations map onto them:

* pyxel/exposure/exposure.py `_extract_datatree_2d`: the tuple of keys, which of them the loop skips, that the
  variable `dataset[key]` is `getattr(detector, key).to_xarray()` (same key on both sides; an unrolled
  `dataset["k"] = detector.a.to_xarray()` sequence is accepted too)            -> tb_exported
  the time label `xr.DataArray([detector.<absolute_time|time>], dims=<d>)` given to `assign_coords(time=...)`
  after `expand_dims(dim=<d>)`                                                   -> tb_label, sf_time_dim
* `run_pipeline`: per step `detector.empty(<flag>)`, `processor.run_pipeline(...)`, `_extract_datatree_2d(...)`,
  the combination `xr.map_over_datasets(lambda *data: xr.concat(data, dim=<d>), <accumulated>, <step>)` in
  the else branch of `if <accumulated>.is_empty: <accumulated> = <step>`; the dtype restoration
  `if detector.image._array is not None: ... <acc>["image"] = <acc>["image"].astype(dtype=detector.image.dtype)`;
  the keys of the final dictionary with their guards; the scene rule; the sources of /scene, /data,
  /intermediate                                                                  -> src_shape
* `to_xarray` of ArrayBase (pixel, signal, image: no override allowed), Photon (2-D and 3-D branch), Charge:
  dims, first index of the y / x coordinates, whether the data handed to the DataArray is a COPY of the
  container's buffer (np.array(..) / .copy() / .astype(..) without copy=False: yes; np.asarray(..), a bare
  attribute or name, .astype(.., copy=False): no), whether the dtype is kept  -> tb_copies, sf_dims, sf_origin, sf_cast
* `Detector.to_xarray`: the tuple of names, the all-zero skip, the ndim filter     -> tb_visible, tb_skip_zero
* `ModelGroup.run`: the reference of the debug comparison is `detector.to_xarray().copy(deep=True)` taken in an
  `if debug:` before the `model(detector)` call; np.allclose; the node path       -> src_shape
"""
from __future__ import annotations

import ast
import re
from pathlib import Path

from harness.core import TranslationError

from . import c03_norm as N
from .common import HEADER, body_no_doc, fail, find_func, parse

BUCKET = dict(photon="Photon", charge="Charge", pixel="Pixel", signal="Signal", image="Image")
KINDS = ["KPhoton2", "KPhoton3", "KCharge", "KPixel", "KSignal", "KImage"]


# ------------------------------------------------------------------------------------------ helpers


def _assigns(fn: ast.AST, module: ast.Module | None = None) -> dict:
    """name -> list of value expressions assigned to it anywhere in fn (simple and annotated assignments); with `module`:
    a name that fn does not bind at all is looked up among the module-level assignments (a constant moved out of fn)."""
    out: dict = {}
    if module is not None:
        bound = N.bindings(fn)
        for n in module.body:
            if isinstance(n, ast.Assign) and len(n.targets) == 1 and isinstance(n.targets[0], ast.Name) and n.targets[0].id not in bound:
                out.setdefault(n.targets[0].id, []).append(n.value)
            elif isinstance(n, ast.AnnAssign) and isinstance(n.target, ast.Name) and n.value is not None and n.target.id not in bound:
                out.setdefault(n.target.id, []).append(n.value)
    for n in ast.walk(fn):
        if isinstance(n, ast.Assign) and len(n.targets) == 1 and isinstance(n.targets[0], ast.Name):
            out.setdefault(n.targets[0].id, []).append(n.value)
        elif isinstance(n, ast.AnnAssign) and isinstance(n.target, ast.Name) and n.value is not None:
            out.setdefault(n.target.id, []).append(n.value)
    return out


def _resolve(node: ast.AST, env: dict, depth: int = 0) -> ast.AST:
    """Follow a name through its single assignment (fail closed on several)."""
    while isinstance(node, ast.Name) and node.id in env and depth < 6:
        vals = env[node.id]
        if len(vals) != 1:
            fail(node, f"`{node.id}` is assigned {len(vals)} times")
        node = vals[0]
        depth += 1
    return node


class _WriteOut(ast.NodeTransformer):
    def __init__(self, env, depth=0):
        self.env, self.depth = env, depth

    def visit_Name(self, node):
        vals = self.env.get(node.id, [])
        if isinstance(node.ctx, ast.Load) and len(vals) == 1 and self.depth < 6:
            import copy
            return _WriteOut(self.env, self.depth + 1).visit(copy.deepcopy(vals[0]))
        return node


def _written_out(node: ast.AST, env: dict) -> ast.AST:
    """The expression with every single-assignment name of env replaced by its value (named intermediate results)."""
    import copy
    return _WriteOut(env).visit(copy.deepcopy(node))


def _const_str(node: ast.AST) -> str:
    if isinstance(node, ast.Constant) and isinstance(node.value, str):
        return node.value
    fail(node, "expected a string literal")


def _str_tuple(node: ast.AST) -> list:
    if isinstance(node, (ast.Tuple, ast.List)):
        return [_const_str(e) for e in node.elts]
    fail(node, "expected a tuple of string literals")


def _kw(call: ast.Call, name: str):
    for k in call.keywords:
        if k.arg == name:
            return k.value
    return None


def _is_call(node, dotted: str) -> bool:
    return isinstance(node, ast.Call) and ast.unparse(node.func) == dotted


def _calls(node: ast.AST, pred) -> list:
    return [n for n in ast.walk(node) if isinstance(n, ast.Call) and pred(n)]


def _bucket(name: str, node=None) -> str:
    if name not in BUCKET:
        fail(node, f"unknown container name {name!r}")
    return BUCKET[name]


# ------------------------------------------------------------------------------------------ _extract_datatree_2d


def _key_atom(test: ast.AST, var: str, key: str):
    """One leaf of a condition on the loop key, for one key: key.startswith(c) / key.endswith(c), key == c, key in (..);
    None for anything else (not a condition on the key)."""
    if (isinstance(test, ast.Call) and isinstance(test.func, ast.Attribute) and test.func.attr in ("startswith", "endswith")
            and isinstance(test.func.value, ast.Name) and test.func.value.id == var and len(test.args) == 1 and not test.keywords):
        a = test.args[0]
        cs = tuple(_str_tuple(a)) if isinstance(a, (ast.Tuple, ast.List)) else (_const_str(a),)
        return key.startswith(cs) if test.func.attr == "startswith" else key.endswith(cs)
    if isinstance(test, ast.Compare) and len(test.ops) == 1:
        op, lhs, rhs = test.ops[0], test.left, test.comparators[0]
        if isinstance(op, (ast.Eq, ast.NotEq)) and isinstance(rhs, ast.Name) and rhs.id == var:
            lhs, rhs = rhs, lhs                                  # "charge" == name
        if isinstance(lhs, ast.Name) and lhs.id == var:
            if isinstance(op, (ast.Eq, ast.NotEq)):
                r = key == _const_str(rhs)
                return r if isinstance(op, ast.Eq) else not r
            if isinstance(op, (ast.In, ast.NotIn)):
                r = key in _str_tuple(rhs)
                return r if isinstance(op, ast.In) else not r
    return None


def _extract(tree: ast.Module) -> dict:
    fn = N.normalize(find_func(tree, "_extract_datatree_2d"), tree)
    if [a.arg for a in fn.args.args] != ["detector"]:
        fail(fn, "_extract_datatree_2d signature")
    env = _assigns(fn, tree)
    body = body_no_doc(fn)
    loops = [n for n in body if isinstance(n, ast.For)]
    pairs: list = []
    ds_name = None
    if len(loops) == 1:
        lp = loops[0]
        if not isinstance(lp.target, ast.Name) or lp.orelse:
            fail(lp, "key loop target")
        var = lp.target.id
        keys = _str_tuple(_resolve(lp.iter, env))
        lenv = _assigns(lp)
        for k in keys:
            # the statements the loop body executes for this key (whatever the nesting / guard-clause style)
            stores = []
            for st in N.execute(lp.body, lambda t, k=k: _key_atom(t, var, k)):
                if isinstance(st, (ast.Assign, ast.AnnAssign)):
                    tgt = st.targets[0] if isinstance(st, ast.Assign) else st.target
                    if isinstance(tgt, ast.Subscript):
                        stores.append(st)
                    elif isinstance(tgt, ast.Attribute) and tgt.attr == "name":
                        continue                               # data_array.name = ...
                    elif not isinstance(tgt, ast.Name):
                        fail(st, "statement of the key loop")
                else:
                    fail(st, "statement of the key loop")
            if not stores:
                continue                                       # this key is skipped
            if len(stores) != 1:
                fail(lp, "the key loop must store exactly one variable per key")
            st = stores[0]
            tgt = st.targets[0] if isinstance(st, ast.Assign) else st.target
            if not (isinstance(tgt.value, ast.Name) and isinstance(tgt.slice, ast.Name) and tgt.slice.id == var):
                fail(st, "expected `dataset[key] = ...`")
            if ds_name not in (None, tgt.value.id):
                fail(st, "two step datasets")
            ds_name = tgt.value.id
            val = _resolve(st.value, lenv)
            # <obj>.to_xarray() with <obj> = getattr(detector, key)
            if not (isinstance(val, ast.Call) and isinstance(val.func, ast.Attribute) and val.func.attr == "to_xarray"
                    and not val.args and not val.keywords):
                fail(val, "the stored variable must be `<container>.to_xarray()`")
            obj = _resolve(val.func.value, lenv)
            if not (_is_call(obj, "getattr") and len(obj.args) == 2 and ast.unparse(obj.args[0]) == "detector"
                    and isinstance(obj.args[1], ast.Name) and obj.args[1].id == var):
                fail(obj, "the container must be `getattr(detector, key)` with the loop key")
            pairs.append((k, k))
        if not pairs:
            fail(fn, "no variable is stored in the step dataset")
    elif not loops:
        # unrolled: dataset["k"] = detector.<attr>.to_xarray()
        for st in body:
            if isinstance(st, ast.Assign) and len(st.targets) == 1 and isinstance(st.targets[0], ast.Subscript) \
                    and isinstance(st.targets[0].value, ast.Name) and isinstance(st.targets[0].slice, ast.Constant):
                val = _resolve(st.value, env)
                if not (isinstance(val, ast.Call) and isinstance(val.func, ast.Attribute) and val.func.attr == "to_xarray"
                        and isinstance(val.func.value, ast.Attribute) and ast.unparse(val.func.value.value) == "detector"
                        and not val.args and not val.keywords):
                    fail(st, "expected `dataset[\"k\"] = detector.<container>.to_xarray()`")
                ds_name = st.targets[0].value.id
                pairs.append((_const_str(st.targets[0].slice), val.func.value.attr))
        if not pairs:
            fail(fn, "no variable is stored in the step dataset")
    else:
        fail(fn, "_extract_datatree_2d must contain one key loop")
    seen = set()
    for v, _src in pairs:
        if v in seen:
            fail(fn, f"variable {v!r} stored twice")
        seen.add(v)
    # the time label
    ac = _calls(fn, lambda c: isinstance(c.func, ast.Attribute) and c.func.attr == "assign_coords")
    if len(ac) != 1 or ac[0].args or len(ac[0].keywords) != 1 or ac[0].keywords[0].arg is None:
        fail(fn, "expected one `assign_coords(<dim>=<label>)`")
    coord_name = ac[0].keywords[0].arg
    lab = _resolve(ac[0].keywords[0].value, env)
    if not (_is_call(lab, "xr.DataArray") and len(lab.args) >= 1 and isinstance(lab.args[0], ast.List) and len(lab.args[0].elts) == 1):
        fail(lab, "the time label must be `xr.DataArray([detector.<attr>], dims=...)`")
    src = ast.unparse(lab.args[0].elts[0])
    label = {"detector.absolute_time": "LAbsolute", "detector.time": "LRelative"}.get(src)
    if label is None:
        fail(lab, "the time label must be detector.absolute_time or detector.time")
    ldim = _kw(lab, "dims")
    ldim = _const_str(ldim if not isinstance(ldim, (ast.List, ast.Tuple)) or len(ldim.elts) != 1 else ldim.elts[0])
    ed = _calls(fn, lambda c: isinstance(c.func, ast.Attribute) and c.func.attr == "expand_dims")
    if len(ed) != 1:
        fail(fn, "expected one `expand_dims`")
    edim = _kw(ed[0], "dim") if ed[0].keywords else (ed[0].args[0] if len(ed[0].args) == 1 else None)
    edim = _const_str(edim)
    if not (edim == ldim == coord_name):
        fail(ed[0], "expand_dims, the label's dims and the coordinate name must agree")
    base = ed[0].func.value
    if not (isinstance(base, ast.Name) and base.id == ds_name):
        fail(ed[0], "expand_dims must be applied to the dataset the variables were stored in")
    if _resolve(ac[0].func.value, env) is not ed[0]:
        # dataset.expand_dims(..).assign_coords(..), possibly with the expanded dataset as a named intermediate result
        fail(ac[0], "expected `dataset.expand_dims(dim=...).assign_coords(...)`")
    rets = [n for n in ast.walk(fn) if isinstance(n, ast.Return)]
    if len(rets) != 1 or not _is_call(rets[0].value, "xr.DataTree") or len(rets[0].value.args) != 1:
        fail(fn, "must return xr.DataTree(<dataset with time>)")
    back = _resolve(rets[0].value.args[0], env)
    if back is not ac[0]:
        fail(rets[0], "the returned tree must hold the dataset with the time coordinate")
    return dict(exported=pairs, label=label, time_dim=edim)


# ------------------------------------------------------------------------------------------ run_pipeline


def _guard_of(test: ast.AST) -> str | None:
    t = ast.unparse(test)
    return {"with_inherited_coords": "GHier", "debug": "GDebug", "outputs and outputs.save_data_to_file": "GOutputs"}.get(t)


class _Fold(ast.NodeTransformer):
    """Write the attribute chain `chain` as the plain name `name` (the alias the tables are phrased in)."""

    def __init__(self, chain: str, name: str):
        self.chain, self.name = chain, name

    def visit_Attribute(self, node):
        if ast.unparse(node) == self.chain and isinstance(node.ctx, ast.Load):
            return ast.Name(id=self.name, ctx=ast.Load())
        return self.generic_visit(node)


def _run_pipeline(tree: ast.Module) -> dict:
    fn = N.normalize(find_func(tree, "run_pipeline"), tree, keep=("_extract_datatree_2d",))
    if "detector" not in N.bindings(fn):
        # `detector = processor.detector` is a single-assignment alias (substituted by the normalisation)
        fn = ast.fix_missing_locations(_Fold("processor.detector", "detector").visit(fn))
    env = _assigns(fn, tree)
    loops = [n for n in ast.walk(fn) if isinstance(n, ast.For)]
    if len(loops) != 1:
        fail(fn, "run_pipeline must contain exactly one loop over the readout steps")
    lp = loops[0]
    out: dict = {}
    # order of the per-step statements
    order = []
    acc = step = None
    fix = None
    for st in lp.body:
        src = ast.unparse(st)
        calls = [ast.unparse(c.func) for c in ast.walk(st) if isinstance(c, ast.Call)]
        if isinstance(st, ast.Expr) and _is_call(st.value, "detector.empty"):
            order.append("reset")
            c = st.value
            if len(c.args) + len(c.keywords) != 1:
                fail(st, "detector.empty must get the reset flag")
            flag = _resolve(c.args[0] if c.args else c.keywords[0].value, env)
            out["reset_negated"] = ast.unparse(flag) in ("not detector.non_destructive_readout",
                                                         "not detector.readout_properties.non_destructive")
            if not out["reset_negated"]:
                fail(st, "the reset flag must be `not detector.non_destructive_readout`")
        elif isinstance(st, ast.Expr) and _is_call(st.value, "processor.run_pipeline"):
            order.append("run")
        elif isinstance(st, (ast.Assign, ast.AnnAssign)) and "_extract_datatree_2d" in calls:
            tgt = st.targets[0] if isinstance(st, ast.Assign) else st.target
            val = st.value
            if not (isinstance(tgt, ast.Name) and _is_call(val, "_extract_datatree_2d")
                    and ast.unparse(val.args[0] if val.args else val.keywords[0].value) == "detector"):
                fail(st, "expected `<step> = _extract_datatree_2d(detector=detector)`")
            step = tgt.id
            order.append("extract")
        elif isinstance(st, ast.If) and step is not None and "is_empty" in src and acc is None:
            # if <acc>.is_empty: <acc> = <step>  else: <acc> = map_over_datasets(lambda *data: xr.concat(data, dim=..), <acc>, <step>)
            t = st.test
            if not (isinstance(t, ast.Attribute) and t.attr == "is_empty" and isinstance(t.value, ast.Name)):
                fail(t, "expected `if <accumulated>.is_empty:`")
            acc = t.value.id
            if not (len(st.body) == 1 and isinstance(st.body[0], ast.Assign) and ast.unparse(st.body[0]) == f"{acc} = {step}"):
                fail(st, "the first step must be taken as it is")
            out["first_as_is"] = True
            if not st.orelse or not isinstance(st.orelse[0], ast.Assign) or ast.unparse(st.orelse[0].targets[0]) != acc:
                fail(st, "expected `<accumulated> = <combination>` in the else branch")
            comb = st.orelse[0].value
            if not _is_call(comb, "xr.map_over_datasets") or len(comb.args) != 3 or comb.keywords:
                fail(comb, "expected xr.map_over_datasets(<function>, <accumulated>, <step>)")
            lam = comb.args[0]
            if not (isinstance(lam, ast.Lambda) and lam.args.vararg is not None and not lam.args.args):
                fail(lam, "expected `lambda *data: ...`")
            inner = lam.body
            if _is_call(inner, "xr.merge"):
                fail(inner, "the steps are MERGED (xr.merge aligns and NaN-fills: integer variables leave their dtype)")
            if not (_is_call(inner, "xr.concat") and len(inner.args) == 1
                    and ast.unparse(inner.args[0]) in (lam.args.vararg.arg, f"list({lam.args.vararg.arg})")
                    and [k.arg for k in inner.keywords] == ["dim"]):
                fail(inner, "expected `xr.concat(data, dim=<dim>)`")
            out["concat_dim"] = _const_str(inner.keywords[0].value)
            names = [ast.unparse(a) for a in comb.args[1:]]
            out["concat_order"] = ["accumulated" if n == acc else "step" if n == step else "?" for n in names]
            order.append("concat")
            fix = [x for x in st.orelse[1:] if not N.is_noise(x)]
            if not fix:
                fail(st, "expected the dtype restoration after the combination")
        elif isinstance(st, (ast.Assign, ast.AnnAssign, ast.Expr, ast.If)):
            if any(c in ("detector.empty", "processor.run_pipeline", "_extract_datatree_2d", "xr.concat", "xr.merge",
                         "xr.map_over_datasets") for c in calls):
                fail(st, "unexpected place of a per-step call")
        else:
            fail(st, "statement of the step loop")
    if order != ["reset", "run", "extract", "concat"]:
        fail(lp, f"per-step order {order}")
    out["step_order"] = order
    # acc initialised empty before the loop
    init = env.get(acc, [])
    if not any(_is_call(v, "xr.DataTree") and not v.args and not v.keywords for v in init):
        fail(fn, "the accumulated tree must start as an empty xr.DataTree()")
    # dtype restoration: the block is RUN for every valuation of (container initialised, dtypes differ, result unsigned)
    fenv = _assigns(ast.Module(body=fix, type_ignores=[]))

    def res(n):
        return ast.unparse(_resolve(n, fenv))

    seen = dict(guard=set(), var=set(), target=set())

    def is_result_dtype(txt):
        m = re.fullmatch(re.escape(acc) + r"\[['\"](\w+)['\"]\]\.dtype", txt)
        if m:
            seen["var"].add(m.group(1))
        return bool(m)

    def is_detector_dtype(txt):
        m = re.fullmatch(r"detector\.(\w+)\.dtype", txt)
        if m:
            seen["target"].add(m.group(1))
        return bool(m)

    def make_atom(init, differ, unsigned):
        def atom(t):
            if isinstance(t, ast.Compare) and len(t.ops) == 1:
                op, lhs, rhs = t.ops[0], t.left, t.comparators[0]
                if isinstance(op, (ast.Is, ast.IsNot)) and isinstance(rhs, ast.Constant) and rhs.value is None:
                    m = re.fullmatch(r"detector\.(\w+)\._array", res(lhs))
                    if m:
                        seen["guard"].add(m.group(1))
                        return init if isinstance(op, ast.IsNot) else not init
                if isinstance(op, (ast.Eq, ast.NotEq)):
                    l, r = res(lhs), res(rhs)
                    if (is_result_dtype(l) and is_detector_dtype(r)) or (is_result_dtype(r) and is_detector_dtype(l)):
                        return differ if isinstance(op, ast.NotEq) else not differ
                if (isinstance(lhs, ast.Attribute) and lhs.attr == "kind" and is_result_dtype(res(lhs.value))
                        and isinstance(op, (ast.Eq, ast.NotEq, ast.In, ast.NotIn))
                        and ast.unparse(rhs) in ("'u'", "('u',)", "['u']", "{'u'}")
                        and (isinstance(rhs, ast.Constant) or isinstance(op, (ast.In, ast.NotIn)))):
                    return unsigned if isinstance(op, (ast.Eq, ast.In)) else not unsigned
            if (isinstance(t, ast.Call) and ast.unparse(t.func) in ("np.issubdtype", "numpy.issubdtype") and len(t.args) == 2
                    and not t.keywords and is_result_dtype(res(t.args[0]))
                    and ast.unparse(t.args[1]) in ("np.unsignedinteger", "numpy.unsignedinteger")):
                return unsigned
            return None
        return atom

    table = {}
    casts = set()
    for init in (False, True):
        for differ in (False, True):
            for unsigned in (False, True):
                done = False
                for x in N.execute(fix, make_atom(init, differ, unsigned)):
                    if not isinstance(x, (ast.Assign, ast.AnnAssign)):
                        fail(x, "statement of the dtype restoration")
                    tgt = x.targets[0] if isinstance(x, ast.Assign) else x.target
                    if isinstance(tgt, ast.Name):
                        if not init and is_detector_dtype(ast.unparse(x.value)):
                            fail(x, "the detector's dtype is read although the container is not initialised")
                        continue
                    if not (isinstance(tgt, ast.Subscript) and ast.unparse(tgt.value) == acc) or done:
                        fail(x, "expected `<accumulated>[var] = <accumulated>[var].astype(...)`")
                    var = _const_str(tgt.slice)
                    cv = x.value
                    if not (isinstance(cv, ast.Call) and isinstance(cv.func, ast.Attribute) and cv.func.attr == "astype"
                            and ast.unparse(cv.func.value) == f"{acc}[{var!r}]"):
                        fail(cv, "expected `<accumulated>[var].astype(...)`")
                    d = cv.args[0] if cv.args else _kw(cv, "dtype")
                    if d is None or not is_detector_dtype(res(d)):
                        fail(cv, "the target dtype must be `detector.<container>.dtype`")
                    seen["var"].add(var)
                    casts.add(ast.unparse(cv))
                    done = True
                table[(init, differ, unsigned)] = done
    if not any(table.values()):
        fail(fix[0], "the dtype restoration never casts")
    if any(v for (i, _d, _u), v in table.items() if not i):
        fail(fix[0], "the dtype restoration must be guarded by `detector.image._array is not None`")
    out["fix_guarded"] = True
    if all(v == (i and d and not u) for (i, d, u), v in table.items()):
        out["fix_keeps_unsigned"] = True
    elif all(v == (i and d) for (i, d, u), v in table.items()):
        out["fix_keeps_unsigned"] = False
    else:
        fail(fix[0], "the dtype restoration must cast exactly when the container is initialised and the dtypes differ "
                     "(possibly: and the result dtype is not an unsigned integer type)")
    if len(seen["var"]) != 1 or len(seen["target"]) != 1 or seen["guard"] != seen["target"] or len(casts) != 1:
        fail(fix[0], "guard, comparison and cast must use one variable of the result and one container of the detector")
    out["fix_var"], out["fix_target"] = next(iter(seen["var"])), next(iter(seen["target"]))
    # the final dictionary
    dct = None
    layout = []

    def visit(stmts, guard):
        nonlocal dct
        for st in stmts:
            if isinstance(st, ast.Assign) and isinstance(st.targets[0], ast.Subscript) and isinstance(st.targets[0].value, ast.Name) \
                    and isinstance(st.targets[0].slice, ast.Constant) and isinstance(st.targets[0].slice.value, str) \
                    and st.targets[0].slice.value.startswith("/"):
                if dct not in (None, st.targets[0].value.id):
                    fail(st, "two result dictionaries")
                dct = st.targets[0].value.id
                layout.append((st.targets[0].slice.value, guard, st.value))
            elif isinstance(st, ast.If) and guard == "GAlways":
                g = _guard_of(st.test)
                if g is None:
                    continue
                visit(st.body, g)
                if st.orelse:
                    if g != "GHier":
                        fail(st, "else branch of a layout guard")
                    visit(st.orelse, "GFlat")

    with_blocks = [n for n in fn.body if isinstance(n, ast.With)]
    top = with_blocks[0].body if len(with_blocks) == 1 else fn.body
    visit(top, "GAlways")
    if dct is None:
        fail(fn, "no result dictionary")
    out["layout"] = [(k, g) for k, g, _ in layout]
    srcs = {k: _resolve(v, env) for k, _, v in layout if k in ("/scene", "/data", "/intermediate")}
    out["scene_src"] = ast.unparse(srcs.get("/scene")) if "/scene" in srcs else ""
    out["data_src"] = ast.unparse(srcs.get("/data")) if "/data" in srcs else ""
    inter = srcs.get("/intermediate")
    if inter is not None:
        # detector.intermediate, possibly .drop_nodes("last", errors="ignore")
        if isinstance(inter, ast.Call) and isinstance(inter.func, ast.Attribute) and inter.func.attr == "drop_nodes":
            inter = _resolve(inter.func.value, env)
        # C01's repair: an empty 'intermediate' tree stands in while no model has recorded anything:
        #   xr.DataTree(name="intermediate") if detector._intermediate is None else detector.intermediate
        if isinstance(inter, ast.IfExp) and ast.unparse(inter.test) == "detector._intermediate is None" \
                and isinstance(inter.body, ast.Call) and ast.unparse(inter.body.func) in ("xr.DataTree", "DataTree") \
                and not inter.body.args:
            inter = inter.orelse
        out["inter_src"] = ast.unparse(inter)
    else:
        out["inter_src"] = ""
    for k, g, v in layout:
        if k in ("/", "/bucket") and ast.unparse(v) != acc:
            fail(v, "the bucket node must be the accumulated tree")
    fd = _calls(fn, lambda c: ast.unparse(c.func) == "xr.DataTree.from_dict")
    if len(fd) != 1 or ast.unparse(fd[0].args[0]) != dct:
        fail(fn, "the result must be xr.DataTree.from_dict(<dictionary>)")
    # a non-empty scene forces the hierarchical layout
    forced = False
    for st in top:
        if isinstance(st, ast.If) and ast.unparse(st.test) == "not detector.scene.data.is_empty and (not with_inherited_coords)":
            forced = any(ast.unparse(x) == "with_inherited_coords = True" for x in st.body)
    out["scene_forces_hier"] = forced
    return out


# ------------------------------------------------------------------------------------------ to_xarray of the containers


def _copies(expr: ast.AST, env: dict, self_attrs=("array", "_array")) -> bool:
    """Is the data handed to the DataArray a copy of the container's buffer?"""
    e = _resolve(expr, env)
    if isinstance(e, ast.Call):
        f = ast.unparse(e.func)
        if f in ("np.array", "numpy.array"):
            c = _kw(e, "copy")
            if c is None or (isinstance(c, ast.Constant) and c.value is True):
                return True
            return False
        if f in ("np.asarray", "numpy.asarray", "np.asanyarray"):
            return False
        if isinstance(e.func, ast.Attribute) and e.func.attr == "copy":
            return True
        if isinstance(e.func, ast.Attribute) and e.func.attr == "astype":
            c = _kw(e, "copy")
            if c is None or (isinstance(c, ast.Constant) and c.value is True):
                return True
            return False
        fail(e, "data expression of to_xarray")
    if isinstance(e, ast.Attribute) and isinstance(e.value, ast.Name) and e.value.id == "self" and e.attr in self_attrs:
        return False
    fail(e, "data expression of to_xarray")


def _origin(coord: ast.AST, env: dict, dim: str) -> int:
    """First index of a coordinate `xr.DataArray(range(n), dims=<dim>, ...)`."""
    c = _resolve(coord, env)
    if not (_is_call(c, "xr.DataArray") and len(c.args) >= 1 and _is_call(c.args[0], "range")):
        fail(c, "coordinate must be xr.DataArray(range(...), dims=...)")
    d = _kw(c, "dims")
    if d is None or _const_str(d) != dim:
        fail(c, f"coordinate {dim} must have dims={dim!r}")
    r = c.args[0]
    if len(r.args) == 1:
        return 0
    if len(r.args) == 2 and isinstance(r.args[0], ast.Constant) and isinstance(r.args[0].value, int):
        return r.args[0].value
    fail(r, "range of a coordinate")


def _keeps_dtype(expr: ast.AST, env: dict, fn: ast.FunctionDef) -> str:
    """CastKeep: np.array(x, dtype=<param defaulting to None>) / x.copy() / x;  CastF64: x.astype(dtype=<that param>)."""
    e = _resolve(expr, env)
    params = {a.arg: d for a, d in zip(fn.args.args[::-1], fn.args.defaults[::-1])}

    def is_none_param(n):
        return n is None or (isinstance(n, ast.Name) and n.id in params and isinstance(params[n.id], ast.Constant)
                             and params[n.id].value is None) or (isinstance(n, ast.Constant) and n.value is None)
    if isinstance(e, ast.Call):
        f = ast.unparse(e.func)
        if f in ("np.array", "numpy.array", "np.asarray", "numpy.asarray"):
            if is_none_param(_kw(e, "dtype")) and len(e.args) == 1:
                return "CastKeep"
            fail(e, "dtype argument")
        if isinstance(e.func, ast.Attribute) and e.func.attr == "copy":
            return "CastKeep"
        if isinstance(e.func, ast.Attribute) and e.func.attr == "astype":
            d = e.args[0] if e.args else _kw(e, "dtype")
            if is_none_param(d):
                return "CastF64"           # numpy: astype(None) is float64
            fail(e, "dtype argument")
    if isinstance(e, ast.Attribute):
        return "CastKeep"
    fail(e, "data expression of to_xarray")


def _da_return(fn: ast.FunctionDef, node: ast.AST, env: dict) -> dict:
    """`return xr.DataArray(<data>, name=.., dims=[..], coords={"y": rows, "x": cols}, ..)`"""
    c = _resolve(node, env)
    if not (_is_call(c, "xr.DataArray") and len(c.args) == 1):
        fail(node, "expected `return xr.DataArray(<data>, ...)`")
    dims = _str_tuple(_kw(c, "dims"))
    coords = _kw(c, "coords")
    if not isinstance(coords, ast.Dict) or [_const_str(k) for k in coords.keys] != ["y", "x"]:
        fail(c, "coords must be {'y': .., 'x': ..}")
    oy, ox = _origin(coords.values[0], env, "y"), _origin(coords.values[1], env, "x")
    # a new DataArray built from a numpy buffer with explicit coords: the y / x coordinates are the given ranges
    return dict(dims=dims, origin=(oy, ox), copies=_copies(c.args[0], env), cast=_keeps_dtype(c.args[0], env, fn), relabel=True)


def _class(tree: ast.Module, name: str) -> ast.ClassDef:
    cs = [n for n in tree.body if isinstance(n, ast.ClassDef) and n.name == name]
    if len(cs) != 1:
        raise TranslationError(f"class {name}: found {len(cs)}")
    return cs[0]


def _readouts(repo: Path) -> dict:
    out = {}
    # ArrayBase: pixel, signal, image
    tarr = parse(repo, "pyxel/data_structure/array.py")
    fn = N.normalize(find_func(tarr, "to_xarray", "ArrayBase"), tarr, _class(tarr, "ArrayBase"))
    env = _assigns(fn, tarr)
    rets = [n for n in ast.walk(fn) if isinstance(n, ast.Return) and n.value is not None]
    full = [r for r in rets if not (_is_call(r.value, "xr.DataArray") and not r.value.args and not r.value.keywords)]
    if len(full) != 1 or len(rets) != 2:
        fail(fn, "ArrayBase.to_xarray: one empty and one full return expected")
    base = _da_return(fn, full[0].value, env)
    for mod, cls, kind in (("pixel", "Pixel", "KPixel"), ("signal", "Signal", "KSignal"), ("image", "Image", "KImage")):
        t = parse(repo, f"pyxel/data_structure/{mod}.py")
        c = _class(t, cls)
        if [ast.unparse(b) for b in c.bases] != ["ArrayBase"]:
            fail(c, f"{cls} must derive from ArrayBase")
        if any(isinstance(n, ast.FunctionDef) and n.name == "to_xarray" for n in c.body):
            fail(c, f"{cls} overrides to_xarray")
        out[kind] = base
    # Charge
    tch = parse(repo, "pyxel/data_structure/charge.py")
    fn = N.normalize(find_func(tch, "to_xarray", "Charge"), tch, _class(tch, "Charge"))
    env = _assigns(fn, tch)
    rets = [n for n in ast.walk(fn) if isinstance(n, ast.Return) and n.value is not None]
    if len(rets) != 1:
        fail(fn, "Charge.to_xarray: one return expected")
    out["KCharge"] = _da_return(fn, rets[0].value, env)
    # Photon
    tph = parse(repo, "pyxel/data_structure/photon.py")
    fn = N.normalize(find_func(tph, "to_xarray", "Photon"), tph, _class(tph, "Photon"))
    env = _assigns(fn, tph)
    # normal form: every early `return` has become an if/else, a negated test has its branches swapped
    branch = [n for n in ast.walk(fn) if isinstance(n, ast.If) and "isinstance" in ast.unparse(n.test)]
    if len(branch) != 1 or ast.unparse(branch[0].test) != "isinstance(self._array, np.ndarray)" or not branch[0].orelse:
        fail(fn, "Photon.to_xarray: expected `if isinstance(self._array, np.ndarray): <2-D> else: <3-D>`")
    r2 = [n for n in branch[0].body if isinstance(n, ast.Return)]
    if len(r2) != 1:
        fail(branch[0], "2-D branch: one return")
    out["KPhoton2"] = _da_return(fn, r2[0].value, env)
    r3 = [n for n in branch[0].orelse if isinstance(n, ast.Return)]
    if len(r3) != 1 or not isinstance(r3[0].value, ast.Name):
        fail(branch[0], "3-D branch: `return <cube>`")
    cube = r3[0].value.id
    src = _resolve(r3[0].value, env)
    if not (isinstance(src, ast.Call) and isinstance(src.func, ast.Attribute) and ast.unparse(src.func.value) == "self._array"):
        fail(src, "3-D branch: the cube must be made from self._array")
    oy = ox = None
    always = {"y": False, "x": False}      # is the coordinate SET whatever the cube carries?

    def scan(stmts, conditional):
        nonlocal oy, ox
        for st in stmts:
            if isinstance(st, ast.Assign) and isinstance(st.targets[0], ast.Subscript) \
                    and ast.unparse(st.targets[0].value) == f"{cube}.coords":
                k = _const_str(st.targets[0].slice)
                if k == "y":
                    oy = _origin(st.value, env, "y")
                elif k == "x":
                    ox = _origin(st.value, env, "x")
                else:
                    fail(st, "unexpected coordinate of the cube")
                if not conditional:
                    always[k] = True
            elif isinstance(st, ast.If):
                # e.g. `if "y" not in cube.coords:` -- the coordinate is only added when the cube has none
                scan(st.body, True)
                scan(st.orelse, True)
            elif isinstance(st, (ast.For, ast.While, ast.With, ast.Try)):
                fail(st, "unexpected statement in the 3-D branch")

    scan(branch[0].orelse, False)
    if oy is None or ox is None:
        fail(branch[0], "3-D branch must set the y and x coordinates")
    for st in ast.walk(branch[0]):
        # coordinates given another way (assign_coords, reindex, drop_vars ...) are not understood
        if isinstance(st, ast.Call) and isinstance(st.func, ast.Attribute) and st.func.attr in (
                "assign_coords", "reindex", "reindex_like", "drop_vars", "reset_coords", "reset_index", "set_index", "swap_dims", "rename"):
            fail(st, "coordinates of the cube changed by a call that is not understood")
    # the dims of the cube are those the array_3d setter enforces
    setters = [n for n in _class(tph, "Photon").body if isinstance(n, ast.FunctionDef) and n.name == "array_3d"
               and any(ast.unparse(d) == "array_3d.setter" for d in n.decorator_list)]
    if len(setters) != 1:
        fail(fn, "Photon.array_3d setter")
    senv = _assigns(setters[0])
    dims = None
    for n in ast.walk(setters[0]):
        if isinstance(n, ast.Compare) and ast.unparse(n.left) == "value.dims" and isinstance(n.ops[0], ast.NotEq):
            dims = _str_tuple(_resolve(n.comparators[0], senv))
    if dims is None:
        fail(setters[0], "the array_3d setter must check value.dims")
    out["KPhoton3"] = dict(dims=dims, origin=(oy, ox), copies=_copies(src, env), cast=_keeps_dtype(src, env, fn),
                           relabel=always["y"] and always["x"])
    return out


# ------------------------------------------------------------------------------------------ Detector.to_xarray


def _visible(repo: Path) -> dict:
    t = parse(repo, "pyxel/detectors/detector.py")
    fn = N.normalize(find_func(t, "to_xarray", "Detector"), t, _class(t, "Detector"))
    env = _assigns(fn, t)
    loops = [n for n in body_no_doc(fn) if isinstance(n, ast.For)]
    if len(loops) != 1 or not isinstance(loops[0].target, ast.Name):
        fail(fn, "Detector.to_xarray must contain one loop over the container names")
    lp = loops[0]
    var = lp.target.id
    names = _str_tuple(_resolve(lp.iter, env))
    lenv = _assigns(lp)
    tested, stored_names = set(), set()

    def stored(name: str, allzero: bool, nd: bool) -> bool:
        """Is `ds[name]` stored for a read-out that is / is not all zero and has / has not ndim != 0?  (the loop body is RUN)"""
        def atom(t_):
            r = _key_atom(t_, var, name)
            if r is not None:
                return r
            txt = ast.unparse(t_).replace(" ", "")
            m = re.fullmatch(r"\((\w+)==0\)\.all\(\)", txt)
            if m:
                tested.add(m.group(1))
                return allzero
            m = re.fullmatch(r"(\w+)\.ndim(!=|==|>)0", txt)
            if m:
                tested.add(m.group(1))
                return nd if m.group(2) != "==" else not nd
            return None
        n_st = 0
        for st in N.execute(lp.body, atom):
            if not isinstance(st, (ast.Assign, ast.AnnAssign)):
                fail(st, "statement of Detector.to_xarray's loop")
            tgt = st.targets[0] if isinstance(st, ast.Assign) else st.target
            if isinstance(tgt, ast.Name):
                continue
            if not (isinstance(tgt, ast.Subscript) and isinstance(tgt.slice, ast.Name) and tgt.slice.id == var):
                fail(st, "expected `ds[name] = data_array`")
            val = _resolve(st.value, lenv)
            if not (isinstance(val, ast.Call) and isinstance(val.func, ast.Attribute) and val.func.attr == "to_xarray"):
                fail(st, "the stored variable must be `<container>.to_xarray()`")
            obj = _resolve(val.func.value, lenv)
            if not (_is_call(obj, "getattr") and ast.unparse(obj.args[0]) == "self" and ast.unparse(obj.args[1]) == var):
                fail(obj, "the container must be `getattr(self, name)`")
            if isinstance(st.value, ast.Name):
                stored_names.add(st.value.id)
            n_st += 1
        if n_st > 1:
            fail(lp, "a container is stored twice")
        return n_st == 1

    tab = {n: {(z, d): stored(n, z, d) for z in (False, True) for d in (False, True)} for n in names}
    if tested - stored_names:
        fail(lp, f"conditions on something else than the stored read-out: {sorted(tested - stored_names)}")
    vis = [n for n in names if tab[n][(False, True)]]
    if not vis:
        fail(fn, "Detector.to_xarray stores nothing")
    if all(not tab[n][(z, False)] for n in vis for z in (False, True)):
        ndim = True
    elif all(tab[n][(z, False)] == tab[n][(z, True)] for n in vis for z in (False, True)):
        ndim = False
    else:
        fail(lp, "filter of Detector.to_xarray")
    skip = {n for n in vis if not tab[n][(True, True)]}
    return dict(visible=[(n, n) for n in vis], skip_zero=sorted(skip), ndim_filter=ndim)


# ------------------------------------------------------------------------------------------ ModelGroup.run


def _debug(repo: Path) -> dict:
    t = parse(repo, "pyxel/pipelines/model_group.py")
    fn = N.normalize(find_func(t, "run", "ModelGroup"), t, _class(t, "ModelGroup"))
    loops = [n for n in body_no_doc(fn) if isinstance(n, ast.For)]
    if len(loops) != 1 or not isinstance(loops[0].target, ast.Name):
        fail(fn, "ModelGroup.run loop")
    lp = loops[0]
    var = lp.target.id
    idx_call = idx_ref = None
    ref_name = None
    cands: dict = {}
    deep = False
    for i, st in enumerate(lp.body):
        if any(isinstance(c, ast.Call) and isinstance(c.func, ast.Name) and c.func.id == var for c in ast.walk(st)):
            idx_call = i if idx_call is None else idx_call
        if isinstance(st, ast.If) and ast.unparse(st.test) == "debug" and idx_call is None and not st.orelse:
            # candidates: every name of the block whose value, with the block's named intermediate results written out,
            # is `detector.to_xarray()` or a copy of it; the reference is the one the comparison uses (below)
            benv = _assigns(st)
            for x in st.body:
                if N.is_noise(x):
                    continue
                tgt = x.targets[0] if isinstance(x, ast.Assign) and len(x.targets) == 1 else getattr(x, "target", None)
                if not isinstance(x, (ast.Assign, ast.AnnAssign)) or not isinstance(tgt, ast.Name) or len(benv.get(tgt.id, [])) != 1:
                    continue
                v = ast.unparse(_written_out(x.value, benv)).replace(" ", "")
                if v in ("detector.to_xarray().copy(deep=True)", "detector.to_xarray().copy()",
                         "detector.to_xarray().copy(deep=False)", "detector.to_xarray()",
                         "copy.deepcopy(detector.to_xarray())", "deepcopy(detector.to_xarray())"):
                    cands[tgt.id] = (i, v in ("detector.to_xarray().copy(deep=True)", "copy.deepcopy(detector.to_xarray())",
                                              "deepcopy(detector.to_xarray())"))
    if idx_call is None:
        fail(lp, "no model call")
    after_all = [st for st in lp.body[idx_call + 1:] if isinstance(st, ast.If) and ast.unparse(st.test) == "debug"]
    used = [k for k in cands if any(isinstance(n, ast.Name) and n.id == k for b_ in after_all for n in ast.walk(b_))]
    if len(used) == 1:
        ref_name, (idx_ref, deep) = used[0], cands[used[0]]
    if ref_name is None:
        fail(lp, "the reference of the debug comparison must be `detector.to_xarray()` (or a copy of it) taken in `if debug:` "
                 "BEFORE the model call")
    after = [st for st in lp.body[idx_call + 1:] if isinstance(st, ast.If) and ast.unparse(st.test) == "debug"]
    if len(after) != 1:
        fail(lp, "one `if debug:` block after the model call expected")
    blk = after[0]
    env = _assigns(blk)
    if ref_name in env:
        fail(blk, "the reference is re-assigned after the model call")
    cur = None
    for k, vals in env.items():
        for v in vals:
            if ast.unparse(v).replace(" ", "").startswith("detector.to_xarray()"):
                cur = k
    if cur is None:
        fail(blk, "the detector must be read out again after the model")
    cmp_loops = [n for n in blk.body if isinstance(n, ast.For) and ast.unparse(n.iter) == f"{cur}.data_vars.items()"]
    if len(cmp_loops) != 1:
        fail(blk, "comparison loop over the data variables")
    cl = cmp_loops[0]
    nm, da = [e.id for e in cl.target.elts]
    cenv = _assigns(cl)
    alias = {k: ast.unparse(v[0]) for k, v in cenv.items() if len(v) == 1}
    # one level of aliasing: last_full_ds = <reference>
    refs = {ref_name} | {k for k, v in env.items() if len(v) == 1 and ast.unparse(v[0]) == ref_name}
    used_refs = set()

    def make_atom(present, close):
        def atom(t_):
            if (isinstance(t_, ast.Compare) and len(t_.ops) == 1 and isinstance(t_.ops[0], (ast.In, ast.NotIn))
                    and ast.unparse(t_.left) == nm and ast.unparse(t_.comparators[0]) in refs):
                used_refs.add(ast.unparse(t_.comparators[0]))
                return present if isinstance(t_.ops[0], ast.In) else not present
            if _is_call(t_, "np.allclose") or _is_call(t_, "numpy.allclose"):
                if len(t_.args) != 2 or t_.keywords:
                    fail(t_, "expected `np.allclose(a, b)`")
                args = [alias.get(ast.unparse(a_), ast.unparse(a_)) for a_ in t_.args]
                ok = [r_ for r_ in refs if sorted(args) == sorted([da, f"{r_}[{nm}]"])]
                if not ok:
                    fail(t_, "np.allclose must compare the variable with the same variable of the reference")
                used_refs.add(ok[0])
                if not present:
                    fail(t_, "the variable of the reference is read although the reference does not hold it")
                return close
            return None
        return atom

    def store_path(tg):
        if not (isinstance(tg, ast.Subscript) and ast.unparse(tg.value) == "detector.intermediate"):
            fail(tg, "expected detector.intermediate[f'...'] = <variable>")
        return N.expand_fstring(tg.slice, {**env, **cenv})

    table, paths = {}, set()
    for present in (False, True):
        for close in (False, True):
            n_st = 0
            for st in N.execute(cl.body, make_atom(present, close)):
                if not isinstance(st, (ast.Assign, ast.AnnAssign)):
                    fail(st, "comparison loop body")
                tg = st.targets[0] if isinstance(st, ast.Assign) else st.target
                if isinstance(tg, ast.Name):
                    if not present and any(ast.unparse(x).replace(" ", "") in [f"{r_}[{nm}]" for r_ in refs] for x in ast.walk(st.value)):
                        fail(st, "the variable of the reference is read although the reference does not hold it")
                    continue
                if ast.unparse(st.value) != da:
                    fail(st, "store of a changed variable")
                paths.add(store_path(tg))
                n_st += 1
            if n_st > 1:
                fail(cl, "a variable is stored twice")
            table[(present, close)] = n_st == 1
    if len(used_refs) != 1:
        fail(cl, "expected `name in <reference>` and `np.allclose(<after>, <reference>[name])` on one reference")
    if not all(v == (not (p_ and c_)) for (p_, c_), v in table.items()):
        fail(cl, "a variable must be stored exactly when the reference does not hold it or np.allclose says it changed")
    if len(paths) != 1:
        fail(cl, "both stores must use the same path")
    comp = []
    for seg in next(iter(paths)).split("/"):
        if seg == "{" + nm + "}":
            comp.append("name")
        elif seg == "time_idx_{detector.pipeline_count}":
            comp.append("time_idx")
        elif seg == "{self._name}":
            comp.append("group")
        elif seg == "{" + var + ".name}":
            comp.append("model")
        else:
            fail(cl, f"node path segment {seg}")
    return dict(ref_before=idx_ref < idx_call, deep=deep, compare="allclose", path=comp)


# ------------------------------------------------------------------------------------------ rendering


def _cstr(s: str) -> str:
    assert all(32 <= ord(c) < 127 for c in s) and '"' not in s, s
    return '"' + s + '"%string'


def _clist(items) -> str:
    items = list(items)
    return "[" + "; ".join(items) + "]" if items else "nil"


def _cbool(b: bool) -> str:
    return "true" if b else "false"


def render(ex: dict, rp: dict, ro: dict, vis: dict, dbg: dict) -> str:
    def per_kind(f):
        return "fun k => match k with " + " | ".join(f"{k} => {f(ro[k])}" for k in KINDS) + " end"
    pairs = lambda ps, node=None: _clist(f"({_bucket(v)}, {_bucket(s)})" for v, s in ps)  # noqa: E731
    skip = "fun b => match b with " + " | ".join(
        f"{c} => {_cbool(n in vis['skip_zero'])}" for n, c in BUCKET.items()) + " end"
    for n in vis["skip_zero"]:
        _bucket(n)
    return (HEADER +
            "From Coq Require Import ZArith List String Bool.\nFrom PyxelV Require Import Model.Result.\n"
            "Import ListNotations.\nOpen Scope Z_scope.\n\n"
            "Definition src_tables : tables :=\n"
            f"  {{| tb_copies := {per_kind(lambda r: _cbool(r['copies']))};\n"
            f"     tb_relabel := {per_kind(lambda r: _cbool(r['relabel']))};\n"
            f"     tb_label := {ex['label']};\n"
            f"     tb_exported := {pairs(ex['exported'])};\n"
            f"     tb_visible := {pairs(vis['visible'])};\n"
            f"     tb_skip_zero := {skip} |}}.\n\n"
            "Definition src_shape : shape_facts :=\n"
            f"  {{| sf_dims := {per_kind(lambda r: _clist(_cstr(d) for d in r['dims']))};\n"
            f"     sf_origin := {per_kind(lambda r: '(%d, %d)' % r['origin'])};\n"
            f"     sf_cast := {per_kind(lambda r: r['cast'])};\n"
            f"     sf_time_dim := {_cstr(ex['time_dim'])}; sf_concat_dim := {_cstr(rp['concat_dim'])};\n"
            f"     sf_concat_order := {_clist(_cstr(x) for x in rp['concat_order'])};\n"
            f"     sf_first_step_as_is := {_cbool(rp['first_as_is'])};\n"
            f"     sf_step_order := {_clist(_cstr(x) for x in rp['step_order'])};\n"
            f"     sf_reset_flag_negated := {_cbool(rp['reset_negated'])};\n"
            f"     sf_fix_var := {_cstr(rp['fix_var'])}; sf_fix_guarded := {_cbool(rp['fix_guarded'])}; "
            f"sf_fix_target := {_cstr(rp['fix_target'])}; sf_fix_keeps_unsigned := {_cbool(rp['fix_keeps_unsigned'])};\n"
            f"     sf_layout := {_clist('(%s, %s)' % (_cstr(k), g) for k, g in rp['layout'])};\n"
            f"     sf_scene_forces_hier := {_cbool(rp['scene_forces_hier'])};\n"
            f"     sf_scene_src := {_cstr(rp['scene_src'])}; sf_data_src := {_cstr(rp['data_src'])}; "
            f"sf_inter_src := {_cstr(rp['inter_src'])};\n"
            f"     sf_vis_ndim_filter := {_cbool(vis['ndim_filter'])};\n"
            f"     sf_debug_ref_before_model := {_cbool(dbg['ref_before'])}; sf_debug_ref_deep := {_cbool(dbg['deep'])}; "
            f"sf_debug_compare := {_cstr(dbg['compare'])};\n"
            f"     sf_debug_path := {_clist(_cstr(x) for x in dbg['path'])} |}}.\n")


def extract_all(repo: Path):
    tex = parse(repo, "pyxel/exposure/exposure.py")
    return _extract(tex), _run_pipeline(tex), _readouts(repo), _visible(repo), _debug(repo)


def translate(repo: Path) -> str:
    try:
        return render(*extract_all(repo))
    except TranslationError:
        raise
    except (AttributeError, IndexError, KeyError, TypeError, ValueError, AssertionError) as ex:
        # an unexpected AST shape met by the extraction code itself: fail closed
        raise TranslationError(f"unexpected source shape ({type(ex).__name__}: {ex})") from ex


# the text for the tree as repaired in round 2; used only to keep a model available for the failing-input search
# when the translation itself fails (the failed translation is already a broken obligation)
_RO = dict(dims=["y", "x"], origin=(0, 0), copies=True, cast="CastKeep", relabel=True)
FALLBACK = render(
    dict(exported=[(b, b) for b in BUCKET], label="LAbsolute", time_dim="time"),
    dict(concat_dim="time", concat_order=["accumulated", "step"], first_as_is=True,
         step_order=["reset", "run", "extract", "concat"], reset_negated=True, fix_var="image", fix_guarded=True,
         fix_target="image", fix_keeps_unsigned=True, layout=[("/bucket", "GHier"), ("/", "GFlat"), ("/intermediate", "GDebug"), ("/output", "GOutputs"),
                                     ("/scene", "GAlways"), ("/data", "GAlways")],
         scene_forces_hier=True, scene_src="detector.scene.data", data_src="detector.data", inter_src="detector.intermediate"),
    dict(KPhoton2=_RO, KPhoton3=dict(dims=["wavelength", "y", "x"], origin=(0, 0), copies=True, cast="CastF64", relabel=True),
         KCharge=_RO, KPixel=_RO, KSignal=_RO, KImage=_RO),
    dict(visible=[(b, b) for b in BUCKET], skip_zero=["charge"], ndim_filter=True),
    dict(ref_before=True, deep=True, compare="allclose", path=["time_idx", "group", "model", "name"]))
