"""pyxel/calibration/util.py range checker -> Gallina guard table (Model.Fitness.checker).

Extracted (fail closed on anything else):
  * `_check_out_fit_ranges`: a sequence of `if <cond>: raise ValueError(...)`, where <cond> is a comparison
    (optionally negated) of range end points / differences of end points, optionally guarded by
    `isinstance(target_fit_range, FitRange3D) and isinstance(out_fit_range, FitRange3D) and ...`;
  * `FitRange2D.check`, `FitRange3D.check`: a sequence of `if [not] <comparison>: raise ValueError(...)` and
    `if <bound> is None: raise ValueError(...)`;
  * the dispatch of `check_fit_ranges` (absent target accepted; out guards only if `out_fit_range`;
    2D/3D check called with rows, cols[, readout_times]).
"""
from __future__ import annotations

import ast
from pathlib import Path

from .common import HEADER, body_no_doc, fail, find_func, parse

REL = "pyxel/calibration/util.py"
DIMS = {"time": "DTime", "row": "DRow", "col": "DCol"}
BOUNDS = {"rows": "BRows", "cols": "BCols", "readout_times": "BTimes"}
OPS = {ast.Eq: "CEq", ast.NotEq: "CNe", ast.LtE: "CLe", ast.Lt: "CLt", ast.GtE: "CGe", ast.Gt: "CGt"}


def _expr(node, sides: dict) -> str:
    """sides: name of the variable -> 'Tgt' | 'Out'."""
    if isinstance(node, ast.BinOp) and isinstance(node.op, ast.Sub):
        return f"(ESub {_expr(node.left, sides)} {_expr(node.right, sides)})"
    if isinstance(node, ast.Name) and node.id in BOUNDS:
        return f"(EBound {BOUNDS[node.id]})"
    if (isinstance(node, ast.Attribute) and node.attr in ("start", "stop") and isinstance(node.value, ast.Attribute)
            and node.value.attr in DIMS and isinstance(node.value.value, ast.Name) and node.value.value.id in sides):
        ctor = "EStart" if node.attr == "start" else "EStop"
        return f"({ctor} {sides[node.value.value.id]} {DIMS[node.value.attr]})"
    fail(node, "unsupported expression in a range comparison")


def _compare(node, sides) -> tuple[bool, str, str, str]:
    neg = False
    if isinstance(node, ast.UnaryOp) and isinstance(node.op, ast.Not):
        neg, node = True, node.operand
    if not (isinstance(node, ast.Compare) and len(node.ops) == 1 and type(node.ops[0]) in OPS):
        fail(node, "expected a single comparison")
    return neg, _expr(node.left, sides), OPS[type(node.ops[0])], _expr(node.comparators[0], sides)


def _is_isinstance(node, var: str, cls: str) -> bool:
    return (isinstance(node, ast.Call) and isinstance(node.func, ast.Name) and node.func.id == "isinstance"
            and len(node.args) == 2 and not node.keywords and isinstance(node.args[0], ast.Name)
            and node.args[0].id == var and isinstance(node.args[1], ast.Name) and node.args[1].id == cls)


def _raises_value_error(stmts) -> bool:
    if len(stmts) != 1 or not isinstance(stmts[0], ast.Raise) or stmts[0].exc is None:
        return False
    e = stmts[0].exc
    name = e.func if isinstance(e, ast.Call) else e
    return isinstance(name, ast.Name) and name.id == "ValueError"


def _guards(fn: ast.FunctionDef, sides: dict, allow_pre: bool) -> list[str]:
    out = []
    for st in body_no_doc(fn):
        if not (isinstance(st, ast.If) and not st.orelse and _raises_value_error(st.body)):
            fail(st, f"{fn.name}: every statement must be `if <cond>: raise ValueError(...)`")
        t = st.test
        # if <bound> is None: raise
        if (isinstance(t, ast.Compare) and len(t.ops) == 1 and isinstance(t.ops[0], ast.Is)
                and isinstance(t.left, ast.Name) and t.left.id in BOUNDS
                and isinstance(t.comparators[0], ast.Constant) and t.comparators[0].value is None):
            out.append(f"GNone {BOUNDS[t.left.id]}")
            continue
        pre = "PAlways"
        if isinstance(t, ast.BoolOp) and isinstance(t.op, ast.And):
            if not (allow_pre and len(t.values) == 3 and _is_isinstance(t.values[0], "target_fit_range", "FitRange3D")
                    and _is_isinstance(t.values[1], "out_fit_range", "FitRange3D")):
                fail(t, "unsupported conjunction in a range guard")
            pre, t = "PBoth3D", t.values[2]
        neg, a, op, b = _compare(t, sides)
        out.append(f"GCmp {pre} {'true' if neg else 'false'} {a} {op} {b}")
    if not out:
        fail(fn, f"{fn.name}: no guard found")
    return out


def _kw_call(node, func_src: str, kws: dict) -> bool:
    return (isinstance(node, ast.Expr) and isinstance(node.value, ast.Call) and ast.unparse(node.value.func) == func_src
            and not node.value.args
            and {k.arg: ast.unparse(k.value) for k in node.value.keywords} == kws)


def _check_dispatch(fn: ast.FunctionDef):
    if [a.arg for a in fn.args.args] != ["target_fit_range", "out_fit_range", "rows", "cols", "readout_times"]:
        fail(fn, "check_fit_ranges signature")
    b = body_no_doc(fn)
    if len(b) != 3 or not all(isinstance(s, ast.If) for s in b):
        fail(fn, "check_fit_ranges body must be three if statements")
    s0, s1, s2 = b
    if not (ast.unparse(s0.test) == "not target_fit_range" and len(s0.body) == 1 and isinstance(s0.body[0], ast.Return)
            and s0.body[0].value is None and not s0.orelse):
        fail(s0, "expected `if not target_fit_range: return`")
    if not (ast.unparse(s1.test) == "out_fit_range" and len(s1.body) == 1 and not s1.orelse and _kw_call(
            s1.body[0], "_check_out_fit_ranges",
            {"target_fit_range": "target_fit_range", "out_fit_range": "out_fit_range"})):
        fail(s1, "expected `if out_fit_range: _check_out_fit_ranges(target_fit_range=..., out_fit_range=...)`")
    if not (_is_isinstance(s2.test, "target_fit_range", "FitRange2D") and len(s2.body) == 1 and len(s2.orelse) == 1
            and _kw_call(s2.body[0], "target_fit_range.check", {"rows": "rows", "cols": "cols"})
            and _kw_call(s2.orelse[0], "target_fit_range.check",
                         {"rows": "rows", "cols": "cols", "readout_times": "readout_times"})):
        fail(s2, "expected the 2D/3D dispatch to target_fit_range.check(...)")


def render(out_guards, c2, c3) -> str:
    def lst(gs):
        return "[ " + ";\n      ".join(gs) + " ]"
    return (HEADER + "From Coq Require Import ZArith List.\nFrom PyxelV Require Import Model.Fitness.\n"
            "Import ListNotations.\n"
            "Definition src_checker : checker :=\n"
            f"  {{| out_guards :=\n      {lst(out_guards)};\n"
            f"     check2d :=\n      {lst(c2)};\n"
            f"     check3d :=\n      {lst(c3)} |}}.\n")


def translate(repo: Path) -> str:
    tree = parse(repo, REL)
    _check_dispatch(find_func(tree, "check_fit_ranges"))
    fo = find_func(tree, "_check_out_fit_ranges")
    if [a.arg for a in fo.args.args] != ["target_fit_range", "out_fit_range"]:
        fail(fo, "_check_out_fit_ranges signature")
    og = _guards(fo, {"target_fit_range": "Tgt", "out_fit_range": "Out"}, allow_pre=True)
    f2 = find_func(tree, "check", cls="FitRange2D")
    if [a.arg for a in f2.args.args] != ["self", "rows", "cols"]:
        fail(f2, "FitRange2D.check signature")
    f3 = find_func(tree, "check", cls="FitRange3D")
    if [a.arg for a in f3.args.args] != ["self", "rows", "cols", "readout_times"]:
        fail(f3, "FitRange3D.check signature")
    c2 = _guards(f2, {"self": "Tgt"}, allow_pre=False)
    c3 = _guards(f3, {"self": "Tgt"}, allow_pre=False)
    return render(og, c2, c3)


FALLBACK = render(
    ["GCmp PBoth3D false (EStop Tgt DTime) CNe (EStop Out DTime)",
     "GCmp PAlways false (EStop Tgt DRow) CNe (EStop Out DRow)",
     "GCmp PAlways false (EStop Tgt DCol) CNe (EStop Out DCol)"],
    ["GCmp PAlways true (EStop Tgt DRow) CLe (EBound BRows)",
     "GCmp PAlways true (EStop Tgt DCol) CLe (EBound BCols)"],
    ["GCmp PAlways true (EStop Tgt DRow) CLe (EBound BRows)",
     "GCmp PAlways true (EStop Tgt DCol) CLe (EBound BCols)",
     "GNone BTimes",
     "GCmp PAlways true (EStop Tgt DTime) CLe (EBound BTimes)"])
