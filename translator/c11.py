"""pyxel/calibration/util.py range checker -> Gallina guard table (Model.Fitness.checker).

Extracted (fail closed on anything else):
  * `_check_out_fit_ranges`: a sequence of `if <cond>: raise ValueError(...)`, where <cond> is a comparison
    (optionally negated) of range end points / differences of end points, optionally guarded by
    `isinstance(target_fit_range, FitRange3D) and isinstance(out_fit_range, FitRange3D) and ...`;
  * `FitRange2D.check`, `FitRange3D.check`: a sequence of `if [not] <comparison>: raise ValueError(...)` and
    `if <bound> is None: raise ValueError(...)`;
  * the dispatch of `check_fit_ranges` (absent target accepted; out guards only if `out_fit_range`;
    2D/3D check called with rows, cols[, readout_times]);
  * pyxel/calibration/fitting_datatree.py, `ModelFittingDataTree.__init__`: the two calls of `check_fit_ranges`
    (time-domain branch / single-readout branch) — which quantity is passed as rows / cols / readout_times:
    the size of the target data read from file (`len(targets["y"])`, `targets.sizes["y"]`, `targets.shape[i]`,
    a name unpacked from `targets_4d.shape` ...), the size of the simulated frame (`processor.detector.geometry.row`,
    `len(readout.times)` ...), or nothing -> Model.Fitness.calls.
"""
from __future__ import annotations

import ast
from pathlib import Path

from .common import HEADER, body_no_doc, fail, find_func, parse

REL = "pyxel/calibration/util.py"
DIMS = {"time": "DTime", "row": "DRow", "col": "DCol"}
BOUNDS = {"rows": "BRows", "cols": "BCols", "readout_times": "BTimes"}
OPS = {ast.Eq: "CEq", ast.NotEq: "CNe", ast.LtE: "CLe", ast.Lt: "CLt", ast.GtE: "CGe", ast.Gt: "CGt"}


def _expr(node, sides: dict) -> str:
    """sides: name of the variable -> 'Tgt' | 'Out'."""
    if isinstance(node, ast.BinOp) and isinstance(node.op, ast.Sub):
        return f"(ESub {_expr(node.left, sides)} {_expr(node.right, sides)})"
    if isinstance(node, ast.Name) and node.id in BOUNDS:
        return f"(EBound {BOUNDS[node.id]})"
    if (isinstance(node, ast.Attribute) and node.attr in ("start", "stop") and isinstance(node.value, ast.Attribute)
            and node.value.attr in DIMS and isinstance(node.value.value, ast.Name) and node.value.value.id in sides):
        ctor = "EStart" if node.attr == "start" else "EStop"
        return f"({ctor} {sides[node.value.value.id]} {DIMS[node.value.attr]})"
    fail(node, "unsupported expression in a range comparison")


def _compare(node, sides) -> tuple[bool, str, str, str]:
    neg = False
    if isinstance(node, ast.UnaryOp) and isinstance(node.op, ast.Not):
        neg, node = True, node.operand
    if not (isinstance(node, ast.Compare) and len(node.ops) == 1 and type(node.ops[0]) in OPS):
        fail(node, "expected a single comparison")
    return neg, _expr(node.left, sides), OPS[type(node.ops[0])], _expr(node.comparators[0], sides)


def _is_isinstance(node, var: str, cls: str) -> bool:
    return (isinstance(node, ast.Call) and isinstance(node.func, ast.Name) and node.func.id == "isinstance"
            and len(node.args) == 2 and not node.keywords and isinstance(node.args[0], ast.Name)
            and node.args[0].id == var and isinstance(node.args[1], ast.Name) and node.args[1].id == cls)


def _raises_value_error(stmts) -> bool:
    if len(stmts) != 1 or not isinstance(stmts[0], ast.Raise) or stmts[0].exc is None:
        return False
    e = stmts[0].exc
    name = e.func if isinstance(e, ast.Call) else e
    return isinstance(name, ast.Name) and name.id == "ValueError"


def _guards(fn: ast.FunctionDef, sides: dict, allow_pre: bool) -> list[str]:
    out = []
    for st in body_no_doc(fn):
        if not (isinstance(st, ast.If) and not st.orelse and _raises_value_error(st.body)):
            fail(st, f"{fn.name}: every statement must be `if <cond>: raise ValueError(...)`")
        t = st.test
        # if <bound> is None: raise
        if (isinstance(t, ast.Compare) and len(t.ops) == 1 and isinstance(t.ops[0], ast.Is)
                and isinstance(t.left, ast.Name) and t.left.id in BOUNDS
                and isinstance(t.comparators[0], ast.Constant) and t.comparators[0].value is None):
            out.append(f"GNone {BOUNDS[t.left.id]}")
            continue
        pre = "PAlways"
        if isinstance(t, ast.BoolOp) and isinstance(t.op, ast.And):
            if not (allow_pre and len(t.values) == 3 and _is_isinstance(t.values[0], "target_fit_range", "FitRange3D")
                    and _is_isinstance(t.values[1], "out_fit_range", "FitRange3D")):
                fail(t, "unsupported conjunction in a range guard")
            pre, t = "PBoth3D", t.values[2]
        neg, a, op, b = _compare(t, sides)
        out.append(f"GCmp {pre} {'true' if neg else 'false'} {a} {op} {b}")
    if not out:
        fail(fn, f"{fn.name}: no guard found")
    return out


def _kw_call(node, func_src: str, kws: dict) -> bool:
    return (isinstance(node, ast.Expr) and isinstance(node.value, ast.Call) and ast.unparse(node.value.func) == func_src
            and not node.value.args
            and {k.arg: ast.unparse(k.value) for k in node.value.keywords} == kws)


def _check_dispatch(fn: ast.FunctionDef):
    if [a.arg for a in fn.args.args] != ["target_fit_range", "out_fit_range", "rows", "cols", "readout_times"]:
        fail(fn, "check_fit_ranges signature")
    b = body_no_doc(fn)
    if len(b) != 3 or not all(isinstance(s, ast.If) for s in b):
        fail(fn, "check_fit_ranges body must be three if statements")
    s0, s1, s2 = b
    if not (ast.unparse(s0.test) == "not target_fit_range" and len(s0.body) == 1 and isinstance(s0.body[0], ast.Return)
            and s0.body[0].value is None and not s0.orelse):
        fail(s0, "expected `if not target_fit_range: return`")
    if not (ast.unparse(s1.test) == "out_fit_range" and len(s1.body) == 1 and not s1.orelse and _kw_call(
            s1.body[0], "_check_out_fit_ranges",
            {"target_fit_range": "target_fit_range", "out_fit_range": "out_fit_range"})):
        fail(s1, "expected `if out_fit_range: _check_out_fit_ranges(target_fit_range=..., out_fit_range=...)`")
    if not (_is_isinstance(s2.test, "target_fit_range", "FitRange2D") and len(s2.body) == 1 and len(s2.orelse) == 1
            and _kw_call(s2.body[0], "target_fit_range.check", {"rows": "rows", "cols": "cols"})
            and _kw_call(s2.orelse[0], "target_fit_range.check",
                         {"rows": "rows", "cols": "cols", "readout_times": "readout_times"})):
        fail(s2, "expected the 2D/3D dispatch to target_fit_range.check(...)")


# ------------------------------------------------------------------------------------------ call sites

REL_FIT = "pyxel/calibration/fitting_datatree.py"
DIMKEY = {"readout_time": "DTime", "y": "DRow", "x": "DCol"}
GEOM = {"row": "DRow", "col": "DCol"}
TARGET_DIMS = {"single": ["processor", "y", "x"], "multi": ["processor", "readout_time", "y", "x"]}


def _str_const(node):
    return node.value if isinstance(node, ast.Constant) and isinstance(node.value, str) else None


def _assignments(stmts) -> dict:
    """name -> list of (value node, index in a tuple target or None) for every plain assignment in `stmts`
    (nested blocks included)"""
    env: dict = {}
    for st in stmts:
        for n in ast.walk(st):
            tgts, val = [], None
            if isinstance(n, ast.Assign):
                tgts, val = n.targets, n.value
            elif isinstance(n, ast.AnnAssign) and n.value is not None:
                tgts, val = [n.target], n.value
            for t in tgts:
                if isinstance(t, ast.Name):
                    env.setdefault(t.id, []).append((val, None))
                elif isinstance(t, (ast.Tuple, ast.List)):
                    for i, e in enumerate(t.elts):
                        if isinstance(e, ast.Name):
                            env.setdefault(e.id, []).append((val, (i, len(t.elts))))
    return env


class _Sites:
    def __init__(self, fn: ast.FunctionDef):
        self.fn = fn

    def is_target_array(self, node, env, mode, depth=0) -> list | None:
        """dims of `node` if it denotes the target data read from the target file(s), else None"""
        if depth > 6:
            return None
        if isinstance(node, ast.Name):
            vals = env.get(node.id, [])
            if len(vals) != 1 or vals[0][1] is not None:
                return None
            return self.is_target_array(vals[0][0], env, mode, depth + 1)
        if isinstance(node, ast.Subscript) and isinstance(node.slice, ast.Constant) \
                and isinstance(node.slice.value, int) and not isinstance(node.slice.value, bool):
            inner = self.is_target_array(node.value, env, mode, depth + 1)      # one target file: X[0]
            return inner[1:] if inner and inner[0] == "processor" else None
        if isinstance(node, ast.Call):
            f = ast.unparse(node.func)
            kw = {k.arg: k.value for k in node.keywords}
            if f in ("create_processor_data_array", "read_datacubes") and not node.args \
                    and set(kw) == {"filenames"} and ast.unparse(kw["filenames"]) == "target_filenames":
                return ["processor", "y", "x"] if f == "create_processor_data_array" else \
                    ["processor", "readout_time", "y", "x"]
            if f in ("np.array", "np.asarray", "numpy.array", "numpy.asarray") and len(node.args) == 1 and not kw:
                return self.is_target_array(node.args[0], env, mode, depth + 1)
            if f in ("xr.DataArray", "xarray.DataArray", "DataArray") and node.args and "dims" in kw \
                    and isinstance(kw["dims"], (ast.List, ast.Tuple)):
                dims = [_str_const(e) for e in kw["dims"].elts]
                inner = self.is_target_array(node.args[0], env, mode, depth + 1)
                if inner is not None and len(inner) == len(dims) and all(dims):
                    if dims != inner:
                        fail(node, "target data array built with unexpected dimension names")
                    return dims
        return None

    def dim_of_index(self, dims, node):
        if isinstance(node, ast.Constant) and isinstance(node.value, int) and not isinstance(node.value, bool):
            i = node.value
        elif isinstance(node, ast.UnaryOp) and isinstance(node.op, ast.USub) and isinstance(node.operand, ast.Constant):
            i = -node.operand.value
        else:
            return None
        if not -len(dims) <= i < len(dims):
            return None
        return dims[i]

    def is_readout_times(self, node) -> bool:
        return ast.unparse(node) in ("self.readout.times", "readout.times")

    def quantity(self, node, env, mode, depth=0) -> str:
        """Gallina `qty` of the expression passed as rows / cols / readout_times"""
        if depth > 6:
            fail(node, "size expression too deep")
        if isinstance(node, ast.Constant) and node.value is None:
            return "QAbsent"
        # a local name: follow its unique assignment
        if isinstance(node, ast.Name):
            vals = env.get(node.id, [])
            if len(vals) != 1:
                fail(node, f"size name {node.id!r} has {len(vals)} assignments in this branch")
            val, pos = vals[0]
            if pos is None:
                return self.quantity(val, env, mode, depth + 1)
            # a, b, c = <array>.shape
            if isinstance(val, ast.Attribute) and val.attr == "shape":
                dims = self.is_target_array(val.value, env, mode)
                if dims is not None and len(dims) == pos[1] and dims[pos[0]] in DIMKEY:
                    return f"(QTgt {DIMKEY[dims[pos[0]]]})"
            fail(node, "unsupported tuple assignment of a size")
        # int(...) wrapper
        if isinstance(node, ast.Call) and isinstance(node.func, ast.Name) and node.func.id == "int" \
                and len(node.args) == 1 and not node.keywords:
            return self.quantity(node.args[0], env, mode, depth + 1)
        # len(X["dim"]) / len(X.coords["dim"]) / len(X.dim) ; len(readout.times)
        if isinstance(node, ast.Call) and isinstance(node.func, ast.Name) and node.func.id == "len" \
                and len(node.args) == 1 and not node.keywords:
            a = node.args[0]
            if self.is_readout_times(a):
                return "(QDet DTime)"
            if isinstance(a, ast.Subscript):
                base = a.value.value if isinstance(a.value, ast.Attribute) and a.value.attr in ("coords", "indexes") \
                    else a.value
                dims = self.is_target_array(base, env, mode)
                key = _str_const(a.slice)
                if dims is not None and key in dims and key in DIMKEY:
                    return f"(QTgt {DIMKEY[key]})"
            if isinstance(a, ast.Attribute) and a.attr in DIMKEY:
                dims = self.is_target_array(a.value, env, mode)
                if dims is not None and a.attr in dims:
                    return f"(QTgt {DIMKEY[a.attr]})"
            fail(node, "unsupported len(...) passed to check_fit_ranges")
        # X.sizes["dim"] / X.shape[i] / X["dim"].size
        if isinstance(node, ast.Subscript) and isinstance(node.value, ast.Attribute) and node.value.attr in ("sizes", "shape"):
            dims = self.is_target_array(node.value.value, env, mode)
            if dims is not None:
                key = _str_const(node.slice) if node.value.attr == "sizes" else self.dim_of_index(dims, node.slice)
                if key in dims and key in DIMKEY:
                    return f"(QTgt {DIMKEY[key]})"
            fail(node, "unsupported sizes/shape expression passed to check_fit_ranges")
        if isinstance(node, ast.Attribute) and node.attr == "size":
            if self.is_readout_times(node.value):
                return "(QDet DTime)"
            a = node.value
            if isinstance(a, ast.Subscript):
                dims = self.is_target_array(a.value, env, mode)
                key = _str_const(a.slice)
                if dims is not None and key in dims and key in DIMKEY:
                    return f"(QTgt {DIMKEY[key]})"
            fail(node, "unsupported .size expression passed to check_fit_ranges")
        # detector geometry: processor.detector.geometry.row / <name bound to ...geometry>.row
        if isinstance(node, ast.Attribute) and node.attr in GEOM:
            g = node.value
            if isinstance(g, ast.Name):
                vals = env.get(g.id, [])
                if len(vals) == 1 and vals[0][1] is None:
                    g = vals[0][0]
            if ast.unparse(g) in ("processor.detector.geometry", "self.processor.detector.geometry"):
                return f"(QDet {GEOM[node.attr]})"
        fail(node, "unsupported quantity passed to check_fit_ranges")


def _call_sites(tree) -> tuple[str, str]:
    fn = find_func(tree, "__init__", cls="ModelFittingDataTree")
    sites = _Sites(fn)
    branch_ifs = [n for n in ast.walk(fn) if isinstance(n, ast.If)
                  and ast.unparse(n.test) in ("self.readout.time_domain_simulation", "readout.time_domain_simulation")]
    if len(branch_ifs) != 1 or not branch_ifs[0].orelse:
        fail(fn, "expected one `if self.readout.time_domain_simulation: ... else: ...` in ModelFittingDataTree.__init__")
    node_if = branch_ifs[0]
    all_calls = [n for n in ast.walk(fn) if isinstance(n, ast.Call) and ast.unparse(n.func).split(".")[-1] == "check_fit_ranges"]
    out = {}
    for mode, stmts in (("multi", node_if.body), ("single", node_if.orelse)):
        calls = [n for st in stmts for n in ast.walk(st)
                 if isinstance(n, ast.Call) and ast.unparse(n.func).split(".")[-1] == "check_fit_ranges"]
        if len(calls) != 1:
            fail(node_if, f"expected exactly one call of check_fit_ranges in the {mode} branch, found {len(calls)}")
        call = calls[0]
        if not any(isinstance(st, ast.Expr) and st.value is call for st in stmts):
            fail(call, "check_fit_ranges must be called unconditionally as a statement of the branch")
        if call.args:
            fail(call, "check_fit_ranges must be called with keyword arguments")
        kw = {k.arg: k.value for k in call.keywords}
        if None in kw or not {"target_fit_range", "out_fit_range", "rows", "cols"} <= set(kw) \
                or not set(kw) <= {"target_fit_range", "out_fit_range", "rows", "cols", "readout_times"}:
            fail(call, "unexpected keywords in the call of check_fit_ranges")
        if ast.unparse(kw["target_fit_range"]) != "target_fit_range" or ast.unparse(kw["out_fit_range"]) != "out_fit_range":
            fail(call, "check_fit_ranges must receive target_fit_range / out_fit_range unchanged")
        # names assigned in this branch (only statements before the call count) or before the branch
        idx = next(i for i, st in enumerate(stmts) if isinstance(st, ast.Expr) and st.value is call)
        env = _assignments(stmts[:idx])
        outer = _assignments([st for st in ast.walk(fn) if isinstance(st, (ast.Assign, ast.AnnAssign))
                              and st.lineno < node_if.lineno])
        for k, v in outer.items():
            env.setdefault(k, v)
        q = {k: sites.quantity(kw[k], env, mode) for k in ("rows", "cols")}
        q["readout_times"] = sites.quantity(kw["readout_times"], env, mode) if "readout_times" in kw else "QAbsent"
        if "QAbsent" in (q["rows"], q["cols"]):
            fail(call, "rows / cols must be given")
        out[mode] = f"{{| cs_rows := {q['rows']}; cs_cols := {q['cols']}; cs_times := {q['readout_times']} |}}"
    if len(all_calls) != 2:
        fail(fn, f"expected two calls of check_fit_ranges in ModelFittingDataTree.__init__, found {len(all_calls)}")
    return out["single"], out["multi"]


def render(out_guards, c2, c3, single=None, multi=None) -> str:
    def lst(gs):
        return "[ " + ";\n      ".join(gs) + " ]"
    return (HEADER + "From Coq Require Import ZArith List.\nFrom PyxelV Require Import Model.Fitness.\n"
            "Import ListNotations.\n"
            "Definition src_checker : checker :=\n"
            f"  {{| out_guards :=\n      {lst(out_guards)};\n"
            f"     check2d :=\n      {lst(c2)};\n"
            f"     check3d :=\n      {lst(c3)} |}}.\n"
            "Definition src_calls : calls :=\n"
            f"  {{| call_single := {single or CALL_SINGLE};\n     call_multi := {multi or CALL_MULTI} |}}.\n")


CALL_SINGLE = "{| cs_rows := (QTgt DRow); cs_cols := (QTgt DCol); cs_times := QAbsent |}"
CALL_MULTI = "{| cs_rows := (QTgt DRow); cs_cols := (QTgt DCol); cs_times := (QTgt DTime) |}"


def translate(repo: Path) -> str:
    tree = parse(repo, REL)
    _check_dispatch(find_func(tree, "check_fit_ranges"))
    fo = find_func(tree, "_check_out_fit_ranges")
    if [a.arg for a in fo.args.args] != ["target_fit_range", "out_fit_range"]:
        fail(fo, "_check_out_fit_ranges signature")
    og = _guards(fo, {"target_fit_range": "Tgt", "out_fit_range": "Out"}, allow_pre=True)
    f2 = find_func(tree, "check", cls="FitRange2D")
    if [a.arg for a in f2.args.args] != ["self", "rows", "cols"]:
        fail(f2, "FitRange2D.check signature")
    f3 = find_func(tree, "check", cls="FitRange3D")
    if [a.arg for a in f3.args.args] != ["self", "rows", "cols", "readout_times"]:
        fail(f3, "FitRange3D.check signature")
    c2 = _guards(f2, {"self": "Tgt"}, allow_pre=False)
    c3 = _guards(f3, {"self": "Tgt"}, allow_pre=False)
    single, multi = _call_sites(parse(repo, REL_FIT))
    return render(og, c2, c3, single, multi)


FALLBACK = render(
    ["GCmp PBoth3D false (EStop Tgt DTime) CNe (EStop Out DTime)",
     "GCmp PAlways false (EStop Tgt DRow) CNe (EStop Out DRow)",
     "GCmp PAlways false (EStop Tgt DCol) CNe (EStop Out DCol)"],
    ["GCmp PAlways true (EStop Tgt DRow) CLe (EBound BRows)",
     "GCmp PAlways true (EStop Tgt DCol) CLe (EBound BCols)"],
    ["GCmp PAlways true (EStop Tgt DRow) CLe (EBound BRows)",
     "GCmp PAlways true (EStop Tgt DCol) CLe (EBound BCols)",
     "GNone BTimes",
     "GCmp PAlways true (EStop Tgt DTime) CLe (EBound BTimes)"])
