"""pyxel/calibration/util.py range checker -> Gallina guard table (Model.Fitness.checker).

Extracted (fail closed on anything else):
  * `_check_out_fit_ranges`: a sequence of `if <cond>: raise ValueError(...)`, where <cond> is a comparison
    (optionally negated) of range end points / differences of end points, optionally guarded by
    `isinstance(target_fit_range, FitRange3D) and isinstance(out_fit_range, FitRange3D) and ...`;
  * `FitRange2D.check`, `FitRange3D.check`: a sequence of `if [not] <comparison>: raise ValueError(...)` and
    `if <bound> is None: raise ValueError(...)`;
  * the dispatch of `check_fit_ranges` (absent target accepted; out guards only if `out_fit_range`;
    2D/3D check called with rows, cols[, readout_times]);
  * pyxel/calibration/fitting_datatree.py, `ModelFittingDataTree.__init__`: the two calls of `check_fit_ranges`
    (time-domain branch / single-readout branch) — which quantity is passed as rows / cols / readout_times:
    the size of the target data read from file (`len(targets["y"])`, `targets.sizes["y"]`, `targets.shape[i]`,
    a name unpacked from `targets_4d.shape` ...), the size of the simulated frame (`processor.detector.geometry.row`,
    `len(readout.times)` ...), or nothing -> Model.Fitness.calls;
  * same file: in which branch(es) `self._configure_weights(weights=weights, weights_from_file=weights_from_file)` is
    called, the `shape=` of the `np.full(...)` that expands a scalar weight in `fitness`, and whether target data and
    weights are restricted through `_target_indexers` (time component under 'readout_time') -> Model.Fitness.wconf.

Every function is NORMALISED before it is read (translator/c11_norm.py; general rewrites, never a list of known texts), so
that behaviour-preserving refactorings translate to the same table:
  * calls of private helpers of the same class / module are inlined (statement calls with guard clauses lowered to
    if/else; single-`return` helpers also inside conditions) — except the landmarks the extractors key on
    (`_bounds`, `_length`, `_check_out_fit_ranges`; `_calculate_fitness`, `_get_simulated_data`, `_configure_weights`,
    `_set_bound`, `_target_indexers`);
  * single-assignment local aliases of attribute paths are substituted when nothing on the path is stored at or after
    the alias (nor by a method the function calls); named intermediate results are followed (`_deref`);
  * `if not c: A else: B` == `if c: B else: A`; early `return` == nested if/else; `x = a if c else b` == if/else;
    `match` on literals == if/elif; a manual counter == `enumerate`; module-level literal constants are resolved;
    docstrings, comments, annotations, logging statements, messages and local names are not read;
  * the guard functions are read by a flow-sensitive walk (`_GuardWalk`): nests of `if` / `elif` / `else`, `and` / `or` /
    `not` / chained comparisons (De Morgan over integer comparisons), local names for bounds and lengths; every row is put
    in ONE canonical form (`_canon`: `a > b` == `not a <= b` == `b < a`; `!=` / `==` symmetric) and rows that can only
    raise their ValueError are put in one fixed order (`_canon_order`: they commute);
  * arguments may be positional or by keyword.
Everything else still fails closed.
"""
from __future__ import annotations

import ast
from pathlib import Path

from . import c11_norm as norm
from .common import HEADER, body_no_doc, fail, find_func, parse

REL = "pyxel/calibration/util.py"
DIMS = {"time": "DTime", "row": "DRow", "col": "DCol"}
BOUNDS = {"rows": "BRows", "cols": "BCols", "readout_times": "BTimes"}
OPS = {ast.Eq: "CEq", ast.NotEq: "CNe", ast.LtE: "CLe", ast.Lt: "CLt", ast.GtE: "CGe", ast.Gt: "CGt"}


def _range_dim(node, sides):
    """<range>.<dim> -> (side, dim) or None"""
    if (isinstance(node, ast.Attribute) and node.attr in DIMS and isinstance(node.value, ast.Name)
            and node.value.id in sides):
        return sides[node.value.id], DIMS[node.attr]
    return None


def _helper_call(node, name: str, sides):
    """`name(<range>.<dim>, <bound>)` -> (side, dim, bound) or None"""
    if (isinstance(node, ast.Call) and isinstance(node.func, ast.Name) and node.func.id == name and len(node.args) == 2
            and not node.keywords and isinstance(node.args[1], ast.Name) and node.args[1].id in BOUNDS):
        rd = _range_dim(node.args[0], sides)
        if rd is not None:
            return rd[0], rd[1], BOUNDS[node.args[1].id]
    return None


def _expr(node, sides: dict, env: dict | None = None, helpers: frozenset = frozenset()) -> str:
    """sides: name of the variable -> 'Tgt' | 'Out';  env: local name -> Gallina expr (results of `_bounds`)."""
    env = env or {}
    if isinstance(node, ast.BinOp) and isinstance(node.op, ast.Sub):
        return f"(ESub {_expr(node.left, sides, env, helpers)} {_expr(node.right, sides, env, helpers)})"
    if isinstance(node, ast.Name) and node.id in env:
        return env[node.id]
    if isinstance(node, ast.Name) and node.id in BOUNDS:
        return f"(EBound {BOUNDS[node.id]})"
    if isinstance(node, ast.Constant) and isinstance(node.value, int) and not isinstance(node.value, bool):
        return f"(EConst {node.value})" if node.value >= 0 else f"(EConst ({node.value}))"
    if (isinstance(node, ast.Attribute) and node.attr in ("start", "stop")):
        rd = _range_dim(node.value, sides)
        if rd is not None:
            return f"({'EStart' if node.attr == 'start' else 'EStop'} {rd[0]} {rd[1]})"
    if "_length" in helpers:
        h = _helper_call(node, "_length", sides)
        if h is not None:
            return f"(ESub (ERStop {h[0]} {h[1]} {h[2]}) (ERStart {h[0]} {h[1]} {h[2]}))"
    if "_bounds" in helpers and isinstance(node, ast.Subscript) and isinstance(node.slice, ast.Constant) \
            and node.slice.value in (0, 1):
        h = _helper_call(node.value, "_bounds", sides)
        if h is not None:
            return f"({'ERStart' if node.slice.value == 0 else 'ERStop'} {h[0]} {h[1]} {h[2]})"
    fail(node, "unsupported expression in a range comparison")


def _compare(node, sides, env=None, helpers=frozenset()) -> list[tuple[bool, str, str, str]]:
    """one guard per comparison: `not a <= b <= c` raises as soon as one link fails, in order"""
    neg = False
    if isinstance(node, ast.UnaryOp) and isinstance(node.op, ast.Not):
        neg, node = True, node.operand
    if not (isinstance(node, ast.Compare) and all(type(o) in OPS for o in node.ops)):
        fail(node, "expected a comparison")
    if len(node.ops) > 1 and not neg:
        fail(node, "a chained comparison is only supported under `not`")
    terms = [node.left, *node.comparators]
    return [(neg, _expr(x, sides, env, helpers), OPS[type(op)], _expr(y, sides, env, helpers))
            for x, op, y in zip(terms, node.ops, terms[1:])]


def _is_isinstance(node, var: str, cls: str) -> bool:
    return (isinstance(node, ast.Call) and isinstance(node.func, ast.Name) and node.func.id == "isinstance"
            and len(node.args) == 2 and not node.keywords and isinstance(node.args[0], ast.Name)
            and node.args[0].id == var and isinstance(node.args[1], ast.Name) and node.args[1].id == cls)


def _raises_value_error(stmts) -> bool:
    if len(stmts) != 1 or not isinstance(stmts[0], ast.Raise) or stmts[0].exc is None:
        return False
    e = stmts[0].exc
    name = e.func if isinstance(e, ast.Call) else e
    return isinstance(name, ast.Name) and name.id == "ValueError"


def _cond_default(node, attr: str, default_src: str, var: str) -> bool:
    """`<default> if <var>.<attr> is None else <var>.<attr>` (or the mirrored `is not None` form)"""
    if not isinstance(node, ast.IfExp):
        return False
    t = node.test
    if not (isinstance(t, ast.Compare) and len(t.ops) == 1 and ast.unparse(t.left) == f"{var}.{attr}"
            and isinstance(t.comparators[0], ast.Constant) and t.comparators[0].value is None):
        return False
    dflt, val = (node.body, node.orelse) if isinstance(t.ops[0], ast.Is) else (node.orelse, node.body)
    if not isinstance(t.ops[0], (ast.Is, ast.IsNot)):
        return False
    return ast.unparse(dflt) == default_src and ast.unparse(val) == f"{var}.{attr}"


def _helpers(tree) -> frozenset:
    """Which of the helpers `_bounds(data, size) -> (start or 0, stop or size)` and
    `_length(data, size) -> stop - start` exist with exactly that meaning (parameter and local names are free)."""
    found = set()
    fns = {n.name: n for n in tree.body if isinstance(n, ast.FunctionDef)}
    fb = fns.get("_bounds")
    if fb is not None:
        if len(fb.args.args) != 2 or fb.args.defaults or fb.args.kwonlyargs or fb.args.vararg or fb.args.kwarg:
            fail(fb, "_bounds signature")
        data, size = (a.arg for a in fb.args.args)
        vals = {}
        body = [st for st in body_no_doc(fb) if not norm.is_logging(st)]
        for st in body[:-1]:
            if isinstance(st, ast.AnnAssign) and isinstance(st.target, ast.Name) and st.value is not None \
                    and st.target.id not in vals and st.target.id not in (data, size):
                vals[st.target.id] = st.value
            elif isinstance(st, ast.Assign) and len(st.targets) == 1 and isinstance(st.targets[0], ast.Name) \
                    and st.targets[0].id not in vals and st.targets[0].id not in (data, size):
                vals[st.targets[0].id] = st.value
            else:
                fail(st, "_bounds: unsupported statement")
        ret = body[-1] if body else None
        if not (isinstance(ret, ast.Return) and isinstance(ret.value, ast.Tuple) and len(ret.value.elts) == 2):
            fail(fb, "_bounds must return (start, stop)")
        r0, r1 = (vals.get(e.id, e) if isinstance(e, ast.Name) else e for e in ret.value.elts)
        if not (_cond_default(r0, "start", "0", data) and _cond_default(r1, "stop", size, data)):
            fail(fb, "_bounds must return (0 if data.start is None else data.start, size if data.stop is None else data.stop)")
        found.add("_bounds")
    fl = fns.get("_length")
    if fl is not None:
        if "_bounds" not in found or len(fl.args.args) != 2 or fl.args.defaults or fl.args.kwonlyargs or fl.args.vararg \
                or fl.args.kwarg:
            fail(fl, "_length signature")
        data, size = (a.arg for a in fl.args.args)
        body = [st for st in body_no_doc(fl) if not norm.is_logging(st)]
        call = f"_bounds({data}, {size})"
        ok = False
        if len(body) == 2 and isinstance(body[0], ast.Assign) and len(body[0].targets) == 1 \
                and isinstance(body[0].targets[0], ast.Tuple) and len(body[0].targets[0].elts) == 2 \
                and all(isinstance(e, ast.Name) for e in body[0].targets[0].elts) and ast.unparse(body[0].value) == call \
                and isinstance(body[1], ast.Return) and body[1].value is not None:
            a, b = (e.id for e in body[0].targets[0].elts)
            ok = a != b and ast.unparse(body[1].value) == f"{b} - {a}"
        ok = ok or (len(body) == 1 and isinstance(body[0], ast.Return) and body[0].value is not None
                    and ast.unparse(body[0].value) == f"{call}[1] - {call}[0]")
        if not ok:
            fail(fl, "_length must return stop - start of _bounds(data, size)")
        found.add("_length")
    return frozenset(found)


# canonical form of one comparison that raises when it is TRUE (`neg` = raises when it is FALSE), over integers
# (None operands make both forms raise the same TypeError): order comparisons are written `not (x <= y)` / `not (x < y)`,
# (in)equalities `x != y` / `x == y`, so that `a > b`, `not a <= b`, `b < a` are one row
def _canon(neg: bool, a: str, op: str, b: str) -> tuple[bool, str, str, str]:
    if op in ("CEq", "CNe"):
        if neg:
            neg, op = False, ("CNe" if op == "CEq" else "CEq")
        # symmetric: the operand that mentions the target range first
        if ("Tgt" not in a and "Tgt" in b) or (("Tgt" in a) == ("Tgt" in b) and b < a):
            a, b = b, a
        return neg, a, op, b
    if op in ("CGe", "CGt"):                  # a >= b  ==  b <= a
        a, b, op = b, a, ("CLe" if op == "CGe" else "CLt")
    if not neg:                               # a <= b  ==  not (b < a)
        a, b, op, neg = b, a, ("CLt" if op == "CLe" else "CLe"), True
    return neg, a, op, b


class _GuardWalk:
    """A guard function (`FitRange2D.check`, `FitRange3D.check`, `_check_out_fit_ranges`) as the ordered list of
    conditions under which it raises ValueError.  Accepted: local names bound once to the result of `_bounds` / `_length`
    / a range end point / a difference (substituted); `if` / `elif` / `else` nests, guard clauses, `return`, `pass`,
    `assert isinstance(...)`-free bodies; conditions built with `not`, `and`, `or`, chained comparisons, `isinstance(<range>,
    FitRange3D)`, `<bound> is None`.  A raise condition must be a disjunction of `[both ranges are 3D and] <comparison>`
    (the shape of a table row); everything else fails closed."""

    def __init__(self, fn, sides, allow_pre, helpers):
        self.fn, self.sides, self.allow_pre, self.helpers = fn, sides, allow_pre, helpers
        self.env: dict = {}          # local name -> (Gallina expr, may raise?, number of guards emitted when bound, path)
        self.fenv: dict = {}         # local name -> formula made of `isinstance(<range>, FitRange3D)` facts only
        self.out: list[str] = []

    # -- conditions -> formula: ('lit', neg, node) | ('isinst', side) | ('none', bound) | ('and'|'or', [..]) | ('not', f)
    def formula(self, t):
        if isinstance(t, ast.Name) and t.id in self.fenv:
            return self.fenv[t.id]
        if isinstance(t, ast.UnaryOp) and isinstance(t.op, ast.Not):
            return ("not", self.formula(t.operand))
        if isinstance(t, ast.BoolOp):
            return ("and" if isinstance(t.op, ast.And) else "or", [self.formula(v) for v in t.values])
        for var in ("target_fit_range", "out_fit_range"):
            if _is_isinstance(t, var, "FitRange3D") and var in self.sides:
                return ("isinst", var)
        if isinstance(t, ast.Compare) and len(t.ops) == 1 and isinstance(t.ops[0], (ast.Is, ast.IsNot)) \
                and isinstance(t.left, ast.Name) and t.left.id in BOUNDS and t.left.id not in self.env \
                and isinstance(t.comparators[0], ast.Constant) and t.comparators[0].value is None:
            f = ("none", BOUNDS[t.left.id])
            return f if isinstance(t.ops[0], ast.Is) else ("not", f)
        if isinstance(t, ast.Compare) and all(type(o) in OPS for o in t.ops):
            terms = [t.left, *t.comparators]
            links = [("lit", x, OPS[type(op)], y) for x, op, y in zip(terms, t.ops, terms[1:])]
            return links[0] if len(links) == 1 else ("and", links)
        fail(t, f"{self.fn.name}: unsupported condition in a range guard")

    def nnf(self, f, neg=False):
        k = f[0]
        if k == "not":
            return self.nnf(f[1], not neg)
        if k in ("and", "or"):
            kk = k if not neg else ("or" if k == "and" else "and")
            parts = []
            for x in f[1]:
                y = self.nnf(x, neg)
                parts += y[1] if y[0] == kk else [y]          # flatten
            return (kk, parts)
        return ("atom", neg, f)

    def rows(self, f, pre: list, node) -> list[tuple[list, tuple]]:
        """negation normal form -> [(isinstance facts, literal)] in evaluation order"""
        if f[0] == "or":
            return [r for x in f[1] for r in self.rows(x, pre, node)]
        if f[0] == "and":
            facts, rest = list(pre), []
            for x in f[1]:
                if x[0] == "atom" and x[2][0] == "isinst" and not x[1] and not rest:
                    facts.append(x[2][1])
                else:
                    rest.append(x)
            if len(rest) != 1:
                fail(node, f"{self.fn.name}: a conjunction of comparisons is not the shape of a guard row")
            return self.rows(rest[0], facts, node)
        _, neg, a = f
        if a[0] == "isinst":
            fail(node, f"{self.fn.name}: unsupported use of isinstance in a range guard")
        return [(list(pre), (neg, a))]

    def pre_of(self, facts, node) -> str:
        s = set(facts)
        if not s:
            return "PAlways"
        if self.allow_pre and s == {"target_fit_range", "out_fit_range"}:
            return "PBoth3D"
        fail(node, f"{self.fn.name}: a guard that depends on the kind of one range only is not the shape of a guard row")

    def operand(self, node, facts, stmt) -> str:
        if isinstance(node, ast.Name) and node.id in self.env:
            if self.env[node.id] is None:
                fail(stmt, f"{self.fn.name}: {node.id!r} was bound inside a conditional block that has ended")
            ex, may_raise, n_emitted, path = self.env[node.id]
            if may_raise and (set(path) != set(facts) or n_emitted != self.n_at_stmt):
                fail(stmt, f"{self.fn.name}: {node.id!r} is computed under other conditions than the comparison that uses it")
            return ex
        return _expr(node, self.sides, self.plain_env(stmt), self.helpers)

    def plain_env(self, stmt):
        return {k: v[0] for k, v in self.env.items() if v is not None}

    def scoped(self, stmts, path) -> bool:
        """walk a conditional block: what it binds is not visible afterwards"""
        before = dict(self.env)
        r = self.walk(stmts, path)
        for k, v in list(self.env.items()):
            if before.get(k) is not v:
                self.env[k] = None
        for k, v in before.items():
            if self.env.get(k) is not None and self.env[k] is not v:
                self.env[k] = None
        return r

    def emit(self, cond_rows, stmt):
        for facts, (neg, a) in cond_rows:
            if a[0] == "none":
                if neg or facts:
                    fail(stmt, f"{self.fn.name}: unsupported guard on an absent size")
                self.out.append(f"GNone {a[1]}")
                continue
            _, x, op, y = a
            pre = self.pre_of(facts, stmt)
            # a raise on a TRUE comparison is `neg = false`; under `not` the row raises when the comparison is FALSE
            n, ea, o, eb = _canon(neg, self.operand(x, facts, stmt), op, self.operand(y, facts, stmt))
            self.out.append(f"GCmp {pre} {'true' if n else 'false'} {ea} {o} {eb}")

    # -- statements
    def bind(self, st, path):
        tg = st.targets[0] if isinstance(st, ast.Assign) else st.target
        val = st.value
        env0 = self.plain_env(st)
        # a flag: `both_3d = isinstance(t, FitRange3D) and isinstance(o, FitRange3D)` (cannot raise, bound once, top level)
        if isinstance(tg, ast.Name) and (isinstance(val, ast.BoolOp) or (isinstance(val, ast.Call) and ast.unparse(val.func) == "isinstance")):
            f = self.formula(val)

            def only_isinst(x):
                return x[0] == "isinst" or (x[0] == "and" and all(only_isinst(y) for y in x[1]))
            if not only_isinst(f) or path or tg.id in self.fenv or tg.id in self.env or tg.id in BOUNDS or tg.id in self.sides:
                fail(st, f"{self.fn.name}: unsupported flag")
            self.fenv[tg.id] = f
            return

        def new(name, ex, src):
            if name in BOUNDS or name in self.sides:
                fail(st, f"{self.fn.name}: the parameter {name!r} is rebound")
            # `<range>.time` exists on 3D ranges only: the range must be known to be 3D where it is read
            for var, side in self.sides.items():
                if f"{side} DTime" in ex and not (var in path or (var == "self" and self.fn_is_3d)):
                    fail(st, f"{self.fn.name}: the time component is read without knowing that the range has one")
            # `_length(<range>.time, readout_times)` raises TypeError when both the stop and readout_times are absent: the
            # model raises it where the value is compared, so nothing may be decided between the two places
            may = "ESub" in ex and "BTimes" in ex
            self.env[name] = (ex, may, len(self.out), list(path))
        if isinstance(tg, ast.Tuple) and len(tg.elts) == 2 and all(isinstance(e, ast.Name) for e in tg.elts) \
                and "_bounds" in self.helpers:
            h = _helper_call(val, "_bounds", self.sides)
            if h is None:
                fail(st, f"{self.fn.name}: unsupported assignment")
            new(tg.elts[0].id, f"(ERStart {h[0]} {h[1]} {h[2]})", val)
            new(tg.elts[1].id, f"(ERStop {h[0]} {h[1]} {h[2]})", val)
            return
        if isinstance(tg, ast.Name):
            new(tg.id, _expr(val, self.sides, env0, self.helpers), val)
            return
        fail(st, f"{self.fn.name}: unsupported assignment")

    def walk(self, stmts, path: list) -> bool:
        """-> does the block always leave the function?  `path`: isinstance facts known to hold"""
        for i, st in enumerate(stmts):
            self.n_at_stmt = len(self.out)
            if isinstance(st, ast.Pass) or (isinstance(st, ast.Expr) and isinstance(st.value, ast.Constant)) or norm.is_logging(st):
                continue
            if isinstance(st, (ast.Assign, ast.AnnAssign)) and getattr(st, "value", None) is not None \
                    and (isinstance(st, ast.AnnAssign) or len(st.targets) == 1):
                self.bind(st, path)
                continue
            if isinstance(st, ast.Return) and st.value is None:
                return True
            if isinstance(st, ast.Raise):
                if not _raises_value_error([st]):
                    fail(st, f"{self.fn.name}: only ValueError may be raised")
                if path:
                    fail(st, f"{self.fn.name}: unconditional raise for one kind of range")
                fail(st, f"{self.fn.name}: unconditional raise")
            if not isinstance(st, ast.If):
                fail(st, f"{self.fn.name}: every statement must be a guard `if <cond>: raise ValueError(...)`, an assignment of "
                         "a range bound / length, or a nest of them")
            f = self.formula(st.test)
            body_raises = bool(st.body) and isinstance(st.body[0], ast.Raise)
            else_raises = bool(st.orelse) and isinstance(st.orelse[0], ast.Raise)
            if body_raises or else_raises:
                blk = st.body if body_raises else st.orelse
                if not _raises_value_error(blk[:1]):
                    fail(st, f"{self.fn.name}: only ValueError may be raised")
                self.emit(self.rows(self.nnf(f, neg=not body_raises), list(path), st), st)
                other = st.orelse if body_raises else st.body
                # the raising branch is covered by the rows just emitted: the other branch and what follows run when
                # none of them fired, which is what "later rows" means
                if self.scoped(other, path) if other else False:
                    return True
                continue
            # no immediate raise: only `isinstance` facts may select a sub-block
            pos = self.nnf(f)
            facts = [pos] if pos[0] == "atom" else (pos[1] if pos[0] == "and" else None)
            if facts is None or not all(x[0] == "atom" and x[2][0] == "isinst" and not x[1] for x in facts):
                fail(st, f"{self.fn.name}: a block of guards may only depend on the ranges being 3D")
            if st.orelse:
                fail(st, f"{self.fn.name}: `else` of a block of guards")
            if self.scoped(st.body, path + [x[2][1] for x in facts]):
                fail(st, f"{self.fn.name}: a conditional block leaves the function")
        return False

    def run(self, fn_is_3d: bool) -> list[str]:
        self.fn_is_3d = fn_is_3d
        self.n_at_stmt = 0
        self.walk(body_no_doc(self.fn), [])
        if not self.out:
            fail(self.fn, f"{self.fn.name}: no guard found")
        return self.out


def _guards(fn: ast.FunctionDef, sides: dict, allow_pre: bool, helpers: frozenset = frozenset(), is_3d: bool = False) -> list[str]:
    return _GuardWalk(fn, sides, allow_pre, helpers).run(is_3d)


def _bound_args(call: ast.Call, params: list[str]) -> dict | None:
    """keyword view of a call: positional arguments are named after the callee's parameters"""
    if len(call.args) > len(params) or any(isinstance(a, ast.Starred) for a in call.args):
        return None
    got = {p_: ast.unparse(a) for p_, a in zip(params, call.args)}
    for k in call.keywords:
        if k.arg is None or k.arg in got:
            return None
        got[k.arg] = ast.unparse(k.value)
    return got


def _kw_call(node, func_src: str, kws: dict, params: list[str] | None = None) -> bool:
    if not (isinstance(node, ast.Expr) and isinstance(node.value, ast.Call) and ast.unparse(node.value.func) == func_src):
        return False
    return _bound_args(node.value, params if params is not None else []) == kws


CHECK_PARAMS = ["target_fit_range", "out_fit_range", "rows", "cols", "readout_times"]


def _check_dispatch(fn: ast.FunctionDef) -> bool:
    """-> target_first: is the target range validated before the two ranges are compared?
    Accepted: `if not target_fit_range: return` as a guard clause or as the enclosing `if target_fit_range:` block
    (`is None` / `is not None` likewise); then, in either order, `if out_fit_range: _check_out_fit_ranges(...)` and the
    2D/3D dispatch `if isinstance(target_fit_range, FitRange2D): .check(rows, cols) else: .check(rows, cols, readout_times)`
    (or the mirrored test on FitRange3D); arguments positional or by keyword; logging statements ignored."""
    if [a.arg for a in fn.args.args] != CHECK_PARAMS:
        fail(fn, "check_fit_ranges signature")
    import copy as _copy
    f = _copy.deepcopy(fn)
    f.body = [st for st in body_no_doc(f) if not norm.is_logging(st)] or [ast.Pass()]
    f = norm.swap_negated_ifs(norm.lower_returns(norm.match_to_if(f)))
    b = [st for st in f.body if not isinstance(st, ast.Pass)]
    present = ("target_fit_range", "target_fit_range is not None")
    if len(b) == 1 and isinstance(b[0], ast.If) and ast.unparse(b[0].test) in present \
            and all(isinstance(x, ast.Pass) for x in b[0].orelse):
        b = [st for st in b[0].body if not isinstance(st, ast.Pass)]
    elif len(b) == 1 and isinstance(b[0], ast.If) and ast.unparse(b[0].test) == "target_fit_range is None" \
            and all(isinstance(x, ast.Pass) for x in b[0].body):
        b = [st for st in b[0].orelse if not isinstance(st, ast.Pass)]
    else:
        fail(fn, "expected `if not target_fit_range: return` in front of the checks")
    b = [st for st in b if not norm.is_logging(st)]
    if len(b) != 2 or not all(isinstance(x, ast.If) for x in b):
        fail(fn, "check_fit_ranges must consist of the target check and the comparison of the two ranges")
    target_first = ast.unparse(b[1].test) in ("out_fit_range", "out_fit_range is not None")
    s1, s2 = (b[1], b[0]) if target_first else (b[0], b[1])
    same = {"target_fit_range": "target_fit_range", "out_fit_range": "out_fit_range"}
    sized = dict(same, rows="rows", cols="cols", readout_times="readout_times")
    if not (ast.unparse(s1.test) in ("out_fit_range", "out_fit_range is not None") and len(s1.body) == 1 and not s1.orelse
            and (_kw_call(s1.body[0], "_check_out_fit_ranges", same, CHECK_PARAMS)
                 or _kw_call(s1.body[0], "_check_out_fit_ranges", sized, CHECK_PARAMS))):
        fail(s1, "expected `if out_fit_range: _check_out_fit_ranges(target_fit_range=..., out_fit_range=...[, rows=rows, "
                 "cols=cols, readout_times=readout_times])`")
    two = {"rows": "rows", "cols": "cols"}
    three = dict(two, readout_times="readout_times")
    pr = ["rows", "cols", "readout_times"]
    if len(s2.body) != 1 or len(s2.orelse) != 1:
        fail(s2, "expected the 2D/3D dispatch to target_fit_range.check(...)")
    if _is_isinstance(s2.test, "target_fit_range", "FitRange2D"):
        b2, b3 = s2.body[0], s2.orelse[0]
    elif _is_isinstance(s2.test, "target_fit_range", "FitRange3D"):
        b3, b2 = s2.body[0], s2.orelse[0]
    else:
        fail(s2, "expected the 2D/3D dispatch to target_fit_range.check(...)")
    if not (_kw_call(b2, "target_fit_range.check", two, pr) and _kw_call(b3, "target_fit_range.check", three, pr)):
        fail(s2, "expected the 2D/3D dispatch to target_fit_range.check(...)")
    return target_first


# ------------------------------------------------------------------------------------------ call sites

REL_FIT = "pyxel/calibration/fitting_datatree.py"
DIMKEY = {"readout_time": "DTime", "y": "DRow", "x": "DCol"}
GEOM = {"row": "DRow", "col": "DCol"}
TARGET_DIMS = {"single": ["processor", "y", "x"], "multi": ["processor", "readout_time", "y", "x"]}


def _str_const(node):
    return node.value if isinstance(node, ast.Constant) and isinstance(node.value, str) else None


def _assignments(stmts) -> dict:
    """name -> list of (value node, index in a tuple target or None) for every plain assignment in `stmts`
    (nested blocks included)"""
    env: dict = {}
    for st in stmts:
        for n in ast.walk(st):
            tgts, val = [], None
            if isinstance(n, ast.Assign):
                tgts, val = n.targets, n.value
            elif isinstance(n, ast.AnnAssign) and n.value is not None:
                tgts, val = [n.target], n.value
            for t in tgts:
                if isinstance(t, ast.Name):
                    env.setdefault(t.id, []).append((val, None))
                elif isinstance(t, (ast.Tuple, ast.List)):
                    for i, e in enumerate(t.elts):
                        if isinstance(e, ast.Name):
                            env.setdefault(e.id, []).append((val, (i, len(t.elts))))
    return env


class _Sites:
    def __init__(self, fn: ast.FunctionDef):
        self.fn = fn

    def is_target_array(self, node, env, mode, depth=0) -> list | None:
        """dims of `node` if it denotes the target data read from the target file(s), else None"""
        if depth > 6:
            return None
        if isinstance(node, ast.Name):
            vals = env.get(node.id, [])
            if len(vals) != 1 or vals[0][1] is not None:
                return None
            return self.is_target_array(vals[0][0], env, mode, depth + 1)
        if isinstance(node, ast.Subscript) and isinstance(node.slice, ast.Constant) \
                and isinstance(node.slice.value, int) and not isinstance(node.slice.value, bool):
            inner = self.is_target_array(node.value, env, mode, depth + 1)      # one target file: X[0]
            return inner[1:] if inner and inner[0] == "processor" else None
        if isinstance(node, ast.Call):
            f = ast.unparse(node.func)
            kw = {k.arg: k.value for k in node.keywords}
            if f in ("create_processor_data_array", "read_datacubes") and not node.args \
                    and set(kw) == {"filenames"} and ast.unparse(kw["filenames"]) == "target_filenames":
                return ["processor", "y", "x"] if f == "create_processor_data_array" else \
                    ["processor", "readout_time", "y", "x"]
            if f in ("np.array", "np.asarray", "numpy.array", "numpy.asarray") and len(node.args) == 1 and not kw:
                return self.is_target_array(node.args[0], env, mode, depth + 1)
            if f in ("xr.DataArray", "xarray.DataArray", "DataArray") and node.args and "dims" in kw \
                    and isinstance(kw["dims"], (ast.List, ast.Tuple)):
                dims = [_str_const(e) for e in kw["dims"].elts]
                inner = self.is_target_array(node.args[0], env, mode, depth + 1)
                if inner is not None and len(inner) == len(dims) and all(dims):
                    if dims != inner:
                        fail(node, "target data array built with unexpected dimension names")
                    return dims
        return None

    def dim_of_index(self, dims, node):
        if isinstance(node, ast.Constant) and isinstance(node.value, int) and not isinstance(node.value, bool):
            i = node.value
        elif isinstance(node, ast.UnaryOp) and isinstance(node.op, ast.USub) and isinstance(node.operand, ast.Constant):
            i = -node.operand.value
        else:
            return None
        if not -len(dims) <= i < len(dims):
            return None
        return dims[i]

    def is_readout_times(self, node) -> bool:
        return ast.unparse(node) in ("self.readout.times", "readout.times")

    def quantity(self, node, env, mode, depth=0) -> str:
        """Gallina `qty` of the expression passed as rows / cols / readout_times"""
        if depth > 6:
            fail(node, "size expression too deep")
        if isinstance(node, ast.Constant) and node.value is None:
            return "QAbsent"
        # a local name: follow its unique assignment
        if isinstance(node, ast.Name):
            vals = env.get(node.id, [])
            if len(vals) != 1:
                fail(node, f"size name {node.id!r} has {len(vals)} assignments in this branch")
            val, pos = vals[0]
            if pos is None:
                return self.quantity(val, env, mode, depth + 1)
            # a, b, c = <array>.shape
            if isinstance(val, ast.Attribute) and val.attr == "shape":
                dims = self.is_target_array(val.value, env, mode)
                if dims is not None and len(dims) == pos[1] and dims[pos[0]] in DIMKEY:
                    return f"(QTgt {DIMKEY[dims[pos[0]]]})"
            fail(node, "unsupported tuple assignment of a size")
        # int(...) wrapper
        if isinstance(node, ast.Call) and isinstance(node.func, ast.Name) and node.func.id == "int" \
                and len(node.args) == 1 and not node.keywords:
            return self.quantity(node.args[0], env, mode, depth + 1)
        # len(X["dim"]) / len(X.coords["dim"]) / len(X.dim) ; len(readout.times)
        if isinstance(node, ast.Call) and isinstance(node.func, ast.Name) and node.func.id == "len" \
                and len(node.args) == 1 and not node.keywords:
            a = node.args[0]
            if self.is_readout_times(a):
                return "(QDet DTime)"
            if isinstance(a, ast.Subscript):
                base = a.value.value if isinstance(a.value, ast.Attribute) and a.value.attr in ("coords", "indexes") \
                    else a.value
                dims = self.is_target_array(base, env, mode)
                key = _str_const(a.slice)
                if dims is not None and key in dims and key in DIMKEY:
                    return f"(QTgt {DIMKEY[key]})"
            if isinstance(a, ast.Attribute) and a.attr in DIMKEY:
                dims = self.is_target_array(a.value, env, mode)
                if dims is not None and a.attr in dims:
                    return f"(QTgt {DIMKEY[a.attr]})"
            fail(node, "unsupported len(...) passed to check_fit_ranges")
        # X.sizes["dim"] / X.shape[i] / X["dim"].size
        if isinstance(node, ast.Subscript) and isinstance(node.value, ast.Attribute) and node.value.attr in ("sizes", "shape"):
            dims = self.is_target_array(node.value.value, env, mode)
            if dims is not None:
                key = _str_const(node.slice) if node.value.attr == "sizes" else self.dim_of_index(dims, node.slice)
                if key in dims and key in DIMKEY:
                    return f"(QTgt {DIMKEY[key]})"
            fail(node, "unsupported sizes/shape expression passed to check_fit_ranges")
        if isinstance(node, ast.Attribute) and node.attr == "size":
            if self.is_readout_times(node.value):
                return "(QDet DTime)"
            a = node.value
            if isinstance(a, ast.Subscript):
                dims = self.is_target_array(a.value, env, mode)
                key = _str_const(a.slice)
                if dims is not None and key in dims and key in DIMKEY:
                    return f"(QTgt {DIMKEY[key]})"
            fail(node, "unsupported .size expression passed to check_fit_ranges")
        # detector geometry: processor.detector.geometry.row / <name bound to ...geometry>.row
        if isinstance(node, ast.Attribute) and node.attr in GEOM:
            g = node.value
            if isinstance(g, ast.Name):
                vals = env.get(g.id, [])
                if len(vals) == 1 and vals[0][1] is None:
                    g = vals[0][0]
            if ast.unparse(g) in ("processor.detector.geometry", "self.processor.detector.geometry"):
                return f"(QDet {GEOM[node.attr]})"
        fail(node, "unsupported quantity passed to check_fit_ranges")


def _call_sites(tree) -> tuple[str, str]:
    fn = find_func(tree, "__init__", cls="ModelFittingDataTree")
    sites = _Sites(fn)
    branch_ifs = [n for n in ast.walk(fn) if isinstance(n, ast.If)
                  and ast.unparse(n.test) in ("self.readout.time_domain_simulation", "readout.time_domain_simulation")]
    if len(branch_ifs) != 1 or not branch_ifs[0].orelse:
        fail(fn, "expected one `if self.readout.time_domain_simulation: ... else: ...` in ModelFittingDataTree.__init__")
    node_if = branch_ifs[0]
    all_calls = [n for n in ast.walk(fn) if isinstance(n, ast.Call) and ast.unparse(n.func).split(".")[-1] == "check_fit_ranges"]
    out = {}
    for mode, stmts in (("multi", node_if.body), ("single", node_if.orelse)):
        calls = [n for st in stmts for n in ast.walk(st)
                 if isinstance(n, ast.Call) and ast.unparse(n.func).split(".")[-1] == "check_fit_ranges"]
        if len(calls) != 1:
            fail(node_if, f"expected exactly one call of check_fit_ranges in the {mode} branch, found {len(calls)}")
        call = calls[0]
        if not any(isinstance(st, ast.Expr) and st.value is call for st in stmts):
            fail(call, "check_fit_ranges must be called unconditionally as a statement of the branch")
        if len(call.args) > len(CHECK_PARAMS) or any(isinstance(a, ast.Starred) for a in call.args) \
                or any(k.arg in CHECK_PARAMS[:len(call.args)] for k in call.keywords):
            fail(call, "unsupported arguments in the call of check_fit_ranges")
        kw = dict(zip(CHECK_PARAMS, call.args))
        kw.update({k.arg: k.value for k in call.keywords})
        if None in kw or not {"target_fit_range", "out_fit_range", "rows", "cols"} <= set(kw) \
                or not set(kw) <= {"target_fit_range", "out_fit_range", "rows", "cols", "readout_times"}:
            fail(call, "unexpected keywords in the call of check_fit_ranges")
        if ast.unparse(kw["target_fit_range"]) != "target_fit_range" or ast.unparse(kw["out_fit_range"]) != "out_fit_range":
            fail(call, "check_fit_ranges must receive target_fit_range / out_fit_range unchanged")
        # names assigned in this branch (only statements before the call count) or before the branch
        idx = next(i for i, st in enumerate(stmts) if isinstance(st, ast.Expr) and st.value is call)
        env = _assignments(stmts[:idx])
        # a name bound inside a compound statement of the branch (conditionally, in a loop ...) is not a definite value
        for st in stmts[:idx]:
            if not isinstance(st, (ast.Assign, ast.AnnAssign)):
                for k, v in _assignments([st]).items():
                    env[k] = env.get(k, []) + v
        outer = _assignments([st for st in ast.walk(fn) if isinstance(st, (ast.Assign, ast.AnnAssign))
                              and st.lineno < node_if.lineno])
        for k, v in outer.items():
            env.setdefault(k, v)
        q = {k: sites.quantity(kw[k], env, mode) for k in ("rows", "cols")}
        q["readout_times"] = sites.quantity(kw["readout_times"], env, mode) if "readout_times" in kw else "QAbsent"
        if "QAbsent" in (q["rows"], q["cols"]):
            fail(call, "rows / cols must be given")
        out[mode] = f"{{| cs_rows := {q['rows']}; cs_cols := {q['cols']}; cs_times := {q['readout_times']} |}}"
    if len(all_calls) != 2:
        fail(fn, f"expected two calls of check_fit_ranges in ModelFittingDataTree.__init__, found {len(all_calls)}")
    return out["single"], out["multi"]


# ------------------------------------------------------------------------------------------ weights

def _deref(node, fn, depth=0):
    """a Name bound exactly once in `fn` (plain assignment, never stored into / updated in place) -> the expression it
    names (named intermediate results); anything else is returned unchanged"""
    while isinstance(node, ast.Name) and depth < 4:
        vals = _assignments(fn.body).get(node.id, [])
        params = {a.arg for a in fn.args.args + fn.args.kwonlyargs}
        touched = any(isinstance(n, (ast.Subscript, ast.Attribute)) and isinstance(n.ctx, (ast.Store, ast.Del))
                      and isinstance(n.value, ast.Name) and n.value.id == node.id for n in ast.walk(fn))
        touched = touched or any(isinstance(n, ast.AugAssign) and isinstance(n.target, ast.Name) and n.target.id == node.id
                                 for n in ast.walk(fn))
        loopvar = any(isinstance(n, (ast.For, ast.comprehension)) and any(isinstance(e, ast.Name) and e.id == node.id
                                                                        for e in ast.walk(n.target)) for n in ast.walk(fn))
        if len(vals) != 1 or vals[0][1] is not None or node.id in params or touched or loopvar \
                or isinstance(vals[0][0], (ast.Dict, ast.List, ast.Set)):
            return node
        node, depth = vals[0][0], depth + 1
    return node


def _is_cfg_weights(st) -> bool:
    if not (isinstance(st, ast.Expr) and isinstance(st.value, ast.Call) and ast.unparse(st.value.func) == "self._configure_weights"):
        return False
    c = st.value
    got = dict(zip(("weights", "weights_from_file"), (ast.unparse(a) for a in c.args)))
    if len(c.args) > 2 or any(k.arg is None or k.arg in got for k in c.keywords):
        return False
    got.update({k.arg: ast.unparse(k.value) for k in c.keywords})
    return got == {"weights": "weights", "weights_from_file": "weights_from_file"}


def _weights_conf(tree) -> str:
    """where `self._configure_weights(weights=weights, weights_from_file=weights_from_file)` is called in __init__
    (single-readout branch / time-domain branch / after both), and the shape a scalar weight is expanded to in
    `fitness` (`np.full(shape=..., fill_value=self.weighting[processor_id])`)"""
    fn = find_func(tree, "__init__", cls="ModelFittingDataTree")
    calls = [n for n in ast.walk(fn) if isinstance(n, ast.Call) and ast.unparse(n.func) == "self._configure_weights"]
    branch_ifs = [n for n in ast.walk(fn) if isinstance(n, ast.If)
                  and ast.unparse(n.test) in ("self.readout.time_domain_simulation", "readout.time_domain_simulation")]
    if len(branch_ifs) != 1:
        fail(fn, "expected one `if self.readout.time_domain_simulation` in ModelFittingDataTree.__init__")
    node_if = branch_ifs[0]
    single = multi = False
    seen = 0
    for st in node_if.body:
        if _is_cfg_weights(st):
            multi, seen = True, seen + 1
    for st in node_if.orelse:
        if _is_cfg_weights(st):
            single, seen = True, seen + 1
    # the block that contains the if: a call there (before or after the if) serves both kinds of target
    for parent in ast.walk(fn):
        for field in ("body", "orelse"):
            blk = getattr(parent, field, None)
            if isinstance(blk, list) and node_if in blk:
                for st in blk:
                    if _is_cfg_weights(st):
                        single = multi = True
                        seen += 1
    if seen != len(calls):
        fail(fn, "a call of self._configure_weights is conditional, nested or passes other arguments")
    ff = find_func(tree, "fitness", cls="ModelFittingDataTree")
    fulls = [n for n in ast.walk(ff) if isinstance(n, ast.Call) and ast.unparse(n.func) in ("np.full", "numpy.full")]
    if len(fulls) != 1:
        fail(ff, f"expected one np.full(...) expanding the scalar weight in fitness, found {len(fulls)}")
    kw = {k.arg: k.value for k in fulls[0].keywords}
    args = list(fulls[0].args)
    shape = kw.get("shape", args[0] if args else None)
    fill = kw.get("fill_value", args[1] if len(args) > 1 else None)
    shape, fill = (None if x is None else _deref(x, ff) for x in (shape, fill))
    # the index of the pair: the loop's counter
    loops = [n for n in ast.walk(ff) if isinstance(n, ast.For)]
    idx = None
    if len(loops) == 1 and isinstance(loops[0].target, ast.Tuple) and isinstance(loops[0].target.elts[0], ast.Name) \
            and ast.unparse(loops[0].iter.func if isinstance(loops[0].iter, ast.Call) else loops[0].iter) == "enumerate":
        idx = loops[0].target.elts[0].id
    if shape is None or fill is None or idx is None or ast.unparse(fill) != f"self.weighting[{idx}]":
        fail(fulls[0], "np.full(shape=..., fill_value=self.weighting[processor_id]) expected")
    src = ast.unparse(shape)
    geo = ("processor.detector.geometry.row", "processor.detector.geometry.col")
    # the loop's target variable / the restricted result of this pair
    tname = loops[0].target.elts[1].elts[1].id if isinstance(loops[0].target.elts[1], ast.Tuple) \
        and len(loops[0].target.elts[1].elts) == 2 and isinstance(loops[0].target.elts[1].elts[1], ast.Name) else None
    sims = [n.targets[0].id if isinstance(n, ast.Assign) else n.target.id for n in ast.walk(ff)
            if isinstance(n, (ast.Assign, ast.AnnAssign)) and n.value is not None and isinstance(n.value, ast.Call)
            and ast.unparse(n.value.func) == "self._get_simulated_data"
            and isinstance(n.targets[0] if isinstance(n, ast.Assign) else n.target, ast.Name)]
    names = [x for x in [tname] + sims if x]
    # (the restricted result has the target's shape up to a leading axis of length 1 whenever a fitness is computed)
    if any(src in (f"{x}.shape", f"np.shape({x})", f"tuple({x}.shape)") for x in names):
        sh = "ShTarget"
    elif isinstance(shape, ast.Tuple) and tuple(ast.unparse(e) for e in shape.elts) == geo:
        sh = "ShDetector"
    else:
        fail(shape, "unsupported shape of the scalar weighting array")
    b = {True: "true", False: "false"}
    return (f"{{| wc_single := {b[single]}; wc_multi := {b[multi]}; wc_shape := {sh}; "
            f"wc_time_key := {b[_time_key(tree)]} |}}")


def _time_key(tree) -> bool:
    """Are the target data and the weights read from file restricted with the target range's time component under
    their own dimension name 'readout_time'?  `X.isel(indexers=<range>.to_dict())` -> False;
    `X.isel(indexers=_target_indexers(<range>))` with `_target_indexers` renaming 'time' to 'readout_time' -> True."""
    def indexer_kind(call, rng_src, fn):
        kw = {k.arg: k.value for k in call.keywords}
        if len(call.args) == 1 and not kw:
            kw = {"indexers": call.args[0]}
        if call.args and "indexers" not in kw or set(kw) != {"indexers"}:
            fail(call, "isel(indexers=...) expected")
        src = ast.unparse(_deref(kw["indexers"], fn))
        if src == f"{rng_src}.to_dict()":
            return False
        if src == f"_target_indexers({rng_src})":
            return True
        fail(call, "unsupported indexers of the target data / weights")

    fi = next((n for n in tree.body if isinstance(n, ast.FunctionDef) and n.name == "_target_indexers"), None)
    if fi is not None:
        body = body_no_doc(fi)
        arg = fi.args.args[0].arg if len(fi.args.args) == 1 else None
        ok = (arg is not None and len(body) == 3
              and isinstance(body[0], (ast.Assign, ast.AnnAssign)) and ast.unparse(body[0].value) == f"dict({arg}.to_dict())"
              and isinstance(body[1], ast.If) and not body[1].orelse and len(body[1].body) == 1
              and isinstance(body[2], ast.Return) and body[2].value is not None)
        if ok:
            name = ast.unparse(body[0].target if isinstance(body[0], ast.AnnAssign) else body[0].targets[0])
            ok = (ast.unparse(body[1].test) == f"'time' in {name}"
                  and ast.unparse(body[1].body[0]) == f"{name}['readout_time'] = {name}.pop('time')"
                  and ast.unparse(body[2].value) == name)
        if not ok:
            fail(fi, "_target_indexers must copy <range>.to_dict() and rename the key 'time' to 'readout_time'")
    init = find_func(tree, "__init__", cls="ModelFittingDataTree")
    tsel = [n.value for n in ast.walk(init) if isinstance(n, ast.Assign) and len(n.targets) == 1
            and ast.unparse(n.targets[0]) == "self.all_target_data" and isinstance(n.value, ast.Call)
            and isinstance(n.value.func, ast.Attribute) and n.value.func.attr == "isel"
            and isinstance(n.value.func.value, ast.Name)]
    if len(tsel) != 1:
        fail(init, "expected one `self.all_target_data = targets.isel(indexers=...)`")
    cw = find_func(tree, "_configure_weights", cls="ModelFittingDataTree")
    wsel = [n.value for n in ast.walk(cw) if isinstance(n, ast.Assign) and len(n.targets) == 1
            and ast.unparse(n.targets[0]) == "self.weighting_from_file" and isinstance(n.value, ast.Call)
            and isinstance(n.value.func, ast.Attribute) and n.value.func.attr == "isel"
            and isinstance(n.value.func.value, ast.Name)]
    if len(wsel) != 1:
        fail(cw, "expected one `self.weighting_from_file = weights_data_array.isel(indexers=...)`")
    kt, kw_ = indexer_kind(tsel[0], "target_fit_range", init), indexer_kind(wsel[0], "self.targ_fit_range", cw)
    if (kt or kw_) and fi is None:
        fail(init, "_target_indexers is not defined")
    if kt != kw_:
        fail(cw, "target data and weights are indexed differently")
    return kt


# ------------------------------------------------------------------------------------------ fitness: state and exits

CLS = "ModelFittingDataTree"
MUTATORS = {"append", "extend", "insert", "pop", "remove", "clear", "update", "setdefault", "add", "discard", "sort",
            "reverse", "fill", "resize", "put", "itemset", "popitem", "__setitem__", "__setattr__", "__delitem__",
            "setflags", "partition", "byteswap", "__iadd__", "__isub__", "__imul__"}
CMPK = {ast.Eq: "CEq", ast.NotEq: "CNe", ast.LtE: "CLe", ast.Lt: "CLt", ast.GtE: "CGe", ast.Gt: "CGt"}
INF_SRC = {"math.inf", "np.inf", "numpy.inf", "float('inf')", "np.inf", "inf", "float('infinity')", "np.Inf"}


def _root_is_self(node) -> bool:
    """`self.a`, `self.a.b`, `self.a[i]`, `self.a[i].b` ..."""
    while isinstance(node, (ast.Attribute, ast.Subscript, ast.Starred)):
        node = node.value
    return isinstance(node, ast.Name) and node.id == "self"


def _self_attr(node) -> str | None:
    """`self.<name>` exactly"""
    if isinstance(node, ast.Attribute) and isinstance(node.value, ast.Name) and node.value.id == "self":
        return node.attr
    return None


def _q(v) -> str:
    from fractions import Fraction
    fr = Fraction(v)
    return f"(Qmake ({fr.numerator}) {fr.denominator})" if fr.numerator < 0 else f"(Qmake {fr.numerator} {fr.denominator})"


def _num_const(node):
    """a finite numeric literal (optionally negated) -> python number, else None"""
    if isinstance(node, ast.Constant) and isinstance(node.value, (int, float)) and not isinstance(node.value, bool):
        v = node.value
        return v if v == v and v not in (float("inf"), float("-inf")) else None
    if isinstance(node, ast.UnaryOp) and isinstance(node.op, ast.USub):
        v = _num_const(node.operand)
        return None if v is None else -v
    if isinstance(node, ast.UnaryOp) and isinstance(node.op, ast.UAdd):
        return _num_const(node.operand)
    return None


def _ext_const(node) -> str | None:
    """the Gallina `ext` of a constant initial value: a number, math.inf, -math.inf"""
    v = _num_const(node)
    if v is not None:
        return f"(EFin {_q(v)})"
    if ast.unparse(node) in INF_SRC:
        return "EPInf"
    if isinstance(node, ast.UnaryOp) and isinstance(node.op, ast.USub) and ast.unparse(node.operand) in INF_SRC:
        return "ENInf"
    if isinstance(node, ast.Call) and ast.unparse(node.func) == "float" and len(node.args) == 1 and not node.keywords:
        return _ext_const(node.args[0])
    return None


class _Fit:
    """`ModelFittingDataTree.fitness` as a description (Model.FitnessHist.fdesc): registers, guarded commands around
    the accumulation, the returned expression.  Everything that could carry state from one call to the next and is
    not expressible as a register command makes the translation fail (closed)."""

    def __init__(self, tree):
        self.tree = tree
        self.cls = next((n for n in ast.walk(tree) if isinstance(n, ast.ClassDef) and n.name == CLS), None)
        if self.cls is None:
            fail(tree, f"class {CLS} not found")
        self.methods = {n.name: n for n in self.cls.body if isinstance(n, ast.FunctionDef)}
        self.fn = find_func(tree, "fitness", cls=CLS)
        self.regs: list[str] = []
        self.consumed: set[int] = set()      # ids of ast nodes (state writes / exits) accounted for by commands
        self.acc = self.term = self.idx = None

    # ---- expressions
    def reg(self, name: str) -> int:
        if name not in self.regs:
            self.regs.append(name)
        return self.regs.index(name)

    def sexpr(self, node) -> str:
        if isinstance(node, ast.Name):
            if node.id == self.acc:
                return "XAcc"
            if self.term is not None and node.id == self.term:
                return "XTerm"
            if node.id == self.idx:
                return "XIdx"
            fail(node, "fitness: unsupported name in a state expression")
        a = _self_attr(node)
        if a is not None:
            return f"(XReg {self.reg(a)})"
        v = _num_const(node)
        if v is not None:
            return f"(XConst {_q(v)})"
        e = _ext_const(node)
        if e == "EPInf":
            return "XPInf"
        if e == "ENInf":
            return "XNInf"
        if isinstance(node, ast.BinOp) and isinstance(node.op, ast.Add):
            return f"(XAdd {self.sexpr(node.left)} {self.sexpr(node.right)})"
        if isinstance(node, ast.BinOp) and isinstance(node.op, ast.Sub) and _num_const(node.right) is not None:
            return f"(XAdd {self.sexpr(node.left)} (XConst {_q(-_num_const(node.right))}))"
        if isinstance(node, ast.Call) and isinstance(node.func, ast.Name) and node.func.id in ("min", "max") \
                and len(node.args) == 2 and not node.keywords:
            return f"({'XMin' if node.func.id == 'min' else 'XMax'} {self.sexpr(node.args[0])} {self.sexpr(node.args[1])})"
        if isinstance(node, ast.Call) and ast.unparse(node.func) == "float" and len(node.args) == 1 and not node.keywords:
            return self.sexpr(node.args[0])
        fail(node, "fitness: unsupported state expression")

    def scond(self, node) -> str:
        if isinstance(node, ast.Constant) and node.value is True:
            return "KTrue"
        if isinstance(node, ast.UnaryOp) and isinstance(node.op, ast.Not):
            return f"(KNot {self.scond(node.operand)})"
        if isinstance(node, ast.BoolOp):
            k = "KAnd" if isinstance(node.op, ast.And) else "KOr"
            out = self.scond(node.values[0])
            for v in node.values[1:]:
                out = f"({k} {out} {self.scond(v)})"
            return out
        if isinstance(node, ast.Compare) and all(type(o) in CMPK for o in node.ops):
            terms = [node.left, *node.comparators]
            parts = [f"(KCmp {CMPK[type(op)]} {self.sexpr(x)} {self.sexpr(y)})" for x, op, y in zip(terms, node.ops, terms[1:])]
            out = parts[0]
            for p_ in parts[1:]:
                out = f"(KAnd {out} {p_})"
            return out
        if isinstance(node, ast.Call) and ast.unparse(node.func) in ("math.isinf", "np.isinf", "numpy.isinf") \
                and len(node.args) == 1 and not node.keywords:
            e = self.sexpr(node.args[0])
            return f"(KOr (KCmp CEq {e} XPInf) (KCmp CEq {e} XNInf))"
        if isinstance(node, ast.Call) and ast.unparse(node.func) in ("math.isfinite", "np.isfinite", "numpy.isfinite") \
                and len(node.args) == 1 and not node.keywords:
            e = self.sexpr(node.args[0])
            return f"(KNot (KOr (KCmp CEq {e} XPInf) (KCmp CEq {e} XNInf)))"
        fail(node, "fitness: unsupported condition guarding a state write or an exit of the loop")

    # ---- statements
    @staticmethod
    def effects(st) -> bool:
        """does the statement (nested blocks included) write `self...`, or leave the loop / the method?"""
        for n in ast.walk(st):
            if isinstance(n, (ast.Break, ast.Continue, ast.Return)):
                return True
            if isinstance(n, (ast.Assign, ast.AugAssign, ast.AnnAssign, ast.Delete)):
                tg = n.targets if isinstance(n, (ast.Assign, ast.Delete)) else [n.target]
                if any(_root_is_self(t) for t in tg):
                    return True
        return False

    def ret_expr(self, st) -> str:
        v = st.value
        if isinstance(v, (ast.List, ast.Tuple)) and len(v.elts) == 1:
            return self.sexpr(v.elts[0])
        fail(st, "fitness: `return [<expression>]` expected")

    def cmds(self, stmts, guard: str, in_loop: bool) -> list[tuple[str, str, set, int | None]]:
        """-> [(guard, action, registers read by the guard, register written or None)]"""
        out = []
        for st in stmts:
            if not self.effects(st):
                continue
            g_reads = set(int(x) for x in __import__("re").findall(r"XReg (\d+)", guard))
            if isinstance(st, (ast.Assign, ast.AnnAssign, ast.AugAssign)):
                tg = st.targets if isinstance(st, ast.Assign) else [st.target]
                if len(tg) != 1 or _self_attr(tg[0]) is None or st.value is None:
                    fail(st, "fitness: unsupported write to the problem object")
                r = self.reg(_self_attr(tg[0]))
                if isinstance(st, ast.AugAssign):
                    if not isinstance(st.op, (ast.Add, ast.Sub)):
                        fail(st, "fitness: unsupported in-place operation on an attribute")
                    rhs = self.sexpr(st.value) if isinstance(st.op, ast.Add) else None
                    if rhs is None:
                        v = _num_const(st.value)
                        if v is None:
                            fail(st, "fitness: unsupported in-place operation on an attribute")
                        rhs = f"(XConst {_q(-v)})"
                    e = f"(XAdd (XReg {r}) {rhs})"
                else:
                    e = self.sexpr(st.value)
                self.consumed.add(id(st))
                out.append((guard, f"(ASet {r} {e})", g_reads, r))
            elif isinstance(st, ast.Break) and in_loop:
                self.consumed.add(id(st))
                out.append((guard, "ABreak", g_reads, None))
            elif isinstance(st, ast.Continue) and in_loop:
                self.consumed.add(id(st))
                out.append((guard, "AContinue", g_reads, None))
            elif isinstance(st, ast.Return):
                self.consumed.add(id(st))
                out.append((guard, f"(AReturn {self.ret_expr(st)})", g_reads, None))
            elif isinstance(st, ast.If):
                k = self.scond(st.test)
                g1 = k if guard == "KTrue" else f"(KAnd {guard} {k})"
                g0 = f"(KNot {k})" if guard == "KTrue" else f"(KAnd {guard} (KNot {k}))"
                out += self.cmds(st.body, g1, in_loop)
                out += self.cmds(st.orelse, g0, in_loop)
            else:
                fail(st, "fitness: a statement that writes the problem object or leaves the loop has an unsupported shape")
        return out

    def block(self, stmts, in_loop: bool) -> list[str]:
        out = []
        for st in stmts:
            cs = self.cmds([st], "KTrue", in_loop)
            # a register write must not change a condition that later commands of the same statement evaluate again
            reads = set().union(*[c[2] for c in cs]) if cs else set()
            for i, c in enumerate(cs):
                if c[3] is not None and c[3] in reads and i != len(cs) - 1:
                    fail(st, "fitness: a register is written and then read again by a guard of the same statement")
            out += [f"({g}, {a})" for g, a, _, _ in cs]
        return out

    # ---- everything else must be free of state
    FRESH_CALLS = {"np.full", "np.ones", "np.zeros", "np.empty", "np.ones_like", "np.zeros_like", "np.full_like",
                   "np.empty_like", "np.array", "np.copy", "np.arange", "np.linspace", "numpy.array", "numpy.full",
                   "numpy.ones", "numpy.zeros", "copy.deepcopy", "deepcopy", "dict", "list", "set", "float", "int"}

    @classmethod
    def is_fresh(cls, v) -> bool:
        """does the expression create a new object that nothing else refers to (or an immutable number)?"""
        if isinstance(v, (ast.Dict, ast.List, ast.Set, ast.ListComp, ast.DictComp, ast.SetComp)):
            return True
        if _num_const(v) is not None or _ext_const(v) is not None:
            return True
        if isinstance(v, ast.Call):
            f = ast.unparse(v.func)
            if f in cls.FRESH_CALLS:
                return not any(k.arg == "copy" for k in v.keywords)
            if isinstance(v.func, ast.Attribute) and v.func.attr in ("copy", "astype") and not v.keywords:
                return v.func.attr == "copy" or not any(k.arg == "copy" for k in v.keywords)
        if isinstance(v, ast.BinOp):          # arithmetic on arrays / numbers yields a new object
            return True
        return False

    @classmethod
    def fresh_names(cls, fn) -> set:
        """local names every assignment of which (in this function) binds a freshly created object"""
        vals: dict = {}
        for n in ast.walk(fn):
            if isinstance(n, ast.Assign):
                for t in n.targets:
                    if isinstance(t, ast.Name):
                        vals.setdefault(t.id, []).append(n.value)
                    elif isinstance(t, (ast.Tuple, ast.List)):
                        for e in t.elts:
                            if isinstance(e, ast.Name):
                                vals.setdefault(e.id, []).append(None)
            elif isinstance(n, ast.AnnAssign) and isinstance(n.target, ast.Name):
                vals.setdefault(n.target.id, []).append(n.value)
            elif isinstance(n, (ast.For, ast.comprehension)):
                for e in ast.walk(n.target):
                    if isinstance(e, ast.Name):
                        vals.setdefault(e.id, []).append(None)
            elif isinstance(n, (ast.With,)):
                for it in n.items:
                    if it.optional_vars is not None:
                        for e in ast.walk(it.optional_vars):
                            if isinstance(e, ast.Name):
                                vals.setdefault(e.id, []).append(None)
            elif isinstance(n, ast.NamedExpr) and isinstance(n.target, ast.Name):
                vals.setdefault(n.target.id, []).append(n.value)
        params = {a.arg for a in fn.args.args + fn.args.kwonlyargs + fn.args.posonlyargs}
        return {k for k, vs in vals.items() if k not in params and all(v is not None and cls.is_fresh(v) for v in vs)}

    def scan_rest(self, fn, strict_locals: bool):
        fresh = self.fresh_names(fn) if strict_locals else set()

        def base_name(e):
            while isinstance(e, (ast.Subscript, ast.Attribute)):
                e = e.value
            return e.id if isinstance(e, ast.Name) else None
        for n in ast.walk(fn):
            if n is not fn and isinstance(n, (ast.FunctionDef, ast.AsyncFunctionDef, ast.Lambda, ast.ClassDef)):
                fail(n, f"{fn.name}: nested definition")
            if isinstance(n, (ast.Global, ast.Nonlocal)):
                fail(n, f"{fn.name}: global / nonlocal state")
            if isinstance(n, (ast.Assign, ast.AugAssign, ast.AnnAssign, ast.Delete)) and id(n) not in self.consumed:
                tg = n.targets if isinstance(n, (ast.Assign, ast.Delete)) else [n.target]
                for t in tg:
                    for e in (t.elts if isinstance(t, (ast.Tuple, ast.List)) else [t]):
                        if _root_is_self(e):
                            fail(n, f"{fn.name}: writes the problem object")
                        if strict_locals and isinstance(e, (ast.Subscript, ast.Attribute)) and base_name(e) not in fresh:
                            fail(n, f"{fn.name}: stores into an object that may belong to the problem")
                if strict_locals and isinstance(n, ast.AugAssign) and not (
                        isinstance(n.target, ast.Name) and n.target.id == self.acc and fn is self.fn) \
                        and base_name(n.target) not in fresh:
                    fail(n, f"{fn.name}: in-place operation on an object that may belong to the problem")
            if isinstance(n, ast.Call):
                f = ast.unparse(n.func)
                if f in ("setattr", "delattr", "object.__setattr__", "vars") and n.args and _root_is_self(n.args[0]):
                    fail(n, f"{fn.name}: writes the problem object")
                if "__dict__" in f and _root_is_self(n.func):
                    fail(n, f"{fn.name}: writes the problem object")
                if isinstance(n.func, ast.Attribute) and n.func.attr in MUTATORS and _root_is_self(n.func.value):
                    fail(n, f"{fn.name}: mutates an attribute of the problem object")
            if isinstance(n, ast.Attribute) and n.attr == "__dict__" and _root_is_self(n):
                fail(n, f"{fn.name}: accesses the instance dictionary")

    def callees(self, fn, seen):
        for n in ast.walk(fn):
            if isinstance(n, ast.Call):
                a = _self_attr(n.func)
                if a is not None and a in self.methods and a not in seen:
                    seen.add(a)
                    self.callees(self.methods[a], seen)
        return seen

    # ---- the whole method
    def run(self) -> str:
        fn = self.fn
        if fn.decorator_list:
            fail(fn, "fitness: decorated (a cache in front of the method would carry state)")
        # the loop: at function level, possibly inside try / with blocks
        path = []       # blocks from the function body down to the one that holds the loop

        def find(stmts):
            for st in stmts:
                if isinstance(st, ast.For):
                    path.append(stmts)
                    return st
                if isinstance(st, ast.Try) or isinstance(st, ast.With):
                    r = find(st.body)
                    if r is not None:
                        path.insert(0, stmts)
                        return r
            return None
        body = body_no_doc(fn)
        loop = find(body)
        loops = [n for n in ast.walk(fn) if isinstance(n, (ast.For, ast.While, ast.AsyncFor))]
        if loop is None or len(loops) != 1:
            fail(fn, f"fitness: expected exactly one loop (over the processor/target pairs) outside any branch, found {len(loops)}")
        it = loop.iter
        ok = (isinstance(it, ast.Call) and ast.unparse(it.func) == "enumerate" and len(it.args) == 1 and not it.keywords
              and isinstance(it.args[0], ast.Call) and ast.unparse(it.args[0].func) == "zip" and len(it.args[0].args) == 2
              and ast.unparse(it.args[0].args[0]) in ("processor_list", "self.param_processor_list")
              and ast.unparse(it.args[0].args[1]) == "self.all_target_data"
              and all(k.arg == "strict" and isinstance(k.value, ast.Constant) for k in it.args[0].keywords))
        tg = loop.target
        ok = ok and isinstance(tg, ast.Tuple) and len(tg.elts) == 2 and isinstance(tg.elts[0], ast.Name) \
            and isinstance(tg.elts[1], ast.Tuple) and len(tg.elts[1].elts) == 2 \
            and all(isinstance(e, ast.Name) for e in tg.elts[1].elts)
        if not ok:
            fail(loop, "fitness: expected `for i, (processor, target) in enumerate(zip(processor_list, self.all_target_data, strict=...))`")
        if ast.unparse(it.args[0].args[0]) == "processor_list":
            src = [n for n in ast.walk(fn) if isinstance(n, (ast.Assign, ast.AnnAssign))
                   and ast.unparse(n.targets[0] if isinstance(n, ast.Assign) else n.target) == "processor_list"]
            if len(src) != 1 or src[0].value is None or ast.unparse(src[0].value) != "self.param_processor_list":
                fail(loop, "fitness: processor_list must be self.param_processor_list")
        self.idx = tg.elts[0].id
        # the accumulation statement: `<acc> += <term>` / `<acc> = <acc> + <term>` at the top level of the loop body
        accs = []
        for i, st in enumerate(loop.body):
            if isinstance(st, ast.AugAssign) and isinstance(st.target, ast.Name) and isinstance(st.op, ast.Add):
                accs.append((i, st.target.id, st.value))
            elif isinstance(st, ast.Assign) and len(st.targets) == 1 and isinstance(st.targets[0], ast.Name) \
                    and isinstance(st.value, ast.BinOp) and isinstance(st.value.op, ast.Add) \
                    and ast.unparse(st.value.left) == st.targets[0].id:
                accs.append((i, st.targets[0].id, st.value.right))
        accs = [a for a in accs if "_calculate_fitness" in ast.unparse(a[2]) or isinstance(a[2], ast.Name)]
        if len(accs) != 1:
            fail(loop, f"fitness: expected one accumulation `overall_fitness += <fitness of the pair>` in the loop, found {len(accs)}")
        pos, self.acc, val = accs[0]
        if isinstance(val, ast.Name):
            defs = [(j, st) for j, st in enumerate(loop.body[:pos]) if isinstance(st, (ast.Assign, ast.AnnAssign))
                    and ast.unparse(st.targets[0] if isinstance(st, ast.Assign) else st.target) == val.id]
            if len(defs) != 1 or defs[0][1].value is None:
                fail(loop, "fitness: the accumulated value must be assigned once in the loop body")
            self.term, val = val.id, defs[0][1].value
        if not (isinstance(val, ast.Call) and ast.unparse(val.func) == "self._calculate_fitness"):
            fail(val, "fitness: the accumulated value must be self._calculate_fitness(...)")
        # the accumulator: initialised with 0 before the loop, assigned nowhere else
        writes = [n for n in ast.walk(fn) if isinstance(n, (ast.Assign, ast.AugAssign, ast.AnnAssign))
                  and any(isinstance(t, ast.Name) and t.id == self.acc
                          for t in (n.targets if isinstance(n, ast.Assign) else [n.target]))]
        inits = [n for n in writes if n is not loop.body[pos]]
        if len(inits) != 1 or inits[0].value is None or _num_const(inits[0].value) != 0 or inits[0].lineno > loop.lineno \
                or any(n is inits[0] for n in ast.walk(loop)):
            fail(fn, "fitness: the accumulator must be initialised with 0 before the loop and only be added to in the loop")
        # commands
        pre = self.block(loop.body[:pos], in_loop=True)
        post = self.block(loop.body[pos + 1:], in_loop=True)
        orelse = self.block(loop.orelse, in_loop=False)
        after_stmts, ret = [], None
        holder = loop
        for blk in reversed(path):
            i = next(j for j, st in enumerate(blk) if st is holder or any(n is holder for n in ast.walk(st)))
            after_stmts += blk[i + 1:]
            holder = blk[i]
        if not after_stmts or not isinstance(after_stmts[-1], ast.Return):
            fail(fn, "fitness: the method must end with `return [<expression>]`")
        ret = self.ret_expr(after_stmts[-1])
        self.consumed.add(id(after_stmts[-1]))
        after = self.block(after_stmts[:-1], in_loop=False)
        # handlers: re-raise, nothing else that matters
        for n in ast.walk(fn):
            if isinstance(n, ast.Try):
                for h in n.handlers:
                    if not (h.body and isinstance(h.body[-1], ast.Raise)):
                        fail(h, "fitness: an exception handler must end by raising")
                    if any(isinstance(x, (ast.Return, ast.Break, ast.Continue)) for s in h.body for x in ast.walk(s)):
                        fail(h, "fitness: an exception handler returns")
                if any(isinstance(x, (ast.Return, ast.Break, ast.Continue)) for s in n.finalbody for x in ast.walk(s)):
                    fail(n, "fitness: `finally` returns")
        for n in ast.walk(fn):
            if isinstance(n, (ast.Return, ast.Break, ast.Continue)) and id(n) not in self.consumed:
                fail(n, "fitness: an exit that is not accounted for")
        # no other state anywhere in the method and in the methods of the problem it calls
        self.scan_rest(fn, strict_locals=True)
        for name in sorted(self.callees(fn, set())):
            m = self.methods[name]
            if m.decorator_list and name not in ("fitness",):
                fail(m, f"{name}: decorated")
            # convert_to_parameters / update_processor work on copies they make themselves (C10 models them)
            self.scan_rest(m, strict_locals=name not in ("convert_to_parameters", "update_processor"))
        # registers: initialised once, with a constant, in __init__
        init = self.methods.get("__init__")
        regs = []
        for r in self.regs:
            asg = [n for n in ast.walk(init) if isinstance(n, (ast.Assign, ast.AnnAssign))
                   and any(_self_attr(t) == r for t in (n.targets if isinstance(n, ast.Assign) else [n.target]))]
            e = _ext_const(asg[0].value) if len(asg) == 1 and asg[0].value is not None else None
            if e is None:
                fail(fn, f"fitness: self.{r} is used as state but is not initialised once with a constant in __init__")
            regs.append(e)
        # nothing else writes the registers
        for name, m in self.methods.items():
            if name in ("__init__", "fitness"):
                continue
            for n in ast.walk(m):
                if isinstance(n, (ast.Assign, ast.AugAssign, ast.AnnAssign, ast.Delete)):
                    tg_ = n.targets if isinstance(n, (ast.Assign, ast.Delete)) else [n.target]
                    if any(_self_attr(t) in self.regs for t in tg_):
                        fail(n, f"{name}: writes a register of fitness")

        def lst(xs):
            return "[" + "; ".join(xs) + "]"
        return (f"{{| fd_regs := {lst(regs)};\n     fd_pre := {lst(pre)};\n     fd_post := {lst(post)};\n"
                f"     fd_else := {lst(orelse)};\n     fd_after := {lst(after)};\n     fd_ret := {ret} |}}")


def _fitness_desc(tree) -> str:
    return _Fit(tree).run()


FDESC = "{| fd_regs := []; fd_pre := []; fd_post := []; fd_else := []; fd_after := []; fd_ret := XAcc |}"


WCONF = "{| wc_single := true; wc_multi := true; wc_shape := ShTarget; wc_time_key := true |}"


def render(out_guards, c2, c3, single=None, multi=None, target_first=True, wconf=None, fdesc=None) -> str:
    def lst(gs):
        return "[ " + ";\n      ".join(gs) + " ]"
    return (HEADER + "From Coq Require Import ZArith QArith List.\nFrom PyxelV Require Import Model.Fitness Model.FitnessHist.\n"
            "Import ListNotations.\nLocal Open Scope Z_scope.\n"
            "Definition src_checker : checker :=\n"
            f"  {{| out_guards :=\n      {lst(out_guards)};\n"
            f"     check2d :=\n      {lst(c2)};\n"
            f"     check3d :=\n      {lst(c3)};\n"
            f"     target_first := {'true' if target_first else 'false'} |}}.\n"
            "Definition src_calls : calls :=\n"
            f"  {{| call_single := {single or CALL_SINGLE};\n     call_multi := {multi or CALL_MULTI} |}}.\n"
            f"Definition src_weights : wconf :=\n  {wconf or WCONF}.\n"
            f"Definition src_fdesc : fdesc :=\n  {fdesc or FDESC}.\n")


CALL_SINGLE = "{| cs_rows := (QTgt DRow); cs_cols := (QTgt DCol); cs_times := QAbsent |}"
CALL_MULTI = "{| cs_rows := (QTgt DRow); cs_cols := (QTgt DCol); cs_times := (QTgt DTime) |}"


# ------------------------------------------------------------------------------------------ normalisation

# names the extractors key on (never inlined): the semantic helpers of util.py, the guard functions themselves, and
# the methods of the problem whose calls are the landmarks of `__init__` / `fitness`
UTIL_KEEP = {"_bounds", "_length", "_check_out_fit_ranges", "_check_out_ranges"}
FIT_KEEP = {"_calculate_fitness", "_get_simulated_data", "_configure_weights", "_set_bound", "_target_indexers"}


def _resolver(tree, cls: ast.ClassDef | None, keep: set):
    funcs = {n.name: n for n in tree.body if isinstance(n, ast.FunctionDef)}
    methods = {n.name: n for n in cls.body if isinstance(n, ast.FunctionDef)} if cls is not None else {}

    def resolve(call):
        f = call.func
        if isinstance(f, ast.Name) and f.id.startswith("_") and not f.id.startswith("__") and f.id in funcs and f.id not in keep:
            return funcs[f.id], False
        if isinstance(f, ast.Attribute) and isinstance(f.value, ast.Name) and f.value.id == "self" \
                and f.attr.startswith("_") and not f.attr.startswith("__") and f.attr in methods and f.attr not in keep:
            m = methods[f.attr]
            if any(ast.unparse(d) in ("staticmethod", "classmethod", "property") for d in m.decorator_list):
                return None
            return m, True
        return None
    return resolve


def _class(tree, name):
    return next((n for n in ast.walk(tree) if isinstance(n, ast.ClassDef) and n.name == name), None)


def _canon_order(rows: list[str]) -> list[str]:
    """Guards that cannot raise anything but their ValueError commute (each is a pure test; the function rejects iff one
    of them fires; which message is shown is not a property-relevant observable): runs of such rows are put in one fixed
    order — rows, columns, `readout_times is None`, times; within a dimension `0 <= start`, `start <= stop`, `stop <= size`,
    then the rest by text.  A row that may raise TypeError / AttributeError (raw end points that may be None, the time
    component before `readout_times is None` was ruled out, anything under `PBoth3D`) stays where it is and separates
    the runs."""
    import re

    def total(g, none_seen):
        if g.startswith("GNone"):
            return True
        if "PBoth3D" in g or "EStart" in g.replace("ERStart", "") or "EStop" in g.replace("ERStop", ""):
            return False
        if "DTime" in g or "BTimes" in g:
            return none_seen
        return True

    def key(g):
        if g.startswith("GNone"):
            return (2, 0, g)
        dim = 3 if ("DTime" in g or "BTimes" in g) else (0 if "DRow" in g else 1 if "DCol" in g else 4)
        shape = re.sub(r"D(Row|Col|Time)|B(Rows|Cols|Times)", "_", g)
        order = ["GCmp PAlways true (EConst 0) CLe (ERStart Tgt _ _)",
                 "GCmp PAlways true (ERStart Tgt _ _) CLe (ERStop Tgt _ _)",
                 "GCmp PAlways true (ERStop Tgt _ _) CLe (EBound _)"]
        return (dim, order.index(shape) if shape in order else 9, g)
    out, run, none_seen = [], [], False
    for g in rows:
        if total(g, none_seen):
            run.append(g)
        else:
            out += sorted(run, key=key) + [g]
            run = []
        none_seen = none_seen or g == "GNone BTimes"
    return out + sorted(run, key=key)


def _norm_guard_fn(tree, fn, cls_name=None):
    resolve = _resolver(tree, _class(tree, cls_name) if cls_name else None, UTIL_KEEP)
    fn = norm.match_to_if(norm.Inliner(resolve).function(fn))
    fn = norm.inline_expr_calls(fn, resolve)
    return norm.renumber(norm.resolve_constants(fn, norm.module_constants(tree)))


def _is_check_stmt(st) -> bool:
    return isinstance(st, ast.Expr) and isinstance(st.value, ast.Call) \
        and ast.unparse(st.value.func).split(".")[-1] == "check_fit_ranges"


def _norm_fit_tree(tree):
    """a copy of fitting_datatree.py's module in which `__init__`, `fitness` and `_configure_weights` of the problem class
    are normalised (private helpers inlined, aliases substituted, negated tests swapped, module constants resolved)"""
    tree = ast.parse(ast.unparse(tree))
    cls = _class(tree, CLS)
    if cls is None:
        fail(tree, f"class {CLS} not found")
    consts = norm.module_constants(tree)
    methods = {n.name: n for n in cls.body if isinstance(n, ast.FunctionDef)}
    resolve = _resolver(tree, cls, FIT_KEEP)

    def writes_of_callees(fn, seen=None):
        seen = set() if seen is None else seen
        out = set()
        for n in ast.walk(fn):
            if isinstance(n, ast.Call) and _self_attr(n.func) in methods and _self_attr(n.func) not in seen:
                seen.add(_self_attr(n.func))
                m = methods[_self_attr(n.func)]
                out |= norm.self_writes(m) | writes_of_callees(m, seen)
        return out
    for i, st in enumerate(cls.body):
        if isinstance(st, ast.FunctionDef) and st.name in ("__init__", "fitness", "_configure_weights"):
            fn = norm.Inliner(resolve).function(st)
            fn = norm.inline_expr_calls(fn, resolve)
            fn = norm.match_to_if(fn)
            if st.name == "fitness":
                fn = norm.counter_to_enumerate(norm.ifexp_assign(fn))
            else:
                fn = norm.lower_returns(fn)
            if st.name == "__init__":
                fn = norm.ifexp_assign(fn)
            fn = norm.swap_negated_ifs(fn)
            fn = norm.subst_aliases(fn, writes_of_callees(fn))
            fn = norm.resolve_constants(fn, consts)
            if st.name == "__init__":
                # `if c: A else: B` + `if c: C else: D` on the same unwritten attribute path == one if/else
                fn = norm.merge_same_test_ifs(fn, writes_of_callees(fn))
                # a call of check_fit_ranges hoisted behind an if/else reads like the call duplicated in its branches
                fn = norm.sink_into_branches(fn, _is_check_stmt)
            cls.body[i] = fn
    return ast.parse(ast.unparse(ast.fix_missing_locations(tree)))


def translate(repo: Path) -> str:
    from harness.core import TranslationError
    try:
        return _translate(repo)
    except TranslationError:
        raise
    except RecursionError as ex:
        raise TranslationError(f"translator: recursion limit ({ex})") from ex
    except Exception as ex:            # an unexpected shape inside a normalisation: fail closed, never crash the check
        raise TranslationError(f"translator: {type(ex).__name__}: {ex}") from ex


def _translate(repo: Path) -> str:
    tree = parse(repo, REL)
    helpers = _helpers(tree)
    target_first = _check_dispatch(find_func(tree, "check_fit_ranges"))
    fo = find_func(tree, "_check_out_fit_ranges")
    params = [a.arg for a in fo.args.args]
    if params not in (["target_fit_range", "out_fit_range"],
                      ["target_fit_range", "out_fit_range", "rows", "cols", "readout_times"]):
        fail(fo, "_check_out_fit_ranges signature")
    og = _guards(_norm_guard_fn(tree, fo), {"target_fit_range": "Tgt", "out_fit_range": "Out"}, allow_pre=True, helpers=helpers)
    if len(params) == 2 and any("EBound" in g or "ERSt" in g for g in og):
        fail(fo, "_check_out_fit_ranges uses sizes it does not receive")
    f2 = find_func(tree, "check", cls="FitRange2D")
    if [a.arg for a in f2.args.args] != ["self", "rows", "cols"]:
        fail(f2, "FitRange2D.check signature")
    f3 = find_func(tree, "check", cls="FitRange3D")
    if [a.arg for a in f3.args.args] != ["self", "rows", "cols", "readout_times"]:
        fail(f3, "FitRange3D.check signature")
    c2 = _guards(_norm_guard_fn(tree, f2, "FitRange2D"), {"self": "Tgt"}, allow_pre=False, helpers=helpers)
    c3 = _guards(_norm_guard_fn(tree, f3, "FitRange3D"), {"self": "Tgt"}, allow_pre=False, helpers=helpers, is_3d=True)
    og, c2, c3 = _canon_order(og), _canon_order(c2), _canon_order(c3)
    fit_tree = _norm_fit_tree(parse(repo, REL_FIT))
    single, multi = _call_sites(fit_tree)
    return render(og, c2, c3, single, multi, target_first, _weights_conf(fit_tree), _fitness_desc(fit_tree))


def _tgt_block(d, b):
    rs, re_ = f"(ERStart Tgt {d} {b})", f"(ERStop Tgt {d} {b})"
    return [f"GCmp PAlways true (EConst 0) CLe {rs}", f"GCmp PAlways true {rs} CLe {re_}",
            f"GCmp PAlways true {re_} CLe (EBound {b})"]


def _len_guard(p, d, b):
    def ln(s):
        return f"(ESub (ERStop {s} {d} {b}) (ERStart {s} {d} {b}))"
    return f"GCmp {p} false {ln('Tgt')} CNe {ln('Out')}"


# the repaired tree (lengths compared, bounds validated, absent components resolved)
FALLBACK = render(
    [_len_guard("PBoth3D", "DTime", "BTimes"), _len_guard("PAlways", "DRow", "BRows"), _len_guard("PAlways", "DCol", "BCols")],
    _tgt_block("DRow", "BRows") + _tgt_block("DCol", "BCols"),
    _tgt_block("DRow", "BRows") + _tgt_block("DCol", "BCols") + ["GNone BTimes"] + _tgt_block("DTime", "BTimes"),
    target_first=True)
