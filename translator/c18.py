"""C18: codec key tables of the four detector classes, Photon's sub-keys, the ASDF backend's pass-through
shape and the body shape of `load_detector`  ->  Gen_C18.v  (fail closed on every other shape).

Every function is read in the NORMAL FORM computed by translator/c18_norm.py (general, behaviour-preserving rewrites:
module-level constants resolved, private helpers of the package inlined, single-binding local aliases and named
intermediate results substituted, match / local dispatch dict -> if chain, guard clauses, filling loops -> comprehensions,
conditional assignments -> conditional expressions, loops over literal tuples unrolled, getattr/setattr with literal
names, pure builtin calls / identity tests held in locals substituted, class patterns -> isinstance, functools.partial of
a helper expanded, dict(<generator>) -> comprehension, tuple unpacking and merged with-statements split, annotations /
docstrings / logging dropped), so that a refactoring of those kinds yields the same table; every
shape the normal form does not reduce to the ones below still fails closed.

Extracted (nothing else is believed about the code):
  * T.to_dict      : the dict literal: "type" tag, keys under "properties" (<- which attribute), keys under
                     "data" (<- which container attribute, which key.replace(a, b) escaping)
  * T.from_dict    : the tag guard, which constructor argument comes from which "properties" key, and for every
                     statement that stores into the new detector: which container <- which key of "data"
                     (through local aliases), which key.replace(a, b) unescaping
  * Detector.from_dict : tag -> class dispatch
  * Photon.to_dict / from_dict : the two sub-keys and their escaping; read PATH BY PATH (every execution path through the
                     ifs, so guard clauses / early returns / if-elif / nested ifs with inverted tests are one shape): which
                     key is written from a plain copy / from every entry of self._array.to_dict(); which attribute is stored
                     from which key when the first / only the second / neither tested key is present
  * backends/asdf.py  : version/type/properties/data are passed through unchanged, the frame goes through
                     DataFrame.to_dict(orient="list") / pd.DataFrame(...)
  * models/util.py load_detector : does any statement store into the PASSED detector, or is the parameter
                     name only rebound?
"""
from __future__ import annotations

import ast
from pathlib import Path

from harness.core import TranslationError

from .c18_norm import Normalizer
from .common import HEADER, body_no_doc, fail


class _Src:
    """the functions the reader looks at, each in NORMAL FORM (translator/c18_norm.py: module constants resolved, private
    helpers inlined, single-binding aliases substituted, match -> if, guard-clause form, filling loops -> comprehensions,
    conditional assignments -> conditional expressions, annotations / logging / docstrings ignored)."""

    def __init__(self, repo):
        self.norm = Normalizer(Path(repo))

    def func(self, rel, name, cls=None) -> ast.FunctionDef:
        if self.norm.module(rel) is None:
            raise TranslationError(f"{rel}: file not found or not parsable")
        fn = self.norm.func(rel, name, cls)
        if fn is None:
            raise TranslationError(f"{rel}: function {cls + '.' if cls else ''}{name}: not found exactly once")
        return fn

KINDS = [("CCD", "pyxel/detectors/ccd/ccd.py"), ("CMOS", "pyxel/detectors/cmos/cmos.py"),
         ("MKID", "pyxel/detectors/mkid/mkid.py"), ("APD", "pyxel/detectors/apd/apd.py")]

FIELD = {"photon": "FPhoton", "pixel": "FPixel", "signal": "FSignal", "image": "FImage", "phase": "FPhase",
         "data": "FData", "scene": "FScene", "charge.array": "FChargeArray", "charge.frame": "FChargeFrame"}
PFIELD = {"geometry": "PGeometry", "environment": "PEnvironment", "characteristics": "PCharacteristics"}


def _s(node) -> str:
    if isinstance(node, ast.Constant) and isinstance(node.value, str):
        return node.value
    fail(node, "expected a string literal")


def _attr_chain(node):
    """a.b.c -> ['a','b','c'] or None."""
    out = []
    while isinstance(node, ast.Attribute):
        out.append(node.attr)
        node = node.value
    if isinstance(node, ast.Name):
        out.append(node.id)
        return out[::-1]
    return None


def _self_attrs(expr, root="self"):
    """distinct container names referenced as <root>.<name>[.<sub>] (leading underscore stripped)."""
    found = set()
    for n in ast.walk(expr):
        ch = _attr_chain(n) if isinstance(n, ast.Attribute) else None
        if ch and ch[0] == root and len(ch) >= 2:
            found.add(tuple(x.lstrip("_") for x in ch[1:]))
    # keep only the maximal chains: self._charge.array.copy also contains self._charge.array and self._charge
    return {a for a in found if not any(b != a and b[:len(a)] == a for b in found)}


def _escapes(expr):
    """all key.replace('a','b') calls inside expr -> set of (a, b)."""
    out = set()
    for n in ast.walk(expr):
        if (isinstance(n, ast.Call) and isinstance(n.func, ast.Attribute) and n.func.attr == "replace"
                and len(n.args) == 2 and not n.keywords):
            a, b = _s(n.args[0]), _s(n.args[1])
            if len(a) != 1 or len(b) != 1:
                fail(n, "key escaping must replace single characters")
            out.add((a, b))
    return out


def _no_filter(expr, what):
    """every comprehension inside expr keeps EVERY entry (no `if` clause): one key in, one key out."""
    for n in ast.walk(expr):
        if isinstance(n, (ast.DictComp, ast.ListComp, ast.SetComp, ast.GeneratorExp)):
            if len(n.generators) != 1 or n.generators[0].ifs:
                fail(n, f"{what}: a comprehension that filters (or nests) its entries is not an accepted shape")


def _plain_to_dict(call):
    """<x>.to_dict() with no argument: values as nested lists (the model's listify_keyed)."""
    return (isinstance(call, ast.Call) and isinstance(call.func, ast.Attribute) and call.func.attr == "to_dict"
            and not call.args and not call.keywords)


def _one_escape(expr, node):
    e = _escapes(expr)
    if len(e) > 1:
        fail(node, "more than one key.replace in one entry")
    return next(iter(e)) if e else None


def _container_of(expr, node, root="self"):
    heads = {a[0] for a in _self_attrs(expr, root)}
    if len(heads) != 1:
        fail(node, f"entry must read exactly one container of {root} (found {sorted(heads)})")
    return next(iter(heads))


# ------------------------------------------------------------------------------------------- to_dict


def tr_to_dict(fn: ast.FunctionDef):
    body = body_no_doc(fn)
    lit = None
    if len(body) == 2 and isinstance(body[0], ast.Assign) and isinstance(body[1], ast.Return) \
            and isinstance(body[1].value, ast.Name) and len(body[0].targets) == 1 \
            and isinstance(body[0].targets[0], ast.Name) and body[0].targets[0].id == body[1].value.id:
        lit = body[0].value
    elif len(body) == 1 and isinstance(body[0], ast.Return):
        lit = body[0].value
    if not isinstance(lit, ast.Dict):
        fail(fn, "to_dict must build one dict literal and return it")
    top = {}
    for k, v in zip(lit.keys, lit.values):
        top.setdefault(_s(k), []).append(v)
    if sorted(top) != ["data", "properties", "type", "version"] or any(len(v) != 1 for v in top.values()):
        fail(lit, "to_dict top-level keys must be version/type/properties/data")
    ver = top["version"][0]
    if not (isinstance(ver, ast.Constant) and ver.value == 1):
        fail(ver, "version must be 1")
    tag = _s(top["type"][0])
    props = top["properties"][0]
    if not isinstance(props, ast.Dict):
        fail(props, "properties must be a dict literal")
    pw = []
    for k, v in zip(props.keys, props.values):
        # self.<attr>.to_dict()
        if not (isinstance(v, ast.Call) and isinstance(v.func, ast.Attribute) and v.func.attr == "to_dict"
                and not v.args and not v.keywords):
            fail(v, "a properties entry must be self.<attr>.to_dict()")
        a = _container_of(v, v)
        if a not in PFIELD:
            fail(v, "unknown properties attribute")
        pw.append((_s(k), PFIELD[a]))
    data = top["data"][0]
    if not isinstance(data, ast.Dict):
        fail(data, "data must be a dict literal")
    w = []
    for k, v in zip(data.keys, data.values):
        key = _s(k)
        inner = v
        if isinstance(v, ast.IfExp):
            # None if <test on the same container> else <expr>   (or the other way round: <expr> if <test> else None)
            none_first = isinstance(v.body, ast.Constant) and v.body.value is None
            none_last = isinstance(v.orelse, ast.Constant) and v.orelse.value is None
            if none_first == none_last:
                fail(v, "conditional entry must be `None if <test> else ...` or `... if <test> else None`")
            if any(isinstance(n, (ast.Call, ast.NamedExpr)) for n in ast.walk(v.test)):
                fail(v, "the test of a conditional entry must only look at the container")
            inner = v.orelse if none_first else v.body
        if isinstance(inner, ast.Dict):
            # nested dict: {"array": self._charge.array..., "frame": self._charge.frame...}
            for k2, v2 in zip(inner.keys, inner.values):
                attrs = {a[:2] for a in _self_attrs(v2)}
                if len(attrs) != 1 or len(next(iter(attrs))) != 2:
                    fail(v2, "nested entry must read exactly one self.<container>.<part>")
                name = ".".join(next(iter(attrs)))
                if name not in FIELD:
                    fail(v2, f"unknown container part {name}")
                w.append((f"{key}.{_s(k2)}", FIELD[name], _one_escape(v2, v2)))
            if len({a[0] for a in _self_attrs(v)}) != 1:
                fail(v, "nested entry mixes containers")
            continue
        ok_shape = (
            # self.<c>.to_dict() / self._<c>.array.copy(): a method of the container (or of a part of it), no argument
            (isinstance(inner, ast.Call) and isinstance(inner.func, ast.Attribute) and not inner.args and not inner.keywords
             and (_attr_chain(inner.func.value) or [None])[0] == "self")
            # <helper>(self._<c>): a helper that could not be inlined, applied to the container alone
            or (isinstance(inner, ast.Call) and isinstance(inner.func, ast.Name)
                and inner.func.id == "_get_array_if_initialized" and len(inner.args) == 1 and not inner.keywords)
            # {key.replace(a, b): value for key, value in self._<c>.to_dict().items()}: every entry, the value unchanged
            or (isinstance(inner, ast.DictComp) and isinstance(inner.value, ast.Name)
                and len(inner.generators) == 1 and not inner.generators[0].ifs
                and isinstance(inner.generators[0].target, ast.Tuple) and len(inner.generators[0].target.elts) == 2
                and isinstance(inner.generators[0].target.elts[1], ast.Name)
                and inner.generators[0].target.elts[1].id == inner.value.id)
        )
        if not ok_shape:
            fail(v, "unsupported data entry shape")
        a = _container_of(v, v)
        if a not in FIELD:
            fail(v, f"unknown container {a}")
        w.append((key, FIELD[a], _one_escape(v, v)))
    return tag, pw, w


# ------------------------------------------------------------------------------------------- from_dict


class _FromDict:
    """Walk T.from_dict; accepted statements only (anything else fails closed)."""

    def __init__(self, fn):
        self.fn = fn
        self.alias = {}       # local name -> ("dct"|"data"|"props", [key path])
        self.pvars = {}       # local name -> properties key
        self.pread = []       # (pfield, key)
        self.read = []        # (field, key, esc)
        self.guard = None
        self.det = None       # local name of the new detector
        arg = [a.arg for a in fn.args.args]
        if arg != ["cls", "dct"]:
            fail(fn, "from_dict signature must be (cls, dct)")
        self.alias["dct"] = ("dct", [])

    # resolve an expression to a key path rooted at dct
    def path(self, e):
        if isinstance(e, ast.Name) and e.id in self.alias:
            return list(self.alias[e.id][1])
        if isinstance(e, ast.Subscript):
            base = self.path(e.value)
            if base is not None and isinstance(e.slice, ast.Constant) and isinstance(e.slice.value, str):
                return base + [e.slice.value]
            return None
        if isinstance(e, ast.Call) and isinstance(e.func, ast.Attribute) and e.func.attr == "get" and e.args:
            base = self.path(e.func.value)
            if base is not None and isinstance(e.args[0], ast.Constant) and isinstance(e.args[0].value, str):
                return base + [e.args[0].value]
            return None
        if isinstance(e, ast.NamedExpr):
            return self.path(e.value)
        return None

    def prop_key(self, e):
        """a local holding X.from_dict(dct['properties'][k]), or that call itself -> k."""
        if isinstance(e, ast.Name):
            return self.pvars.get(e.id)
        if isinstance(e, ast.Call) and isinstance(e.func, ast.Attribute) and e.func.attr == "from_dict" \
                and len(e.args) == 1 and not e.keywords:
            p = self.path(e.args[0])
            if p is not None and len(p) == 2 and p[0] == "properties":
                return p[1]
        return None

    def paths_in(self, expr):
        """maximal resolvable key paths inside expr."""
        out = []

        def rec(n):
            p = self.path(n)
            if p is not None and p:
                out.append(tuple(p))
                return
            for c in ast.iter_child_nodes(n):
                rec(c)
        rec(expr)
        return set(out)

    def bind_walrus(self, test):
        for n in ast.walk(test):
            if isinstance(n, ast.NamedExpr):
                p = self.path(n.value)
                if p is None:
                    fail(n, "walrus must bind a key of the dictionary")
                self.alias[n.target.id] = ("dct", p)

    def check_test(self, t):
        """guards allowed around a store: `"k" in data`, `x is not None`, and/or of those."""
        if isinstance(t, ast.BoolOp):
            for v in t.values:
                self.check_test(v)
            return
        if isinstance(t, ast.Compare) and len(t.ops) == 1:
            if isinstance(t.ops[0], ast.In) and isinstance(t.left, ast.Constant) and self.path(t.comparators[0]) is not None:
                return
            if isinstance(t.ops[0], ast.IsNot) and isinstance(t.comparators[0], ast.Constant) \
                    and t.comparators[0].value is None and self.path(t.left) is not None:
                return
        fail(t, "unsupported guard in from_dict")

    def store(self, target_chain, rhs, node):
        """`detector.<...> = rhs` or `detector.<a>.update(rhs)`."""
        names = [x.lstrip("_") for x in target_chain]
        name = ".".join(names[:2]) if names[0] == "charge" and len(names) >= 2 else names[0]
        if name not in FIELD:
            fail(node, f"store into unknown container {name}")
        ps = {p for p in self.paths_in(rhs) if p[0] == "data"}
        if len(ps) != 1:
            fail(node, f"a store must read exactly one key of dct['data'] (found {sorted(ps)})")
        key = ".".join(next(iter(ps))[1:])
        _no_filter(rhs, "from_dict")
        self.read.append((FIELD[name], key, _one_escape(rhs, node)))

    def stmt(self, s):
        if isinstance(s, (ast.Import, ast.ImportFrom)):
            return
        if isinstance(s, ast.If):
            # tag/version guard:  if dct["type"] != "CCD": raise ...
            if len(s.body) == 1 and isinstance(s.body[0], ast.Raise) and not s.orelse:
                t = s.test
                if isinstance(t, ast.Compare) and len(t.ops) == 1 and isinstance(t.ops[0], ast.NotEq):
                    p = self.path(t.left)
                    if p == ["type"]:
                        self.guard = _s(t.comparators[0])
                        return
                    if p == ["version"] and isinstance(t.comparators[0], ast.Constant) and t.comparators[0].value == 1:
                        return
                fail(s, "unsupported raising guard")
            if s.orelse:
                fail(s, "else branches are not accepted in from_dict")
            self.check_test(s.test)
            self.bind_walrus(s.test)
            for b in s.body:
                self.stmt(b)
            return
        if isinstance(s, ast.Return):
            if not (isinstance(s.value, ast.Name) and s.value.id == self.det):
                fail(s, "from_dict must return the new detector")
            return
        if isinstance(s, ast.Expr) and isinstance(s.value, ast.Call):
            c = s.value
            ch = _attr_chain(c.func)
            if ch and ch[0] == self.det and ch[-1] == "update" and len(ch) == 3 and len(c.args) == 1:
                self.store(ch[1:-1], c.args[0], s)
                return
            fail(s, "unsupported call statement")
        if isinstance(s, (ast.Assign, ast.AnnAssign)):
            tgt = s.targets[0] if isinstance(s, ast.Assign) else s.target
            if isinstance(s, ast.Assign) and len(s.targets) != 1:
                fail(s, "multiple targets")
            val = s.value
            if isinstance(tgt, ast.Name):
                # new detector
                if isinstance(val, ast.Call) and isinstance(val.func, ast.Name) and val.func.id == "cls":
                    if val.args:
                        fail(val, "cls(...) must use keywords")
                    for kw in val.keywords:
                        key = self.prop_key(kw.value)
                        if kw.arg not in PFIELD or key is None:
                            fail(val, "cls(...) argument must be a value built from dct['properties'][...]")
                        self.pread.append((PFIELD[kw.arg], key))
                    self.det = tgt.id
                    return
                p = self.path(val)
                if p is not None:
                    self.alias[tgt.id] = ("dct", p)
                    return
                # X.from_dict(properties["k"])
                if not isinstance(val, ast.Name) and self.prop_key(val) is not None:
                    self.pvars[tgt.id] = self.prop_key(val)
                    return
                # harmless local derived from the new detector (previous_frame = detector.charge._frame)
                ch = _attr_chain(val)
                if ch and ch[0] == self.det:
                    return
                fail(s, "unsupported local assignment in from_dict")
            ch = _attr_chain(tgt)
            if ch and ch[0] == self.det and self.det is not None:
                self.store(ch[1:], val, s)
                return
            fail(s, "unsupported assignment target in from_dict")
        fail(s, "unsupported statement in from_dict")

    def run(self):
        for s in body_no_doc(self.fn):
            self.stmt(s)
        if self.guard is None or self.det is None:
            fail(self.fn, "from_dict: missing tag guard or detector construction")
        return self.guard, self.pread, self.read


def tr_dispatch(fn):
    """normal form of an if/elif/else chain (= match statement = early returns):
       if dct['type'] == '<tag>': [import]; return X.from_dict(dct)   ...   raise"""
    body = [s for s in body_no_doc(fn) if not isinstance(s, (ast.Import, ast.ImportFrom))]
    if len(body) < 2 or not all(isinstance(s, ast.If) for s in body[:-1]) or not isinstance(body[-1], ast.Raise):
        fail(fn, "Detector.from_dict must be a chain of tests on dct['type'], each returning, followed by raise")
    out = []
    allowed = None
    for node in body[:-1]:
        if node.orelse:
            fail(node, "dispatch branch must return")
        t = node.test
        if isinstance(t, ast.Compare) and len(t.ops) == 1 and isinstance(t.ops[0], ast.NotIn) and not out and allowed is None \
                and ast.unparse(t.left) == "dct['type']" and isinstance(t.comparators[0], (ast.Tuple, ast.List, ast.Set)) \
                and len(node.body) == 1 and isinstance(node.body[0], ast.Raise):
            allowed = [_s(e) for e in t.comparators[0].elts]      # if dct['type'] not in (<tags>): raise
            continue
        if not (isinstance(t, ast.Compare) and len(t.ops) == 1 and isinstance(t.ops[0], ast.Eq)
                and ast.unparse(t.left) == "dct['type']"):
            fail(t, "dispatch test must be dct['type'] == '<tag>'")
        tag = _s(t.comparators[0])
        rets = [s for s in node.body if isinstance(s, ast.Return)]
        others = [s for s in node.body if not isinstance(s, (ast.Return, ast.ImportFrom, ast.Import))]
        if len(rets) != 1 or others:
            fail(node, "dispatch branch must be import + return X.from_dict(dct)")
        r = rets[0].value
        if not (isinstance(r, ast.Call) and isinstance(r.func, ast.Attribute) and r.func.attr == "from_dict"
                and isinstance(r.func.value, ast.Name) and len(r.args) == 1 and ast.unparse(r.args[0]) == "dct"):
            fail(r, "dispatch branch must return X.from_dict(dct)")
        cls = r.func.value.id
        if cls not in dict(KINDS):
            fail(r, "unknown detector class")
        out.append((tag, cls))
    if allowed is not None and sorted(allowed) != sorted(t for t, _ in out):
        fail(fn, "the tags let through by the membership test are not the tags dispatched on")
    return out


def _paths(stmts, conds=(), acc=()):
    """execution paths of a block of straight-line statements and `if`s (guard clauses, if / elif / else, nested ifs all
    give the same set): [(tests taken as ((test, polarity), ...), statements executed, terminating Return / Raise or None)]."""
    for i, s in enumerate(stmts):
        if isinstance(s, ast.If):
            out = []
            for branch, pol in ((s.body, True), (s.orelse, False)):
                out += _paths(list(branch) + list(stmts[i + 1:]), conds + ((s.test, pol),), acc)
            return out
        if isinstance(s, (ast.Return, ast.Raise)):
            return [(conds, acc, s)]
        if isinstance(s, (ast.For, ast.While, ast.Try, ast.With, ast.Match, ast.FunctionDef, ast.ClassDef, ast.AsyncFunctionDef,
                          ast.AsyncFor, ast.AsyncWith, ast.Break, ast.Continue, ast.Delete, ast.Global, ast.Nonlocal)):
            fail(s, "unsupported statement (only assignments, calls, imports and ifs are read path by path)")
        acc = acc + (s,)
    return [(conds, acc, None)]


def _key_test(t, mapping):
    """`'<key>' in <mapping>` / `'<key>' not in <mapping>` / `not ...`  ->  (key, polarity)."""
    pol = True
    while isinstance(t, ast.UnaryOp) and isinstance(t.op, ast.Not):
        t, pol = t.operand, not pol
    if isinstance(t, ast.Compare) and len(t.ops) == 1 and isinstance(t.ops[0], (ast.In, ast.NotIn)) \
            and ast.unparse(t.comparators[0]) == mapping:
        return _s(t.left), pol == isinstance(t.ops[0], ast.In)
    fail(t, f"test must be '<key>' in {mapping}")


def tr_photon(S):
    """Photon.to_dict: every execution path returns a dict with at most one entry; one entry is a plain copy of self._array
    (2-D key), the other copies every entry of self._array.to_dict() with at most one key escaping (3-D key); written either
    as `return {key: value}` or as a store into the returned local (`dct[key] = value`).
    Photon.from_dict: read path by path - on the paths where the FIRST tested key is present, obj.array is stored once from
    that key; where it is absent and the second key is present, obj.array_3d is stored once from that key; where both are
    absent nothing is stored; every path returns obj."""
    td = S.func("pyxel/data_structure/photon.py", "to_dict", cls="Photon")
    wk, wesc = {}, None
    writes = []             # (key, value, node)
    rets = [n for n in ast.walk(td) if isinstance(n, ast.Return)]
    ret_names = {n.value.id for n in rets if isinstance(n.value, ast.Name)}
    if len(ret_names) > 1:
        fail(td, "Photon.to_dict must return one local")
    for r in rets:
        if isinstance(r.value, ast.Dict):
            if len(r.value.keys) > 1 or any(k is None for k in r.value.keys):
                fail(r, "Photon.to_dict must return a dict with at most one entry")
            writes += [(_s(k), v, r) for k, v in zip(r.value.keys, r.value.values)]
        elif not isinstance(r.value, ast.Name):
            fail(r, "Photon.to_dict must return a dict literal or the local it fills")
    for n in ast.walk(td):
        if isinstance(n, ast.Assign) and len(n.targets) == 1 and isinstance(n.targets[0], ast.Subscript) \
                and isinstance(n.targets[0].value, ast.Name) and n.targets[0].value.id in ret_names:
            writes.append((_s(n.targets[0].slice), n.value, n))
        elif isinstance(n, ast.Assign) and any(isinstance(t, ast.Name) and t.id in ret_names for t in n.targets):
            if not (isinstance(n.value, ast.Dict) and not n.value.keys) and _empty_dict_call(n.value) is False:
                fail(n, "the local returned by Photon.to_dict must start as an empty dict")
        elif isinstance(n, ast.Call) and isinstance(n.func, ast.Attribute) and isinstance(n.func.value, ast.Name) \
                and n.func.value.id in ret_names:
            fail(n, "the local returned by Photon.to_dict may only be filled by `dct[key] = value`")
    for key, value, n in writes:
        src = {a[0] for a in _self_attrs(value)}
        if src != {"array"}:
            fail(n, "Photon.to_dict entry must store self._array")
        three_d = isinstance(value, ast.DictComp)
        if three_d:
            _no_filter(value, "Photon.to_dict")
            if ast.unparse(value.generators[0].iter).replace(" ", "") != "self._array.to_dict().items()" \
                    or not isinstance(value.value, ast.Name):
                fail(n, "Photon.to_dict (3-D) must copy every entry of self._array.to_dict()")
            wesc = _one_escape(value, n)
        if ("3d" if three_d else "2d") in wk:
            fail(n, "Photon.to_dict must write one 2-D and one 3-D key")
        wk["3d" if three_d else "2d"] = key
    if sorted(wk) != ["2d", "3d"]:
        fail(td, "Photon.to_dict must write one 2-D and one 3-D key")
    fd = S.func("pyxel/data_structure/photon.py", "from_dict", cls="Photon")
    params = [a.arg for a in fd.args.args]
    if params[-1:] != ["data"]:
        fail(fd, "Photon.from_dict signature must end with `data`")
    paths = _paths(body_no_doc(fd))
    order = []              # keys in the order in which they are tested
    seen = {}               # (first present, second present) -> (attribute stored, key read)
    for conds, acc, end in paths:
        env = {}
        consistent = True
        for t, pol in conds:
            key, p = _key_test(t, "data")
            p = p if pol else not p
            if key not in order:
                order.append(key)
            if env.setdefault(key, p) != p:
                consistent = False      # the same key tested twice with different outcomes: not an execution path
        if not consistent:
            continue
        if not (isinstance(end, ast.Return) and isinstance(end.value, ast.Name) and end.value.id == "obj"):
            fail(end or fd, "every path of Photon.from_dict must return obj")
        stores = [s for s in acc if isinstance(s, ast.Assign) and isinstance(s.targets[0], ast.Attribute)
                  and _attr_chain(s.targets[0]) and _attr_chain(s.targets[0])[0] == "obj"]
        for s in acc:
            if isinstance(s, ast.Expr) or (isinstance(s, ast.Assign) and s not in stores and not all(
                    isinstance(t, ast.Name) for t in s.targets)):
                fail(s, "unsupported statement in Photon.from_dict")
        if len(stores) > 1:
            fail(stores[1], "Photon.from_dict path must store at most once into obj")
        used = {c.value for s in acc for c in ast.walk(s) if isinstance(c, ast.Constant) and isinstance(c.value, str)
                and c.value.startswith("array")}
        if not stores:
            got = None
            if used:
                fail(fd, "a path of Photon.from_dict reads a key without storing it")
        else:
            attr = _attr_chain(stores[0].targets[0])[1]
            if len(used) != 1:
                fail(stores[0], "a path of Photon.from_dict must read exactly the key it stores")
            e = set()
            for s in acc:
                _no_filter(s, "Photon.from_dict")
                e |= _escapes(s)
            if len(e) > 1:
                fail(stores[0], "more than one key.replace")
            got = (attr, next(iter(used)), next(iter(e)) if e else None)
        if len(order) > 2:
            fail(fd, "Photon.from_dict must test two keys")
        state = tuple(env.get(k) for k in order)
        seen.setdefault(state, set()).add(got)
    if len(order) != 2:
        fail(fd, "Photon.from_dict must test the 2-D key, then the 3-D key")
    k1, k2 = order

    def outcome(p1, p2):
        """what is stored when k1 / k2 are present or not (paths that do not test k2 cover both of its values)."""
        res = set()
        for state, gots in seen.items():
            st = dict(zip(order, state))
            if st.get(k1) in (None, p1) and st.get(k2) in (None, p2):
                res |= gots
        if len(res) != 1:
            fail(fd, f"Photon.from_dict: no single behaviour when {k1!r} present={p1}, {k2!r} present={p2}")
        return next(iter(res))
    first = {outcome(True, True), outcome(True, False)}
    second, neither = outcome(False, True), outcome(False, False)
    if len(first) != 1 or None in first or next(iter(first))[:2] != ("array", k1) or next(iter(first))[2] is not None:
        fail(fd, "Photon.from_dict must store obj.array from the key tested first whenever it is present")
    if second is None or second[:2] != ("array_3d", k2):
        fail(fd, "Photon.from_dict must store obj.array_3d from the second key when only that one is present")
    if neither is not None:
        fail(fd, "Photon.from_dict must store nothing when neither key is present")
    return (wk["2d"], wk["3d"]), (k1, k2), wesc, second[2]


def _empty_dict_call(v):
    return isinstance(v, ast.Call) and isinstance(v.func, ast.Name) and v.func.id == "dict" and not v.args and not v.keywords


def check_asdf(S):
    """Pass-through shape of the ASDF backend (no table: a changed shape is a translation failure)."""
    fa = S.func("pyxel/backends/asdf.py", "from_asdf")
    copies = {}
    local = {}
    for n in ast.walk(fa):
        if isinstance(n, (ast.Assign, ast.AnnAssign)):
            tgt = n.targets[0] if isinstance(n, ast.Assign) else n.target
            val = n.value
            if isinstance(tgt, ast.Name) and isinstance(val, ast.Subscript) and ast.unparse(val.value) == "af":
                local[tgt.id] = _s(val.slice)
            if isinstance(tgt, ast.Subscript) and ast.unparse(tgt.value) == "dct":
                k = _s(tgt.slice)
                if isinstance(val, ast.Subscript) and ast.unparse(val.value) == "af":
                    copies[k] = _s(val.slice)
                elif isinstance(val, ast.Name) and val.id in local:
                    copies[k] = local[val.id]
                else:
                    fail(n, "from_asdf must copy the file's entry unchanged")
    if copies != {"version": "version", "type": "type", "properties": "properties", "data": "data"}:
        fail(fa, f"from_asdf must pass version/type/properties/data through (found {copies})")
    src = ast.unparse(fa)
    if "pd.DataFrame(" not in src.replace(" ", ""):
        fail(fa, "from_asdf must rebuild the frame with pd.DataFrame(<dict>)")
    ta = S.func("pyxel/backends/asdf.py", "to_asdf")
    orient = None
    for n in ast.walk(ta):
        if isinstance(n, ast.Call) and isinstance(n.func, ast.Attribute) and n.func.attr == "to_dict" and n.keywords:
            for kw in n.keywords:
                if kw.arg == "orient":
                    orient = _s(kw.value)
    if orient != "list":
        fail(ta, "to_asdf must convert the frame with to_dict(orient='list')")
    # row labels of the cluster table: written as  dct["data"]["charge"][K] = <df>.index.to_list()  and read back as
    # pd.DataFrame(<dict>, index=dct["data"]["charge"].get(K))  ->  kept;  neither -> not kept;  anything else fails closed
    wkeys = []
    for n in ast.walk(ta):
        if isinstance(n, ast.Assign) and len(n.targets) == 1 and isinstance(n.targets[0], ast.Subscript):
            src = ast.unparse(n.value).replace(" ", "")
            if ".index" in src:
                tgt = ast.unparse(n.targets[0].value).replace(" ", "").replace('"', "'")
                if tgt != "dct['data']['charge']" or not any(src.endswith(x) for x in (".index.to_list()", ".index.tolist()")) \
                        and not (src.startswith("list(") and src.endswith(".index)")):
                    fail(n, "to_asdf: the row labels must be stored as dct['data']['charge'][K] = df.index.to_list()")
                wkeys.append(_s(n.targets[0].slice))
    rkeys = []
    for n in ast.walk(fa):
        if isinstance(n, ast.Call) and ast.unparse(n.func).replace(" ", "") == "pd.DataFrame":
            if len(n.args) != 1 or any(kw.arg != "index" for kw in n.keywords):
                fail(n, "from_asdf: pd.DataFrame(<dict>[, index=...]) expected")
            for kw in n.keywords:
                v = kw.value
                base = None
                if isinstance(v, ast.Call) and isinstance(v.func, ast.Attribute) and v.func.attr == "get" and len(v.args) == 1:
                    base, key = v.func.value, _s(v.args[0])
                elif isinstance(v, ast.Subscript):
                    base, key = v.value, _s(v.slice)
                if base is None or ast.unparse(base).replace(" ", "").replace('"', "'") != "dct['data']['charge']":
                    fail(n, "from_asdf: index= must read dct['data']['charge'][K]")
                rkeys.append(key)
    if len(wkeys) > 1 or len(rkeys) > 1 or (wkeys != rkeys):
        fail(ta, f"ASDF backend: row labels written under {wkeys} but read from {rkeys}")
    if wkeys and wkeys[0] in ("array", "frame"):
        fail(ta, "ASDF backend: the row labels overwrite a container key")
    index_kept = bool(wkeys)
    # the processed data: {key: value.to_dict() for key, value in <data>.items()} - every group, values as lists
    comps = [n for n in ast.walk(ta) if isinstance(n, ast.DictComp)]
    if len(comps) != 1:
        fail(ta, "to_asdf must convert the processed data with one dict comprehension")
    c = comps[0]
    _no_filter(c, "to_asdf")
    g = c.generators[0]
    if not (isinstance(g.target, ast.Tuple) and len(g.target.elts) == 2 and all(isinstance(e, ast.Name) for e in g.target.elts)
            and isinstance(g.iter, ast.Call) and isinstance(g.iter.func, ast.Attribute) and g.iter.func.attr == "items"
            and not g.iter.args):
        fail(c, "to_asdf: the comprehension must run over <data>.items()")
    kname, vname = (e.id for e in g.target.elts)
    if not (isinstance(c.key, ast.Name) and c.key.id == kname and _plain_to_dict(c.value)
            and isinstance(c.value.func.value, ast.Name) and c.value.func.value.id == vname):
        fail(c, "to_asdf: every entry must be  key: value.to_dict()")
    # ... read from dct["data"]["data"] and stored back under the same key (directly or through one local each)
    def _norm(e):
        return ast.unparse(e).replace(" ", "").replace('"', "'")
    local_val = {n.targets[0].id: n.value for n in ast.walk(ta)
                 if isinstance(n, ast.Assign) and len(n.targets) == 1 and isinstance(n.targets[0], ast.Name)}
    it = g.iter.func.value
    if isinstance(it, ast.Name) and it.id in local_val:
        it = local_val[it.id]
    if _norm(it) != "dct['data']['data']":
        fail(c, "to_asdf: the comprehension must read dct['data']['data']")
    back = [n for n in ast.walk(ta) if isinstance(n, ast.Assign) and len(n.targets) == 1
            and _norm(n.targets[0]) == "dct['data']['data']"]
    if len(back) != 1 or not (back[0].value is c or (isinstance(back[0].value, ast.Name) and local_val.get(back[0].value.id) is c)):
        fail(ta, "to_asdf: the converted processed data must be stored back as dct['data']['data']")
    # Scene.to_dict / Scene.from_dict: every group, values as lists, and back
    std = S.func("pyxel/data_structure/scene.py", "to_dict", cls="Scene")
    comps = [n for n in ast.walk(std) if isinstance(n, ast.DictComp)]
    if len(comps) != 1:
        fail(std, "Scene.to_dict must be one dict comprehension")
    c = comps[0]
    _no_filter(c, "Scene.to_dict")
    g = c.generators[0]
    if not (isinstance(g.target, ast.Tuple) and len(g.target.elts) == 2 and isinstance(c.key, ast.Name)
            and c.key.id == g.target.elts[0].id and _plain_to_dict(c.value) and isinstance(c.value.func.value, ast.Name)
            and c.value.func.value.id == g.target.elts[1].id
            and ast.unparse(g.iter).replace(" ", "") in ("self.data.to_dict().items()", "self._source.to_dict().items()")):
        fail(c, "Scene.to_dict: every entry must be  key: value.to_dict()  over self.data.to_dict().items()")
    sfd = S.func("pyxel/data_structure/scene.py", "from_dict", cls="Scene")
    comps = [n for n in ast.walk(sfd) if isinstance(n, ast.DictComp)]
    if len(comps) != 1:
        fail(sfd, "Scene.from_dict must be one dict comprehension")
    c = comps[0]
    _no_filter(c, "Scene.from_dict")
    if not (isinstance(c.key, ast.Name) and isinstance(c.value, ast.Call)
            and ast.unparse(c.value.func).replace(" ", "") == "xr.Dataset.from_dict" and len(c.value.args) == 1):
        fail(c, "Scene.from_dict: every entry must be  key: xr.Dataset.from_dict(value)")
    if "DataTree.from_dict(" not in ast.unparse(sfd):
        fail(sfd, "Scene.from_dict must rebuild the tree with xr.DataTree.from_dict")
    # Detector.load / save dispatch on the extension
    for name, callee in (("load", "from_asdf"), ("save", "to_asdf")):
        fn = S.func("pyxel/detectors/detector.py", name, cls="Detector")
        hit = False
        for n in ast.walk(fn):
            if isinstance(n, ast.If) and ".asdf" in ast.unparse(n.test) and isinstance(n.test, ast.Compare) \
                    and isinstance(n.test.ops[0], ast.Eq):
                r = n.body[0]
                if isinstance(r, ast.Return) and isinstance(r.value, ast.Call) \
                        and isinstance(r.value.func, ast.Attribute) and r.value.func.attr == callee:
                    hit = True
        if not hit:
            fail(fn, f"Detector.{name} must dispatch '.asdf' to {callee}")
    for name, inner in (("to_asdf", "to_dict"), ("from_asdf", "from_dict")):
        fn = S.func("pyxel/detectors/detector.py", name, cls="Detector")
        if f".{inner}(" not in ast.unparse(fn) or f"backends.{name}(" not in ast.unparse(fn):
            fail(fn, f"Detector.{name} must go through {inner} and backends.{name}")
    return index_kept


def tr_load(S):
    fn = S.func("pyxel/models/util.py", "load_detector")
    params = [a.arg for a in fn.args.args]
    if params[:2] != ["detector", "filename"]:
        fail(fn, "load_detector signature")
    det = params[0]
    new = None
    rebinds, assigned = False, []
    for s in body_no_doc(fn):
        if isinstance(s, (ast.Assign, ast.AnnAssign)):
            tgt = s.targets[0] if isinstance(s, ast.Assign) else s.target
            val = s.value
            if isinstance(tgt, ast.Name) and isinstance(val, ast.Call) and ast.unparse(val.func) in (
                    "Detector.load", "Detector.from_asdf", "Detector.from_hdf5"):
                new = tgt.id
                continue
            if isinstance(tgt, ast.Name) and tgt.id == det:
                rebinds = True          # `detector = new_detector`: rebinding the parameter, no effect on the caller
                continue
            ch = _attr_chain(tgt)
            if ch and ch[0] == det and len(ch) >= 2:
                src = _attr_chain(val)
                name = ch[1].lstrip("_")
                if not (src and src[0] == new and [x.lstrip("_") for x in src[1:]] == [x.lstrip("_") for x in ch[1:]]):
                    fail(s, "a store into the passed detector must copy the same attribute of the loaded one")
                if name == "charge" and len(ch) == 2:
                    assigned += ["FChargeArray", "FChargeFrame"]
                elif name in FIELD:
                    assigned.append(FIELD[name])
                elif ".".join(x.lstrip("_") for x in ch[1:3]) in FIELD:
                    assigned.append(FIELD[".".join(x.lstrip("_") for x in ch[1:3])])
                else:
                    fail(s, "store into an unknown attribute of the passed detector")
                continue
            fail(s, "unsupported assignment in load_detector")
        if isinstance(s, ast.If) and all(isinstance(b, ast.Raise) for b in s.body) and not s.orelse:
            continue
        if isinstance(s, ast.If) and not s.orelse and new is not None:
            # the MKID-only container:  if hasattr(new, "_phase") / isinstance(new, MKID):  detector._phase = new._phase
            t = ast.unparse(s.test).replace(" ", "").replace('"', "'")
            if t in (f"hasattr({new},'_phase')", f"isinstance({new},MKID)", f"hasattr({det},'_phase')", f"isinstance({det},MKID)"):
                ok = True
                for b in s.body:
                    ok = ok and isinstance(b, ast.Assign) and len(b.targets) == 1 \
                        and ast.unparse(b.targets[0]).replace(" ", "") == f"{det}._phase" \
                        and ast.unparse(b.value).replace(" ", "") == f"{new}._phase"
                if ok and s.body:
                    assigned.append("FPhase")
                    continue
            fail(s, "unsupported conditional in load_detector")
        if isinstance(s, ast.Expr) and isinstance(s.value, ast.Call):
            txt = ast.unparse(s.value).replace(" ", "")
            if new and txt in (f"{det}.__dict__.update({new}.__dict__)", f"vars({det}).update(vars({new}))"):
                assigned += list(dict.fromkeys(FIELD.values()))
                continue
        fail(s, "unsupported statement in load_detector")
    if new is None:
        fail(fn, "load_detector must load a detector from the file")
    # save_detector: the passed detector is written with Detector.save (= to_dict + backend)
    sv = S.func("pyxel/models/util.py", "save_detector")
    body = body_no_doc(sv)
    sp = [a.arg for a in sv.args.args]
    if not (sp[:2] == ["detector", "filename"] and len(body) == 1 and isinstance(body[0], ast.Expr)
            and ast.unparse(body[0].value).replace(" ", "") in ("detector.save(filename)", "detector.save(filename=filename)")):
        fail(sv, "save_detector must be detector.save(filename)")
    return rebinds and not assigned, list(dict.fromkeys(assigned))


# ------------------------------------------------------------------------------------------- emission


def _cstr(s):
    return '"' + s.replace('"', '""') + '"'


def _cesc(e):
    return "None" if e is None else f'(Some ({_cstr(e[0])}%char, {_cstr(e[1])}%char))'


def _clist(xs):
    xs = list(xs)
    return "[" + "; ".join(xs) + "]" if xs else "[]"


def extract(repo: Path) -> dict:
    src = _Src(repo)
    out = {"kinds": {}}
    for cls, rel in KINDS:
        tag, pw, w = tr_to_dict(src.func(rel, "to_dict", cls=cls))
        guard, pr, r = _FromDict(src.func(rel, "from_dict", cls=cls)).run()
        out["kinds"][cls] = dict(tag=tag, pw=pw, w=w, guard=guard, pr=pr, r=r)
    out["dispatch"] = tr_dispatch(src.func("pyxel/detectors/detector.py", "from_dict", cls="Detector"))
    out["photon_w"], out["photon_r"], out["photon_esc_w"], out["photon_esc_r"] = tr_photon(src)
    out["frame_index_kept"] = check_asdf(src)
    out["load_rebinds_only"], out["load_assigned"] = tr_load(src)
    return out


def emit(x: dict) -> str:
    def per_kind(f):
        return "fun T => match T with " + " | ".join(f"{k} => {f(x['kinds'][k])}" for k, _ in KINDS) + " end"

    wr = per_kind(lambda d: _clist(f"({_cstr(k)}, {f}, {_cesc(e)})" for k, f, e in d["w"]))
    rd = per_kind(lambda d: _clist(f"({f}, {_cstr(k)}, {_cesc(e)})" for f, k, e in d["r"]))
    pw = per_kind(lambda d: _clist(f"({_cstr(k)}, {pf})" for k, pf in d["pw"]))
    pr = per_kind(lambda d: _clist(f"({pf}, {_cstr(k)})" for pf, k in d["pr"]))
    tw = per_kind(lambda d: _cstr(d["tag"]))
    tg = per_kind(lambda d: _cstr(d["guard"]))
    disp = _clist(f"({_cstr(t)}, {c})" for t, c in x["dispatch"])
    return (HEADER +
            "From Coq Require Import ZArith List String Ascii.\nFrom PyxelV Require Import Model.Codec.\n"
            "Import ListNotations.\nOpen Scope string_scope.\n"
            "Definition src_tables : tables := {|\n"
            f"  t_written := {wr};\n  t_read := {rd};\n  t_pwritten := {pw};\n  t_pread := {pr};\n"
            f"  t_tag_written := {tw};\n  t_tag_guard := {tg};\n  t_dispatch := {disp};\n"
            f"  t_photon_w := ({_cstr(x['photon_w'][0])}, {_cstr(x['photon_w'][1])});\n"
            f"  t_photon_r := ({_cstr(x['photon_r'][0])}, {_cstr(x['photon_r'][1])});\n"
            f"  t_photon_esc_w := {_cesc(x['photon_esc_w'])};\n  t_photon_esc_r := {_cesc(x['photon_esc_r'])};\n"
            f"  t_frame_index_kept := {'true' if x['frame_index_kept'] else 'false'};\n"
            f"  t_load_rebinds_only := {'true' if x['load_rebinds_only'] else 'false'};\n"
            f"  t_load_assigned := {_clist(x['load_assigned'])}\n|}}.\n")


def translate(repo: Path) -> str:
    return emit(extract(Path(repo)))


_STD_W = [("photon", "FPhoton", None), ("pixel", "FPixel", None), ("signal", "FSignal", None), ("image", "FImage", None),
          ("data", "FData", ("/", "#")), ("charge.array", "FChargeArray", None), ("charge.frame", "FChargeFrame", None),
          ("scene", "FScene", ("/", "#"))]
_STD_R = [("FPhoton", "photon", None), ("FPixel", "pixel", None), ("FSignal", "signal", None), ("FImage", "image", None),
          ("FData", "data", ("#", "/")), ("FScene", "scene", ("#", "/")), ("FChargeArray", "charge.array", None),
          ("FChargeFrame", "charge.frame", None)]
_ALL_ASSIGNED = ["FScene", "FPhoton", "FChargeArray", "FChargeFrame", "FPixel", "FSignal", "FImage", "FData", "FPhase"]
_STD_PW = [("geometry", "PGeometry"), ("environment", "PEnvironment"), ("characteristics", "PCharacteristics")]
_STD_PR = [(b, a) for a, b in _STD_PW]


def _std(tag, phase=False):
    w = list(_STD_W)
    r = list(_STD_R)
    if phase:
        w.insert(4, ("phase", "FPhase", None))
        r.insert(4, ("FPhase", "phase", None))
    return dict(tag=tag, pw=_STD_PW, w=w, guard=tag, pr=_STD_PR, r=r)


# the last accepted shape (the tree with C18-F9 / C18-F10 / C18-frame-row-labels repaired); used only to keep a model
# for the failing-input search
FALLBACK = emit(dict(
    kinds={"CCD": _std("CCD"), "CMOS": _std("CMOS"), "MKID": _std("MKID", phase=True), "APD": _std("APD")},
    dispatch=[("CCD", "CCD"), ("CMOS", "CMOS"), ("MKID", "MKID"), ("APD", "APD")],
    photon_w=("array_2d", "array_3d"), photon_r=("array_2d", "array_3d"),
    photon_esc_w=("/", "#"), photon_esc_r=("#", "/"), frame_index_kept=True, load_rebinds_only=False,
    load_assigned=_ALL_ASSIGNED))
