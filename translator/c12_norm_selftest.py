"""Self-test of translator/c12_norm.py:  /venv/bin/python -m translator.c12_norm_selftest   (not part of ./check)

EQUIVALENT: each group lists spellings of one function that must normalise to the same text.
DISTINCT:   each pair looks like one of those rewrites but behaves differently - the normal forms must differ
            (the recognisers of translator/c12.py then read a different table or fail closed)."""
from __future__ import annotations

import ast
import sys
import tempfile
from pathlib import Path

from .c12_norm import normalize

PRE = '''
LIMIT = 10.0
_KEYS = ("a", "b")
class W: pass
def _chk(name, value, hi=100.0):
    if not (0.0 <= value <= hi):
        raise ValueError(f"{name} out of range")
def _first(dct, builders):
    for key, builder in builders.items():
        if key in dct:
            return {key: builder(dct[key])}
    return {}
def _given(objs):
    return sum(o is not None for o in objs)
'''

EQUIVALENT = [
    # helper extraction, alias, module constant, swapped branches, early return + raise
    ["def f(self, value):\n    if not (0.0 <= value <= 10.0):\n        raise ValueError('x')\n    self._v = value",
     "def f(self, value):\n    _chk('v', value, hi=10.0)\n    self._v = value",
     "def f(self, value):\n    _chk('v', value, LIMIT)\n    self._v = value",
     "def f(self, value):\n    v = value\n    if not (0.0 <= v <= LIMIT):\n        raise ValueError\n    self._v = v",
     "def f(self, value):\n    if 0.0 <= value <= 10.0:\n        self._v = value\n    else:\n        raise ValueError",
     "def f(self, value):\n    if 0.0 <= value <= 5.0 * 2:\n        self._v = value\n        return\n    raise ValueError",
     "def f(self, value):\n    if not (0.0 <= value <= 10.0):\n        raise ValueError('x')\n    setattr(self, '_' + 'v', value)"],
    # match == isinstance chain
    ["def f(self, value):\n    if isinstance(value, int | float):\n        if not (value > 0.0):\n            raise ValueError\n"
     "    elif not isinstance(value, W):\n        raise TypeError\n    self._w = value",
     "def f(self, value):\n    match value:\n        case int() | float():\n            if not (value > 0.0):\n                raise ValueError\n"
     "        case W():\n            pass\n        case _:\n            raise TypeError\n    self._w = value"],
    # dispatch: if/elif == loop with break == dict + helper walking it
    ["def f(dct):\n    out = {}\n    if 'a' in dct:\n        out['a'] = to_a(dct['a'])\n    elif 'b' in dct:\n        out['b'] = to_b(dct['b'])\n"
     "    else:\n        raise ValueError\n    return out",
     "def f(dct):\n    out = {}\n    for k, b in (('a', to_a), ('b', to_b)):\n        if k in dct:\n            out[k] = b(dct[k])\n            break\n"
     "    else:\n        raise ValueError\n    return out"],
    ["def f(dct):\n    if 'a' in dct:\n        out = {'a': to_a(dct['a'])}\n    elif 'b' in dct:\n        out = {'b': to_b(dct['b'])}\n    else:\n        out = {}\n"
     "    if not out:\n        raise ValueError\n    return out",
     "def f(dct):\n    builders = {'a': to_a, 'b': to_b}\n    out = _first(dct, builders=builders)\n    if not out:\n        raise ValueError\n    return out"],
    ["def f(dct):\n    out = {}\n    if 'a' in dct:\n        out['a'] = to_a(dct['a'])\n    elif 'b' in dct:\n        out['b'] = to_b(dct['b'])\n"
     "    else:\n        raise ValueError\n    return out",
     "def f(dct):\n    out = {}\n    table = {'a': to_a, 'b': to_b}\n    for k in table:\n        if k in dct:\n            out[k] = table[k](dct[k])\n            break\n"
     "    else:\n        raise ValueError\n    return out"],
    ["def f(self, value):\n    if not (0.0 <= value <= 10.0):\n        raise ValueError\n    self._v = value",
     "def f(self, value):\n    lo, hi = (0.0, LIMIT)\n    if not (lo <= value <= hi):\n        raise ValueError\n    self._v = value",
     "def f(self, value):\n    bounds = (0.0, 10.0)\n    if not (bounds[0] <= value <= bounds[1]):\n        raise ValueError\n    self._v = value"],
    # counting
    ["def f(self):\n    n = sum(1 for el in (self.a, self.b) if el is not None)\n    if n != 1:\n        raise ValueError",
     "def f(self):\n    n = 0\n    for el in (self.a, self.b):\n        if el is not None:\n            n += 1\n    if n != 1:\n        raise ValueError"],
    ["def f(self):\n    n = sum(o is not None for o in [self.a, self.b])\n    if n != 1:\n        raise ValueError",
     "def f(self):\n    n = _given([self.a, self.b])\n    if n != 1:\n        raise ValueError"],
    ["def f(dct):\n    n = sum(k in dct for k in ('a', 'b'))\n    if n != 1:\n        raise ValueError",
     "def f(dct):\n    n = sum(k in dct for k in _KEYS)\n    if n != 1:\n        raise ValueError"],
]

DISTINCT = [
    # argument dropped -> the default is the limit
    ("def f(self, value):\n    _chk('v', value, hi=10.0)\n    self._v = value", "def f(self, value):\n    _chk('v', value)\n    self._v = value"),
    # alias taken before the re-assignment: the OLD value is checked
    ("def f(self, value):\n    if not (0.0 < value <= 10.0):\n        raise ValueError\n    self._v = value",
     "def f(self, value):\n    cur = self._v\n    self._v = value\n    if not (0.0 < cur <= 10.0):\n        raise ValueError"),
    # guard clause, condition not inverted
    ("def f(self, value):\n    if 0.0 <= value <= 10.0:\n        self._v = value\n    else:\n        raise ValueError",
     "def f(self, value):\n    if 0.0 <= value <= 10.0:\n        raise ValueError\n    self._v = value"),
    # class pattern that no longer takes an int
    ("def f(self, value):\n    match value:\n        case int() | float():\n            self._w = value\n        case _:\n            raise TypeError",
     "def f(self, value):\n    match value:\n        case float():\n            self._w = value\n        case _:\n            raise TypeError"),
    # counter re-set inside the loop
    ("def f(self):\n    n = 0\n    for el in (self.a, self.b):\n        if el is not None:\n            n += 1\n    if n != 1:\n        raise ValueError",
     "def f(self):\n    for el in (self.a, self.b):\n        n = 0\n        if el is not None:\n            n += 1\n    if n != 1:\n        raise ValueError"),
    # the list is changed after it was named
    ("def f(dct):\n    keys = ['a', 'b']\n    n = sum(k in dct for k in keys)\n    if n != 1:\n        raise ValueError",
     "def f(dct):\n    keys = ['a', 'b']\n    keys.pop()\n    n = sum(k in dct for k in keys)\n    if n != 1:\n        raise ValueError"),
    # NaN: an ordering comparison must not be negated into its complement
    ("def f(self, value):\n    if not (value > 0):\n        raise ValueError\n    self._v = value",
     "def f(self, value):\n    if value <= 0:\n        raise ValueError\n    self._v = value"),
]


def norm(repo: Path, src: str) -> str:
    full = PRE + "class C:\n" + "".join("    " + l + "\n" for l in src.splitlines()) if src.startswith("def f(self") else PRE + src
    rel = "pyxel/m.py"
    (repo / "pyxel").mkdir(exist_ok=True)
    (repo / rel).write_text(full)
    tree = ast.parse(full)
    if src.startswith("def f(self"):
        cn = [n for n in tree.body if isinstance(n, ast.ClassDef) and n.name == "C"][0]
        fn = [n for n in cn.body if isinstance(n, ast.FunctionDef)][0]
        return ast.unparse(normalize(repo, rel, tree, fn, "C").body)
    fn = [n for n in tree.body if isinstance(n, ast.FunctionDef) and n.name == "f"][0]
    return ast.unparse(normalize(repo, rel, tree, fn).body)


def unmsg(text: str) -> str:
    """messages are never read by the recognisers: compare without the arguments of the raised exceptions"""
    t = ast.parse(text)
    for n in ast.walk(t):
        if isinstance(n, ast.Raise) and isinstance(n.exc, ast.Call):
            n.exc = n.exc.func
    return ast.unparse(t)


def main() -> int:
    bad = 0
    with tempfile.TemporaryDirectory(prefix="c12norm_") as d:
        repo = Path(d)
        for i, group in enumerate(EQUIVALENT):
            forms = [unmsg(norm(repo, s)) for s in group]
            for j, f in enumerate(forms[1:], 1):
                if f != forms[0]:
                    bad += 1
                    print(f"EQUIVALENT group {i}: spelling {j} normalises differently\n--- 0\n{forms[0]}\n--- {j}\n{f}\n")
        for i, (a, b) in enumerate(DISTINCT):
            if unmsg(norm(repo, a)) == unmsg(norm(repo, b)):
                bad += 1
                print(f"DISTINCT pair {i}: a breaking look-alike normalises to the same text\n{norm(repo, a)}\n")
    print(f"c12_norm selftest: {sum(len(g) - 1 for g in EQUIVALENT)} equivalences, {len(DISTINCT)} distinctions, {bad} failures")
    return 1 if bad else 0


if __name__ == "__main__":
    sys.exit(main())
