"""Self-test of translator/c18_norm.py on small adversarial functions (aliases taken before a store, stores through a
second alias, impure intermediates, helpers that mutate their argument, match, dispatch dict, guard clauses ...): the
normal form of each function is EXECUTED next to the original on the same inputs; results, exceptions and the final state
of the argument must be identical.   usage: /venv/bin/python translator/c18_norm_selftest.py"""
CASES = r'''import functools
from functools import partial
import contextlib

_K = ("a", "b")
_DEF = 7


def _h(x, y=_DEF):
    if x is None:
        return y
    return x + y


def _p(d, k):
    d[k] = d.get(k, 0) + 1


def f1(d):
    a = d["x"]
    d["x"] = 5
    return a


def f2(d):
    a = d["x"]
    e = d
    e["x"] = 5
    return a


def f3(d):
    t = d.pop("k")
    d["k"] = 1
    return t


def f4(d):
    t = d.pop("k")
    n = len(d)
    return t, n


def f5(d):
    out = {}
    for k in _K:
        if k not in d:
            continue
        out[k] = _h(d[k])
    return out


def f6(d):
    r = None
    if d.get("x") is not None:
        r = _h(d["x"], y=2)
    return r


def f7(d):
    x = d["x"]
    _p(d, "x")
    return x, d["x"]


def f8(d):
    s = d["s"]
    s["n"] = 1
    d["s"] = {}
    s["m"] = 2
    return d, s


def f9(d, k):
    table = {"a": 1, "b": 2}
    if k not in table:
        return None
    return table[k] + d.get(k, 0)


def f10(d):
    match d.get("t"):
        case "x":
            return 1
        case _:
            return 2


def f11(d):
    v = d["v"]
    match v:
        case 1 | 2:
            r = "small"
        case None:
            r = "none"
        case _:
            r = "big"
    return r


def f12(d):
    res = []
    for k in sorted(d):
        res.append((k, d[k]))
    first = res
    res = res[:1]
    return first, res


def f13(d):
    lo = d["lo"]
    x = d["x"]
    hi = d["hi"]
    return lo <= x <= hi


def f14(d):
    if not d:
        return
    d["seen"] = True
    if "x" not in d:
        return
    d["x"] += 1


def f15(o):
    cur = o.get("a")
    o["a"] = 3
    if cur is None:
        cur = 0
    return cur


def f16(d):
    y = d["y"]
    z = [y for _ in range(2)]
    d["y"] = 0
    return z, y


class _A(dict):
    pass


def f17(d):
    t = type(d)
    d = _A(d)
    return t.__name__, type(d).__name__, t is type(d)


def f18(d):
    t = type(d)
    u = type(d.get("s"))
    if t is u:
        return "same " + t.__name__
    names = [t.__name__ for _ in range(2)]
    raise TypeError(f"{t.__name__} {u.__name__} {names}")


def f19(d):
    ok = isinstance(d.get("x"), int)
    d["x"] = "now a string"
    return ok, isinstance(d["x"], int)


def f20(d):
    k = isinstance(d, dict)
    d["k"] = k
    return k, k


def f21(d):
    x = d.get("s", d.get("x"))
    match x:
        case None:
            return "none"
        case dict():
            return "dict"
        case int() | str():
            return "scalar"
        case _:
            return "other"


def f22(d):
    add = partial(_h, y=3)
    add2 = functools.partial(_h, d.get("x"))
    return add(d.get("x")), add(1, y=4), add2(), add2(y=1) if d.get("x") is not None else None


def f23(d):
    y = d.get("y", 1)
    g = partial(_h, y)
    y = 100
    return g(1)


def f24(d):
    a = dict((k.upper(), v) for k, v in d.items() if k != "s")
    b = list(k for k in d)
    c = set([k for k in d])
    return a, b, sorted(c)


def f26(d):
    a, b = d.get("x"), d.get("y")
    b, a = a, b
    c, e = type(a), [a, b]
    return a, b, c.__name__, e


class _B(dict):
    pass


def f27(d):
    o = _A(d)
    t = type(o)
    o["q"] = 1
    o.marker = 2
    u = t.__name__
    o.__class__ = _B
    return u, t.__name__, type(o).__name__


def f28(d):
    s = d.get("s")
    empty = s is None
    if empty:
        s = {}
    s["n"] = 1
    same = s is d.get("s")
    d["s"] = None
    return empty, empty and same, same, s


def f25(d):
    with contextlib.suppress(KeyError), contextlib.suppress(TypeError):
        d["n"] = d["x"] + 1
    return d.get("n")
'''
import ast, copy, sys
from pathlib import Path
sys.path.insert(0, str(Path(__file__).resolve().parent.parent))
from translator.c18_norm import Normalizer
import tempfile
repo = Path(tempfile.mkdtemp(prefix="c18norm_"))
(repo / "pyxel").mkdir()
(repo / "pyxel/m.py").write_text(CASES)
N = Normalizer(repo)
src = (repo / "pyxel/m.py").read_text()
orig = {}
exec(compile(src, "m", "exec"), orig)
inputs = [{}, {"x": 1}, {"x": None, "k": 4, "a": 1}, {"k": 2, "a": 5, "b": 6, "t": "x", "v": 1, "s": {}, "lo": 0, "hi": 3, "x": 2, "y": 9},
          {"k": 2, "v": None, "s": {"q": 1}, "lo": 5, "hi": 3, "x": 4, "y": 1, "t": "z"}, {"v": 10, "x": 7, "k": 0, "lo": 1, "hi": 9, "s": {}, "y": 2}]
bad = 0
for name in [n for n in orig if n.startswith("f") and n[1:].isdigit()]:
    fn = N.func("pyxel/m.py", name)
    ns = dict(orig)
    exec(compile(ast.fix_missing_locations(ast.Module(body=[fn], type_ignores=[])), "n", "exec"), ns)
    changed = ast.dump(fn) != ast.dump([x for x in ast.parse(src).body if isinstance(x, ast.FunctionDef) and x.name == name][0])
    for inp in inputs + ["a", "b", "zz"]:
        def run(f):
            a = copy.deepcopy(inp)
            try:
                r = f(a, "a") if name == "f9" and not isinstance(inp, str) else (f({"a": 1}, inp) if name == "f9" else f(a))
                return ("ok", repr(r), repr(a))
            except Exception as ex:
                return ("exc", type(ex).__name__, repr(a))
        if isinstance(inp, str) and name != "f9":
            continue
        r1, r2 = run(orig[name]), run(ns[name])
        if r1 != r2:
            bad += 1
            print("DIFF", name, inp, r1, r2)
            print(ast.unparse(fn))
            break
    print(name, "changed" if changed else "unchanged")
print("bad", bad)
import shutil
shutil.rmtree(repo, ignore_errors=True)
sys.exit(1 if bad else 0)
