"""C08: what the source says about (a) how a processor is copied before keys are assigned on the copy and
(b) which values the property setters of the detector sections accept.

Extracted (fail closed on every other shape; the recognisers are those of translator/c06.py, imported, not edited):
  * Processor.__deepcopy__ : one `return Processor(kw=expr, ...)`; per constructor keyword the attribute it feeds and
    Deep (`deepcopy(self.attr[, memo])`) / Alias (`self.attr`, `copy(self.attr)`)          -> pol_root
  * ModelGroup.__deepcopy__: simple assignments + `return ModelGroup(kw=expr, ...)`          -> pol_group
  * no other class under pyxel/{pipelines,detectors,data_structure,exposure,observation} defines a copy / pickle hook
    (everything else is CPython's default deep copy)
  * the entry points that assign on a copy — Processor.replace, create_new_processor, build_processors,
    ModelFittingDataTree.update_processor: exactly one `v = deepcopy(<param>)`, every `.set(...)` on `v`, `v` returned
    or stored                                                                                 -> src_copy_sites
  * the range guard of every property setter of Geometry, Characteristics, Environment, APDCharacteristics (the
    recognisers are those of translator/c12.py, imported, not edited): `if not (lo <= v <= hi): raise`,
    `if v <= 0: raise`, `if v < lo or v > hi: raise`, unconditional or under `isinstance(v, int | float)` with a
    rejecting else branch; integer bounds; `if len(v) != n: raise`; the geometry subclasses add nothing
                                                                                              -> src_setter_guards
"""
from __future__ import annotations

from pathlib import Path

import ast

from harness.core import TranslationError

from . import c06, c12
from .common import HEADER, body_no_doc, find_func, parse

PRELUDE = ("From Coq Require Import ZArith List String.\nFrom PyxelV Require Import Model.Keys Model.KeysWorld.\n"
           "Import ListNotations.\nOpen Scope string_scope.\n")


def extract(repo: Path) -> dict:
    repo = Path(repo)
    proc = parse(repo, "pyxel/pipelines/processor.py")
    grp = parse(repo, "pyxel/pipelines/model_group.py")
    misc = parse(repo, "pyxel/observation/misc.py")
    fit = parse(repo, "pyxel/calibration/fitting_datatree.py")
    c06.scan_hooks(repo)
    sites = [
        ("replace", c06.copy_site(find_func(proc, "replace", "Processor"), "self", "Processor.replace")),
        ("create_new_processor", c06.copy_site(find_func(misc, "create_new_processor"), "processor", "create_new_processor")),
        ("build_processors", c06.copy_site(find_func(fit, "build_processors"), "processor", "build_processors")),
        ("update_processor", c06.copy_site(find_func(fit, "update_processor", "ModelFittingDataTree"), "processor",
                                           "update_processor")),
    ]
    return dict(proc_fields=c06.custom_copy(proc, "Processor"), group_fields=c06.custom_copy(grp, "ModelGroup"), sites=sites,
                guards=setter_guards(repo))


def _bound(q):
    n, d = q
    if d != 1:
        raise TranslationError(f"setter guard with a non-integer bound {n}/{d}")
    return n


def guard_of_acc(g: "c12.GuardAcc", where: str) -> str:
    """GuardAcc of translator/c12.py -> Gallina `guard` of Model/Keys.v (GAny | GRange lo hi ls hs | GAbove lo ls)."""
    if not g.clauses:
        return "GAny"
    if not (g.pre in (None, "PAlways") or (g.pre == "PIsNumber" and g.else_reject)):
        raise TranslationError(f"{where}: guard under precondition {g.pre} (else-reject={g.else_reject})")
    if [k for k, _ in g.clauses] == ["RaiseUnlessLen"] and g.pre in (None, "PAlways"):
        return f"(GLen ({int(g.clauses[0][1])}))"      # `if [not isinstance(v, Sequence): raise;] if len(v) != n: raise`
    lo = hi = None   # (bound, strict)
    for kind, arg in g.clauses:
        if kind == "RaiseUnlessAll":      # accepted iff every atom holds
            for op, q in arg:
                b = _bound(q)
                if op in ("OGe", "OGt"):
                    cand, which = (b, op == "OGt"), "lo"
                else:
                    cand, which = (b, op == "OLt"), "hi"
                if which == "lo":
                    lo = cand if lo is None or cand > lo else lo
                else:
                    hi = cand if hi is None or cand < hi else hi
        elif kind == "RaiseIfAny":        # refused iff some atom holds
            for op, q in arg:
                b = _bound(q)
                if op in ("OLt", "OLe"):   # v < b refused -> v >= b ; v <= b refused -> v > b
                    cand = (b, op == "OLe")
                    lo = cand if lo is None or cand > lo else lo
                else:                       # v > b refused -> v <= b ; v >= b refused -> v < b
                    cand = (b, op == "OGe")
                    hi = cand if hi is None or cand < hi else hi
        else:
            raise TranslationError(f"{where}: unsupported setter clause {kind}")
    tf = lambda x: "true" if x else "false"  # noqa: E731
    if lo is not None and hi is not None:
        return f"(GRange ({lo[0]}) ({hi[0]}) {tf(lo[1])} {tf(hi[1])})"
    if lo is not None:
        return f"(GAbove ({lo[0]}) {tf(lo[1])})"
    raise TranslationError(f"{where}: guard with an upper bound only")


def setter_guards(repo: Path):
    rows = []
    for rel, cname, _ in c12.CLASSES:
        tree = parse(repo, rel)
        cn = c12.class_node(tree, cname)
        seen = set()
        for fn in cn.body:
            if not isinstance(fn, ast.FunctionDef):
                continue
            decs = [ast.unparse(d) for d in fn.decorator_list]
            if any(d.endswith(".setter") for d in decs):
                if decs != [f"{fn.name}.setter"] or len(fn.args.args) != 2 or fn.name in seen:
                    c12.fail(fn, "setter shape")
                seen.add(fn.name)
                v = fn.args.args[1].arg
                acc = {v: c12.GuardAcc()}
                c12.walk_guards(body_no_doc(fn), [v], acc, {})
                rows.append((cname, fn.name, guard_of_acc(acc[v], f"{cname}.{fn.name}")))
    for rel, cname in c12.GEOMETRY_SUBCLASSES:
        c12.check_plain_subclass(repo, rel, cname)
    return rows


def render(d: dict) -> str:
    def tbl(rows):
        return "[" + "; ".join(f'("{n}", {m})' for n, m in rows) + "]"
    return (HEADER + PRELUDE +
            f"Definition src_copy_policy : cpolicy := mkCPolicy {tbl(d['proc_fields'])} {tbl(d['group_fields'])}.\n"
            f"Definition src_copy_sites : list (string * cmode) := {tbl(d['sites'])}.\n"
            "Definition src_setter_guards : list (string * string * guard) := [\n"
            + ";\n".join(f'  ("{c}", "{f}", {g})' for c, f, g in d["guards"]) + "\n].\n")


def translate(repo: Path) -> str:
    return render(extract(repo))


FALLBACK_DATA = dict(
    proc_fields=[("detector", "Deep"), ("pipeline", "Deep"), ("observation", "Deep")],
    group_fields=[("models", "Deep")],
    sites=[(s, "Deep") for s in ("replace", "create_new_processor", "build_processors", "update_processor")],
    guards=[
        ("Geometry", "row", "(GAbove (0) true)"), ("Geometry", "col", "(GAbove (0) true)"),
        ("Geometry", "total_thickness", "(GRange (0) (10000) false false)"),
        ("Geometry", "pixel_vert_size", "(GRange (0) (1000) false false)"),
        ("Geometry", "pixel_horz_size", "(GRange (0) (1000) false false)"),
        ("Geometry", "pixel_scale", "(GRange (0) (1000) false false)"),
        ("Characteristics", "quantum_efficiency", "(GRange (0) (1) false false)"),
        ("Characteristics", "charge_to_volt_conversion", "(GRange (0) (100) false false)"),
        ("Characteristics", "pre_amplification", "(GRange (0) (10000) false false)"),
        ("Characteristics", "adc_bit_resolution", "(GRange (4) (64) false false)"),
        ("Characteristics", "adc_voltage_range", "(GLen (2))"),
        ("Characteristics", "full_well_capacity", "(GRange (0) (10000000) false false)"),
        ("Environment", "temperature", "(GRange (0) (1000) true false)"), ("Environment", "wavelength", "(GAbove (0) true)"),
        ("APDCharacteristics", "quantum_efficiency", "(GRange (0) (1) false false)"),
        ("APDCharacteristics", "avalanche_gain", "(GRange (1) (1000) false false)"),
        ("APDCharacteristics", "pixel_reset_voltage", "GAny"), ("APDCharacteristics", "common_voltage", "GAny"),
        ("APDCharacteristics", "adc_bit_resolution", "(GRange (4) (64) false false)"),
        ("APDCharacteristics", "adc_voltage_range", "(GLen (2))"),
        ("APDCharacteristics", "full_well_capacity", "(GRange (0) (10000000) false false)"),
    ],
)
FALLBACK = render(FALLBACK_DATA)
