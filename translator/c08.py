"""C08: what the source says about (a) how a processor is copied before keys are assigned on the copy and
(b) which values the property setters of the detector sections accept.

Extracted (fail closed on every other shape; the recognisers are those of translator/c06.py, imported, not edited):
  * Processor.__deepcopy__ : one `return Processor(kw=expr, ...)`; per constructor keyword the attribute it feeds and
    Deep (`deepcopy(self.attr[, memo])`) / Alias (`self.attr`, `copy(self.attr)`)          -> pol_root
  * ModelGroup.__deepcopy__: simple assignments + `return ModelGroup(kw=expr, ...)`          -> pol_group
  * no other class under pyxel/{pipelines,detectors,data_structure,exposure,observation} defines a copy / pickle hook
    (everything else is CPython's default deep copy)
  * the entry points that assign on a copy — Processor.replace, create_new_processor, build_processors,
    ModelFittingDataTree.update_processor: exactly one `v = deepcopy(<param>)`, every `.set(...)` on `v`, `v` returned
    or stored                                                                                 -> src_copy_sites
  * the range guard of every property setter of Geometry, Characteristics, Environment, APDCharacteristics (the
    recognisers are those of translator/c12.py, imported, not edited): `if not (lo <= v <= hi): raise`,
    `if v <= 0: raise`, `if v < lo or v > hi: raise`, unconditional or under `isinstance(v, int | float)` with a
    rejecting else branch; integer bounds; `if len(v) != n: raise`; the geometry subclasses add nothing
                                                                                              -> src_setter_guards
  * the test that decides whether a model RUNS — ModelGroup.__iter__: `for m in self.models: if T: yield m`
    (or `if not T: continue` + `yield m`, or a generator expression / comprehension over self.models with `if T`, or
    `filter(lambda m: T, self.models)`) — and
    the test by which Observation.validate_steps decides that the model a swept key addresses is enabled — the one `if`
    that raises ValueError about the flag: `if not F: raise` — with T / F one of `x.enabled`, `bool(x.enabled)`,
    `processor.get(<key>)` (FTruthy), `... is True` (FIsTrue), `... == True` (FEqTrue)
                                                                        -> src_exec_flag_test, src_validate_flag_test
  * the names Arguments.__setattr__ hands to the unmodified object.__setattr__ instead of refusing / storing them as
    arguments: `if key == "<name>": super().__setattr__(key, value); return` (or `key in ("a", "b")`), then
    `if key not in self._arguments: raise AttributeError`, then `self._arguments[key] = value`  -> src_args_passthrough
"""
from __future__ import annotations

from pathlib import Path

import ast

from harness.core import TranslationError

from . import c06, c12, c12_norm
from .common import HEADER, body_no_doc, fail, find_func, parse

PRELUDE = ("From Coq Require Import ZArith List String.\nFrom PyxelV Require Import Model.Keys Model.KeysWorld.\n"
           "Import ListNotations.\nOpen Scope string_scope.\n")


def normalised_first(recogniser, repo: Path, rel: str, tree, name: str, cls: str | None):
    """`recogniser` applied to the function NORMALISED by translator/c12_norm.py (private helpers of the package inlined with
    their early returns turned into nested if/else, single-assignment aliases and module-level literal constants
    substituted, match -> if/elif, annotations / docstrings / logging dropped); if the normalised form is not recognised,
    to the function as written; fails closed (with the first error) only when neither form is recognised."""
    fn = find_func(tree, name, cls)
    norm = c12_norm.normalize(repo, rel, tree, fn, cls)
    try:
        return recogniser(norm)
    except TranslationError as first:
        if norm is fn:
            raise
        try:
            return recogniser(fn)
        except TranslationError:
            raise first from None


def copy_site_n(tree, name: str, cls: str | None, src: str, what: str) -> str:
    """c06.copy_site on the function normalised by c06.normalise (as translator/c06.py itself reads it), else as written"""
    try:
        return c06.copy_site(c06.nfind(tree, name, cls), src, what)
    except TranslationError as first:
        try:
            return c06.copy_site(find_func(tree, name, cls), src, what)
        except TranslationError:
            raise first from None


def extract(repo: Path) -> dict:
    repo = Path(repo)
    R_PROC, R_GRP, R_OBS = "pyxel/pipelines/processor.py", "pyxel/pipelines/model_group.py", "pyxel/observation/observation.py"
    R_MF = "pyxel/pipelines/model_function.py"
    proc = c06.parse_n(repo, R_PROC)        # parse_n: the normaliser of c06 can follow helpers into other modules
    grp = c06.parse_n(repo, R_GRP)
    misc = c06.parse_n(repo, "pyxel/observation/misc.py")
    fit = c06.parse_n(repo, "pyxel/calibration/fitting_datatree.py")
    c06.scan_hooks(repo)
    sites = [
        ("replace", copy_site_n(proc, "replace", "Processor", "self", "Processor.replace")),
        ("create_new_processor", copy_site_n(misc, "create_new_processor", None, "processor", "create_new_processor")),
        ("build_processors", copy_site_n(fit, "build_processors", None, "processor", "build_processors")),
        ("update_processor", copy_site_n(fit, "update_processor", "ModelFittingDataTree", "processor", "update_processor")),
    ]
    obs = parse(repo, R_OBS)
    mf = parse(repo, R_MF)
    return dict(proc_fields=c06.custom_copy(proc, "Processor"), group_fields=c06.custom_copy(grp, "ModelGroup"), sites=sites,
                guards=setter_guards(repo),
                exec_test=normalised_first(exec_flag_test, repo, R_GRP, grp, "__iter__", "ModelGroup"),
                validate_test=normalised_first(validate_flag_test, repo, R_OBS, obs, "validate_steps", "Observation"),
                passthrough=normalised_first(args_passthrough, repo, R_MF, mf, "__setattr__", "Arguments"))


# ------------------------------------------------------------------------------------------ readers of the enabled flag


def _flag_expr(e: ast.AST) -> bool:
    """an expression that reads a model's enabled flag: `<x>.enabled` or `<p>.get(<key>)` (`(n := <that>)` has its value)"""
    if isinstance(e, ast.NamedExpr):
        e = e.value
    if isinstance(e, ast.Attribute) and e.attr == "enabled":
        return True
    return (isinstance(e, ast.Call) and isinstance(e.func, ast.Attribute) and e.func.attr == "get"
            and len(e.args) == 1 and not e.keywords)


def _is_true(e: ast.AST) -> bool:
    return isinstance(e, ast.Constant) and e.value is True


def flag_test(e: ast.AST, where: str) -> str:
    """the test `e` applies to the flag, as a flagtest of Model/Keys.v (positive polarity)"""
    if _flag_expr(e):
        return "FTruthy"
    if isinstance(e, ast.Call) and isinstance(e.func, ast.Name) and e.func.id == "bool" and len(e.args) == 1 \
            and not e.keywords and _flag_expr(e.args[0]):
        return "FTruthy"
    if isinstance(e, ast.Compare) and len(e.ops) == 1 and _flag_expr(e.left) and _is_true(e.comparators[0]):
        if isinstance(e.ops[0], ast.Is):
            return "FIsTrue"
        if isinstance(e.ops[0], ast.Eq):
            return "FEqTrue"
    fail(e, f"{where}: test on the enabled flag of an unknown shape")


def neg_flag_test(e: ast.AST, where: str) -> str:
    """`e` is the condition under which the model is NOT enabled: not T / T is not True / T != True"""
    if isinstance(e, ast.UnaryOp) and isinstance(e.op, ast.Not):
        return flag_test(e.operand, where)
    if isinstance(e, ast.Compare) and len(e.ops) == 1 and _flag_expr(e.left) and _is_true(e.comparators[0]):
        if isinstance(e.ops[0], ast.IsNot):
            return "FIsTrue"
        if isinstance(e.ops[0], ast.NotEq):
            return "FEqTrue"
    fail(e, f"{where}: negated test on the enabled flag of an unknown shape")


def _self_models(e: ast.AST) -> bool:
    return isinstance(e, ast.Attribute) and e.attr == "models" and isinstance(e.value, ast.Name) and e.value.id == "self"


def exec_flag_test(fn: ast.FunctionDef) -> str:
    where = "ModelGroup.__iter__"
    body = body_no_doc(fn)
    if len(body) != 1:
        fail(fn, f"{where}: expected one statement")
    st = body[0]
    # return / yield from  (m for m in self.models if T)  |  iter([m for m in self.models if T])
    val = None
    if isinstance(st, ast.Return):
        val = st.value
    elif isinstance(st, ast.Expr) and isinstance(st.value, ast.YieldFrom):
        val = st.value.value
    if val is not None:
        if isinstance(val, ast.Call) and isinstance(val.func, ast.Name) and val.func.id == "iter" and len(val.args) == 1:
            val = val.args[0]
        # filter(lambda m: T, self.models)
        if isinstance(val, ast.Call) and isinstance(val.func, ast.Name) and val.func.id == "filter" and len(val.args) == 2 \
                and not val.keywords and _self_models(val.args[1]) and isinstance(val.args[0], ast.Lambda):
            la = val.args[0].args
            if len(la.args) == 1 and not (la.posonlyargs or la.kwonlyargs or la.vararg or la.kwarg or la.defaults):
                return flag_test(val.args[0].body, where)
        if isinstance(val, (ast.GeneratorExp, ast.ListComp)) and len(val.generators) == 1:
            g = val.generators[0]
            if _self_models(g.iter) and isinstance(g.target, ast.Name) and isinstance(val.elt, ast.Name) \
                    and val.elt.id == g.target.id and len(g.ifs) == 1:
                return flag_test(g.ifs[0], where)
        fail(st, f"{where}: unknown shape")
    if not (isinstance(st, ast.For) and _self_models(st.iter) and isinstance(st.target, ast.Name) and not st.orelse):
        fail(st, f"{where}: expected `for m in self.models:`")
    m = st.target.id

    def yields_m(x):
        return isinstance(x, ast.Expr) and isinstance(x.value, ast.Yield) and isinstance(x.value.value, ast.Name) \
            and x.value.value.id == m

    b = st.body
    if len(b) == 1 and isinstance(b[0], ast.If) and not b[0].orelse and len(b[0].body) == 1 and yields_m(b[0].body[0]):
        return flag_test(b[0].test, where)
    if len(b) == 2 and isinstance(b[0], ast.If) and not b[0].orelse and len(b[0].body) == 1 \
            and isinstance(b[0].body[0], ast.Continue) and yields_m(b[1]):
        return neg_flag_test(b[0].test, where)
    fail(st, f"{where}: unknown loop body")


def _reads_flag(test: ast.AST) -> bool:
    """the condition of an `if ...: raise` is about the enabled flag: it reads `<x>.enabled` / `<p>.get(<key>)`, or mentions
    the flag's name (in a string constant of the looked-up key or in a local's name)"""
    return any(_flag_expr(x) or (isinstance(x, ast.Constant) and isinstance(x.value, str) and "enabled" in x.value)
               or (isinstance(x, ast.Name) and "enabled" in x.id) for x in ast.walk(test))


def validate_flag_test(fn: ast.FunctionDef) -> str:
    where = "Observation.validate_steps"
    hits = []
    for n in ast.walk(fn):
        if isinstance(n, ast.If) and any(isinstance(x, ast.Raise) for x in n.body) and _reads_flag(n.test):
            hits.append(n)
    if len(hits) != 1:
        fail(fn if not hits else hits[1], f"{where}: expected exactly one `if <model not enabled>: raise`, found {len(hits)}")
    n = hits[0]
    if n.orelse or len(n.body) != 1:
        fail(n, f"{where}: the enabled check has an else branch / more than a raise")
    return neg_flag_test(n.test, where)


# ------------------------------------------------------------------------------------------ Arguments.__setattr__


def args_passthrough(fn: ast.FunctionDef) -> list[str]:
    where = "Arguments.__setattr__"
    if len(fn.args.args) != 3:
        fail(fn, f"{where}: expected (self, key, value)")
    me, key, value = (a.arg for a in fn.args.args)
    body = body_no_doc(fn)

    def is_raw_setattr(e):
        # super().__setattr__(key, value)  |  object.__setattr__(self, key, value)
        if not (isinstance(e, ast.Call) and isinstance(e.func, ast.Attribute) and e.func.attr == "__setattr__"):
            return False
        args = [ast.unparse(a) for a in e.args]
        f = ast.unparse(e.func.value)
        return (f == "super()" and args == [key, value]) or (f == "object" and args == [me, key, value])

    # a local bound ONCE, at the top level of the body, to `self._arguments` is the same dict object (the only statement that
    # re-binds the attribute is the raw __setattr__ arm, which returns): `args = self._arguments; ... args[key] = value`.
    # Only AFTER the raw arms: reading self._arguments before them fails while the constructor creates the attribute.
    counts = c06._binding_counts(fn)
    aliases = {st.targets[0].id for st in body
               if isinstance(st, ast.Assign) and len(st.targets) == 1 and isinstance(st.targets[0], ast.Name)
               and ast.unparse(st.value) == f"{me}._arguments" and counts.get(st.targets[0].id) == 1
               and st.targets[0].id not in (me, key, value)}

    def store(x):
        return ast.unparse(x) == f"{me}._arguments" or (isinstance(x, ast.Name) and x.id in aliases)

    names: list[str] = []
    i = 0
    # 1. any number of `if key == "<name>" / key in (...): <raw setattr>; return`
    while i < len(body) and isinstance(body[i], ast.If) and not body[i].orelse:
        st = body[i]
        b = st.body
        raw = (len(b) == 2 and isinstance(b[0], ast.Expr) and is_raw_setattr(b[0].value) and isinstance(b[1], ast.Return)
               and b[1].value is None) or (len(b) == 1 and isinstance(b[0], ast.Return) and b[0].value is not None
                                           and is_raw_setattr(b[0].value))
        if not raw:
            break
        t = st.test
        if isinstance(t, ast.Compare) and len(t.ops) == 1 and isinstance(t.left, ast.Name) and t.left.id == key:
            c = t.comparators[0]
            if isinstance(t.ops[0], ast.Eq) and isinstance(c, ast.Constant) and isinstance(c.value, str):
                names.append(c.value)
                i += 1
                continue
            if isinstance(t.ops[0], ast.In) and isinstance(c, (ast.Tuple, ast.List, ast.Set)) \
                    and all(isinstance(x, ast.Constant) and isinstance(x.value, str) for x in c.elts):
                names += [x.value for x in c.elts]
                i += 1
                continue
        fail(t, f"{where}: names handed to the unmodified __setattr__ are not a list of constants")
    rest = [st for st in body[i:] if not (isinstance(st, ast.Assign) and len(st.targets) == 1
                                          and isinstance(st.targets[0], ast.Name) and st.targets[0].id in aliases)]
    # 2. `if key not in self._arguments: raise AttributeError(...)`   3. `self._arguments[key] = value`
    ok = (len(rest) == 2 and isinstance(rest[0], ast.If) and not rest[0].orelse and len(rest[0].body) == 1
          and isinstance(rest[0].body[0], ast.Raise) and "AttributeError" in ast.unparse(rest[0].body[0])
          and isinstance(rest[0].test, ast.Compare) and len(rest[0].test.ops) == 1
          and isinstance(rest[0].test.ops[0], ast.NotIn) and ast.unparse(rest[0].test.left) == key
          and store(rest[0].test.comparators[0])
          and isinstance(rest[1], ast.Assign) and len(rest[1].targets) == 1
          and isinstance(rest[1].targets[0], ast.Subscript) and store(rest[1].targets[0].value)
          and ast.unparse(rest[1].targets[0].slice) == key and ast.unparse(rest[1].value) == value)
    if not ok:
        fail(rest[0] if rest else fn, f"{where}: expected `if key not in self._arguments: raise AttributeError` then "
                                      f"`self._arguments[key] = value`")
    return names


def _bound(q):
    n, d = q
    if d != 1:
        raise TranslationError(f"setter guard with a non-integer bound {n}/{d}")
    return n


def guard_of_acc(g: "c12.GuardAcc", where: str) -> str:
    """GuardAcc of translator/c12.py -> Gallina `guard` of Model/Keys.v (GAny | GRange lo hi ls hs | GAbove lo ls)."""
    if not g.clauses:
        return "GAny"
    if not (g.pre in (None, "PAlways") or (g.pre == "PIsNumber" and g.else_reject)):
        raise TranslationError(f"{where}: guard under precondition {g.pre} (else-reject={g.else_reject})")
    if [k for k, _ in g.clauses] == ["RaiseUnlessLen"] and g.pre in (None, "PAlways"):
        return f"(GLen ({int(g.clauses[0][1])}))"      # `if [not isinstance(v, Sequence): raise;] if len(v) != n: raise`
    lo = hi = None   # (bound, strict)
    for kind, arg in g.clauses:
        if kind == "RaiseUnlessAll":      # accepted iff every atom holds
            for op, q in arg:
                b = _bound(q)
                if op in ("OGe", "OGt"):
                    cand, which = (b, op == "OGt"), "lo"
                else:
                    cand, which = (b, op == "OLt"), "hi"
                if which == "lo":
                    lo = cand if lo is None or cand > lo else lo
                else:
                    hi = cand if hi is None or cand < hi else hi
        elif kind == "RaiseIfAny":        # refused iff some atom holds
            for op, q in arg:
                b = _bound(q)
                if op in ("OLt", "OLe"):   # v < b refused -> v >= b ; v <= b refused -> v > b
                    cand = (b, op == "OLe")
                    lo = cand if lo is None or cand > lo else lo
                else:                       # v > b refused -> v <= b ; v >= b refused -> v < b
                    cand = (b, op == "OGe")
                    hi = cand if hi is None or cand < hi else hi
        else:
            raise TranslationError(f"{where}: unsupported setter clause {kind}")
    tf = lambda x: "true" if x else "false"  # noqa: E731
    if lo is not None and hi is not None:
        return f"(GRange ({lo[0]}) ({hi[0]}) {tf(lo[1])} {tf(hi[1])})"
    if lo is not None:
        return f"(GAbove ({lo[0]}) {tf(lo[1])})"
    raise TranslationError(f"{where}: guard with an upper bound only")


def _setter_guard(repo: Path, rel: str, tree, fn: ast.FunctionDef, cname: str) -> str:
    """the guard of one property setter, read from the setter normalised exactly as translator/c12.py normalises it before
    its own `walk_guards` (c12_norm: private helpers / `self._check(v)` methods inlined, aliases of the value, module- and
    class-level bounds, match, guard clauses); the setter as written is the second try, as in `normalised_first`"""
    def read(f):
        v = f.args.args[1].arg
        acc = {v: c12.GuardAcc()}
        c12.walk_guards(body_no_doc(f), [v], acc, {})
        return guard_of_acc(acc[v], f"{cname}.{f.name}")

    norm = c12_norm.normalize(repo, rel, tree, fn, cname)
    try:
        return read(norm)
    except TranslationError as first:
        if norm is fn:
            raise
        try:
            return read(fn)
        except TranslationError:
            raise first from None


def setter_guards(repo: Path):
    rows = []
    for rel, cname, _ in c12.CLASSES:
        tree = parse(repo, rel)
        cn = c12.class_node(tree, cname)
        seen = set()
        for fn in cn.body:
            if not isinstance(fn, ast.FunctionDef):
                continue
            decs = [ast.unparse(d) for d in fn.decorator_list]
            if any(d.endswith(".setter") for d in decs):
                if decs != [f"{fn.name}.setter"] or len(fn.args.args) != 2 or fn.name in seen:
                    c12.fail(fn, "setter shape")
                seen.add(fn.name)
                rows.append((cname, fn.name, _setter_guard(repo, rel, tree, fn, cname)))
    for rel, cname in c12.GEOMETRY_SUBCLASSES:
        c12.check_plain_subclass(repo, rel, cname)
    return rows


def render(d: dict) -> str:
    def tbl(rows):
        return "[" + "; ".join(f'("{n}", {m})' for n, m in rows) + "]"
    return (HEADER + PRELUDE +
            f"Definition src_copy_policy : cpolicy := mkCPolicy {tbl(d['proc_fields'])} {tbl(d['group_fields'])}.\n"
            f"Definition src_copy_sites : list (string * cmode) := {tbl(d['sites'])}.\n"
            "Definition src_setter_guards : list (string * string * guard) := [\n"
            + ";\n".join(f'  ("{c}", "{f}", {g})' for c, f, g in d["guards"]) + "\n].\n"
            f"Definition src_exec_flag_test : flagtest := {d['exec_test']}.\n"
            f"Definition src_validate_flag_test : flagtest := {d['validate_test']}.\n"
            "Definition src_args_passthrough : list string := [" + "; ".join(f'"{n}"' for n in d["passthrough"]) + "].\n")


def translate(repo: Path) -> str:
    return render(extract(repo))


FALLBACK_DATA = dict(
    exec_test="FTruthy", validate_test="FTruthy", passthrough=["_arguments"],
    proc_fields=[("detector", "Deep"), ("pipeline", "Deep"), ("observation", "Deep")],
    group_fields=[("models", "Deep")],
    sites=[(s, "Deep") for s in ("replace", "create_new_processor", "build_processors", "update_processor")],
    guards=[
        ("Geometry", "row", "(GAbove (0) true)"), ("Geometry", "col", "(GAbove (0) true)"),
        ("Geometry", "total_thickness", "(GRange (0) (10000) false false)"),
        ("Geometry", "pixel_vert_size", "(GRange (0) (1000) false false)"),
        ("Geometry", "pixel_horz_size", "(GRange (0) (1000) false false)"),
        ("Geometry", "pixel_scale", "(GRange (0) (1000) false false)"),
        ("Characteristics", "quantum_efficiency", "(GRange (0) (1) false false)"),
        ("Characteristics", "charge_to_volt_conversion", "(GRange (0) (100) false false)"),
        ("Characteristics", "pre_amplification", "(GRange (0) (10000) false false)"),
        ("Characteristics", "adc_bit_resolution", "(GRange (4) (64) false false)"),
        ("Characteristics", "adc_voltage_range", "(GLen (2))"),
        ("Characteristics", "full_well_capacity", "(GRange (0) (10000000) false false)"),
        ("Environment", "temperature", "(GRange (0) (1000) true false)"), ("Environment", "wavelength", "(GAbove (0) true)"),
        ("APDCharacteristics", "quantum_efficiency", "(GRange (0) (1) false false)"),
        ("APDCharacteristics", "avalanche_gain", "(GRange (1) (1000) false false)"),
        ("APDCharacteristics", "pixel_reset_voltage", "GAny"), ("APDCharacteristics", "common_voltage", "GAny"),
        ("APDCharacteristics", "adc_bit_resolution", "(GRange (4) (64) false false)"),
        ("APDCharacteristics", "adc_voltage_range", "(GLen (2))"),
        ("APDCharacteristics", "full_well_capacity", "(GRange (0) (10000000) false false)"),
    ],
)
FALLBACK = render(FALLBACK_DATA)
