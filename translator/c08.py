"""C08: what the source says about (a) how a processor is copied before keys are assigned on the copy.

Extracted (fail closed on every other shape; the recognisers are those of translator/c06.py, imported, not edited):
  * Processor.__deepcopy__ : one `return Processor(kw=expr, ...)`; per constructor keyword the attribute it feeds and
    Deep (`deepcopy(self.attr[, memo])`) / Alias (`self.attr`, `copy(self.attr)`)          -> pol_root
  * ModelGroup.__deepcopy__: simple assignments + `return ModelGroup(kw=expr, ...)`          -> pol_group
  * no other class under pyxel/{pipelines,detectors,data_structure,exposure,observation} defines a copy / pickle hook
    (everything else is CPython's default deep copy)
  * the entry points that assign on a copy — Processor.replace, create_new_processor, build_processors,
    ModelFittingDataTree.update_processor: exactly one `v = deepcopy(<param>)`, every `.set(...)` on `v`, `v` returned
    or stored                                                                                 -> src_copy_sites
"""
from __future__ import annotations

from pathlib import Path

from . import c06
from .common import HEADER, find_func, parse

PRELUDE = ("From Coq Require Import ZArith List String.\nFrom PyxelV Require Import Model.Keys Model.KeysWorld.\n"
           "Import ListNotations.\nOpen Scope string_scope.\n")


def extract(repo: Path) -> dict:
    repo = Path(repo)
    proc = parse(repo, "pyxel/pipelines/processor.py")
    grp = parse(repo, "pyxel/pipelines/model_group.py")
    misc = parse(repo, "pyxel/observation/misc.py")
    fit = parse(repo, "pyxel/calibration/fitting_datatree.py")
    c06.scan_hooks(repo)
    sites = [
        ("replace", c06.copy_site(find_func(proc, "replace", "Processor"), "self", "Processor.replace")),
        ("create_new_processor", c06.copy_site(find_func(misc, "create_new_processor"), "processor", "create_new_processor")),
        ("build_processors", c06.copy_site(find_func(fit, "build_processors"), "processor", "build_processors")),
        ("update_processor", c06.copy_site(find_func(fit, "update_processor", "ModelFittingDataTree"), "processor",
                                           "update_processor")),
    ]
    return dict(proc_fields=c06.custom_copy(proc, "Processor"), group_fields=c06.custom_copy(grp, "ModelGroup"), sites=sites)


def render(d: dict) -> str:
    def tbl(rows):
        return "[" + "; ".join(f'("{n}", {m})' for n, m in rows) + "]"
    return (HEADER + PRELUDE +
            f"Definition src_copy_policy : cpolicy := mkCPolicy {tbl(d['proc_fields'])} {tbl(d['group_fields'])}.\n"
            f"Definition src_copy_sites : list (string * cmode) := {tbl(d['sites'])}.\n")


def translate(repo: Path) -> str:
    return render(extract(repo))


FALLBACK_DATA = dict(
    proc_fields=[("detector", "Deep"), ("pipeline", "Deep"), ("observation", "Deep")],
    group_fields=[("models", "Deep")],
    sites=[(s, "Deep") for s in ("replace", "create_new_processor", "build_processors", "update_processor")],
)
FALLBACK = render(FALLBACK_DATA)
