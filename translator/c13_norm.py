"""C13 translator front end: behaviour-preserving normalisations of a small Python function.

`normalize(fn, module, scopes, ...)` returns a FunctionDef whose body is a canonical statement list, so that the
shape matchers of translator/c13.py read the same table from every member of a class of equivalent spellings:

  (a) calls to private helpers (`self._name(...)` defined in the class / its listed bases, `_name(...)` defined at module
      level or imported by name from another module of the same code base -- then read in that module's vocabulary:
      its constants, its private helpers, and only if every imported name it uses is imported identically here; positional,
      keyword and keyword-only parameters, defaults) are inlined: as a statement, as the value of an assignment / return, or -- single-`return <expr>` helpers --
      inside an expression;
  (b) local aliases `x = <cheap pure expression>` (names, attribute chains, constants, tuples, isinstance / is / == / in
      tests of those) are substituted into their uses along every path; an alias that is USED after a statement that
      may have changed what it reads (a store to an attribute / subscript, an in-place operation, an unknown call, a
      re-binding of a name it mentions) is NOT substituted: the translation fails closed;
  (c) control flow is expanded into a decision tree (every path ends in return / raise) and rendered back in one
      canonical way, so guard clauses / early returns == nested if/else == if/elif chains; `not` / `is not` / `!=` /
      `not in` tests are turned positive with swapped branches; `else` after a terminating branch disappears;
  (d) `a is b is None` == `a is None and b is None`; `a <= x <= b` == `a <= x and x <= b` (x a cheap pure expression);
      `not (x is not y)` == `x is y`; De Morgan on tests whose operands are ALL negated (short-circuit order is the same);
  (e) `match` on literals / class patterns == if/elif on `==` / isinstance; a capture (`case x:`, `case Cls() as x:`) is a
      local alias of the subject, treated like any other alias (b);
  (g) names bound once at module level to a literal (constant / tuple of constants) are replaced by the literal;
  (h) docstrings, annotations, `pass`, function-level imports, logging calls, the arguments of `raise X(...)` and of
      `warnings.warn(...)` are dropped; locals assigned just before a `raise` (message building) are dropped; remaining
      locals are renamed _v1, _v2, ... in order of appearance;
  (i) `x = a if c else b` / `return a if c else b` == if/else; `if (x := E) ...:` == `x = E; if x ...:` when the walrus is
      the first thing the test evaluates.

Loops, try, with are kept as opaque statements (a `return` inside one fails closed).  Nothing here looks at message text.
"""
from __future__ import annotations

import ast
import copy

from harness.core import TranslationError

from .common import fail

PURE_FUNCS = {"isinstance", "len", "type", "str", "repr", "bool", "int", "float", "tuple", "list", "map", "sorted",
              "np.any", "np.all", "np.array_equal", "np.asarray", "np.copy", "np.array", "np.clip", "np.zeros",
              "np.dtype", "np.shape", "np.ndim", "warnings.warn", "id", "hasattr", "getattr", "issubclass", "super"}
PURE_METHODS = {"copy", "clip", "equals", "join", "items", "keys", "values", "any", "all", "astype", "format"}
LOG_ROOTS = {"logging", "logger", "log", "_logger", "_log", "LOGGER"}
NEGATE = {ast.Is: ast.IsNot, ast.IsNot: ast.Is, ast.Eq: ast.NotEq, ast.NotEq: ast.Eq, ast.In: ast.NotIn, ast.NotIn: ast.In}
NEGATIVE_OPS = (ast.IsNot, ast.NotEq, ast.NotIn)
MAX_DEPTH = 4


def dump(n) -> str:
    return ast.dump(n) if isinstance(n, ast.AST) else repr(n)


# --------------------------------------------------------------------------------------------------- expressions


def dotted(e) -> str | None:
    if isinstance(e, ast.Name):
        return e.id
    if isinstance(e, ast.Attribute):
        b = dotted(e.value)
        return None if b is None else b + "." + e.attr
    return None


def is_cheap(e) -> bool:
    """Expressions that may be duplicated / moved: evaluating them has no effect and costs nothing."""
    if isinstance(e, (ast.Name, ast.Constant)):
        return True
    if isinstance(e, ast.Attribute):
        return is_cheap(e.value)
    if isinstance(e, ast.Tuple):
        return all(is_cheap(x) for x in e.elts)
    if isinstance(e, ast.Subscript):
        return is_cheap(e.value) and isinstance(e.slice, ast.Constant)
    if isinstance(e, ast.UnaryOp) and isinstance(e.op, ast.Not):
        return is_cheap(e.operand)
    if isinstance(e, ast.BoolOp):
        return all(is_cheap(x) for x in e.values)
    if isinstance(e, ast.Compare):
        return is_cheap(e.left) and all(is_cheap(x) for x in e.comparators) and \
            all(isinstance(o, (ast.Is, ast.IsNot, ast.Eq, ast.NotEq, ast.In, ast.NotIn)) for o in e.ops)
    if isinstance(e, ast.Call):
        return (dotted(e.func) in ("isinstance", "len", "type") and not e.keywords
                and all(is_cheap(a) for a in e.args))
    return False


def names_in(e) -> set:
    return {n.id for n in ast.walk(e) if isinstance(n, ast.Name)}


def call_is_pure(c: ast.Call) -> bool:
    d = dotted(c.func)
    if d in PURE_FUNCS:
        return True
    if isinstance(c.func, ast.Attribute) and c.func.attr in PURE_METHODS:
        return True
    return False


def expr_writes(e) -> bool:
    """May evaluating this expression change an object (conservative)?"""
    for n in ast.walk(e):
        if isinstance(n, ast.Call) and not call_is_pure(n):
            return True
        if isinstance(n, (ast.NamedExpr, ast.Await, ast.Yield, ast.YieldFrom)):
            return True
    return False


def reads_heap(e, stable_roots: set) -> bool:
    for n in ast.walk(e):
        if isinstance(n, ast.Subscript):
            return True
        if isinstance(n, ast.Attribute):
            d = dotted(n)
            if d is None or d.split(".")[0] not in stable_roots:
                return True
    return False


def may_raise(e, stable_roots: set) -> bool:
    """May evaluating this cheap expression raise?  Private / UPPER-CASE attributes (data fields, class constants) and
    attributes of imported modules are taken as always present; public attributes (properties), subscripts, `in`, len()
    may raise."""
    if isinstance(e, (ast.Name, ast.Constant)):
        return False
    if isinstance(e, ast.Attribute):
        d = dotted(e)
        if d is not None and d.split(".")[0] in stable_roots:
            return False
        return may_raise(e.value, stable_roots) or not (e.attr.startswith("_") or e.attr.isupper())
    if isinstance(e, ast.Tuple):
        return any(may_raise(x, stable_roots) for x in e.elts)
    if isinstance(e, ast.UnaryOp):
        return may_raise(e.operand, stable_roots)
    if isinstance(e, ast.BoolOp):
        return any(may_raise(x, stable_roots) for x in e.values)
    if isinstance(e, ast.Compare):
        if any(isinstance(o, (ast.In, ast.NotIn)) for o in e.ops):
            return True
        return may_raise(e.left, stable_roots) or any(may_raise(x, stable_roots) for x in e.comparators)
    if isinstance(e, ast.Call) and dotted(e.func) in ("isinstance", "type"):
        return any(may_raise(a, stable_roots) for a in e.args)
    return True


def uncond_loads(node) -> set:
    """Names certainly evaluated when `node` (expression or simple statement) is evaluated"""
    out = set()

    def go(n):
        if n is None:
            return
        if isinstance(n, ast.Name):
            if isinstance(n.ctx, ast.Load):
                out.add(n.id)
        elif isinstance(n, ast.BoolOp):
            go(n.values[0])
        elif isinstance(n, ast.IfExp):
            go(n.test)
        elif isinstance(n, ast.Compare):
            go(n.left)
            go(n.comparators[0])
        elif isinstance(n, (ast.Lambda, ast.ListComp, ast.SetComp, ast.DictComp, ast.GeneratorExp)):
            return
        elif isinstance(n, (ast.If, ast.For, ast.While, ast.Try, ast.With, ast.FunctionDef, ast.ClassDef, ast.Match)):
            return
        else:
            for c in ast.iter_child_nodes(n):
                go(c)

    go(node)
    return out


def negate(e):
    if isinstance(e, ast.UnaryOp) and isinstance(e.op, ast.Not):
        return e.operand
    if isinstance(e, ast.Compare) and len(e.ops) == 1 and type(e.ops[0]) in NEGATE:
        return ast.Compare(left=e.left, ops=[NEGATE[type(e.ops[0])]()], comparators=e.comparators)
    return ast.UnaryOp(op=ast.Not(), operand=e)


def is_negative(e) -> bool:
    return ((isinstance(e, ast.UnaryOp) and isinstance(e.op, ast.Not))
            or (isinstance(e, ast.Compare) and len(e.ops) == 1 and isinstance(e.ops[0], NEGATIVE_OPS)))


class _Simplify(ast.NodeTransformer):
    def visit_UnaryOp(self, node):
        self.generic_visit(node)
        if isinstance(node.op, ast.Not):
            o = node.operand
            if isinstance(o, ast.UnaryOp) and isinstance(o.op, ast.Not):
                return o.operand
            if isinstance(o, ast.Compare) and len(o.ops) == 1 and type(o.ops[0]) in NEGATE:
                return negate(o)
        return node

    def visit_Compare(self, node):
        self.generic_visit(node)
        if len(node.ops) < 2:
            return node
        terms = [node.left] + list(node.comparators)
        if (all(isinstance(o, ast.Is) for o in node.ops) and isinstance(terms[-1], ast.Constant)
                and terms[-1].value is None and all(is_cheap(t) for t in terms[:-1])):
            # a is b is None  ==  a is None and b is None
            return ast.BoolOp(op=ast.And(), values=[
                ast.Compare(left=t, ops=[ast.Is()], comparators=[ast.Constant(value=None)]) for t in terms[:-1]])
        if all(is_cheap(t) for t in terms[1:-1]):
            return ast.BoolOp(op=ast.And(), values=[
                ast.Compare(left=copy.deepcopy(terms[i]), ops=[node.ops[i]], comparators=[copy.deepcopy(terms[i + 1])])
                for i in range(len(node.ops))])
        return node

    def visit_BoolOp(self, node):
        self.generic_visit(node)
        vals = []
        for v in node.values:
            if isinstance(v, ast.BoolOp) and type(v.op) is type(node.op):
                vals += v.values
            else:
                vals.append(v)
        node.values = vals
        return node


def simplify(e):
    return _Simplify().visit(copy.deepcopy(e))


def canon_test(e):
    """-> (positive test, flipped?)"""
    e = simplify(e)
    if is_negative(e):
        return simplify(negate(e)), True
    if isinstance(e, ast.BoolOp) and all(is_negative(v) for v in e.values):
        dual = ast.Or() if isinstance(e.op, ast.And) else ast.And()
        return simplify(ast.BoolOp(op=dual, values=[negate(v) for v in e.values])), True
    return e, False


# --------------------------------------------------------------------------------------------------- cleaning


class _StripMessages(ast.NodeTransformer):
    def visit_Raise(self, node):
        if isinstance(node.exc, ast.Call):
            return ast.Raise(exc=ast.Call(func=node.exc.func, args=[], keywords=[]), cause=None)
        if isinstance(node.exc, (ast.Name, ast.Attribute)):
            return ast.Raise(exc=ast.Call(func=node.exc, args=[], keywords=[]), cause=None)     # raise X == raise X()
        return ast.Raise(exc=node.exc, cause=None)

    def visit_Call(self, node):
        self.generic_visit(node)
        if dotted(node.func) == "warnings.warn":
            return ast.Call(func=node.func, args=[], keywords=[])
        return node


def is_log_call(st) -> bool:
    if not (isinstance(st, ast.Expr) and isinstance(st.value, ast.Call)):
        return False
    d = dotted(st.value.func)
    return d is not None and (d.split(".")[0] in LOG_ROOTS or d == "print")


def clean(stmts: list) -> list:
    out = []
    for st in stmts:
        if isinstance(st, ast.Expr) and isinstance(st.value, ast.Constant):
            continue                                  # docstring / stray literal
        if isinstance(st, (ast.Pass, ast.Import, ast.ImportFrom)) or is_log_call(st):
            continue
        if isinstance(st, ast.AnnAssign):
            if st.value is None:
                continue
            st = ast.Assign(targets=[st.target], value=st.value)
        st = _StripMessages().visit(copy.deepcopy(st))
        if (isinstance(st, ast.Assign) and len(st.targets) == 1 and isinstance(st.targets[0], ast.Tuple)
                and isinstance(st.value, ast.Tuple) and len(st.value.elts) == len(st.targets[0].elts)
                and all(isinstance(t, ast.Name) for t in st.targets[0].elts) and all(is_cheap(v) for v in st.value.elts)
                and not ({t.id for t in st.targets[0].elts} & names_in(st.value))
                and len({t.id for t in st.targets[0].elts}) == len(st.targets[0].elts)):
            # a, b = x, y  (cheap values that do not mention a or b)  ==  a = x; b = y
            out += [ast.Assign(targets=[t], value=v) for t, v in zip(st.targets[0].elts, st.value.elts)]
            continue
        for fld in ("body", "orelse", "finalbody"):
            if isinstance(getattr(st, fld, None), list) and not isinstance(st, (ast.FunctionDef, ast.ClassDef, ast.Lambda)):
                setattr(st, fld, clean(getattr(st, fld)))
        if isinstance(st, ast.Try):
            for h in st.handlers:
                h.body = clean(h.body)
        if isinstance(st, ast.Match):
            for c in st.cases:
                c.body = clean(c.body)
        out.append(st)
    return out


# --------------------------------------------------------------------------------------------------- decision tree


class Blk:
    """stmts followed by a terminal: ("ret", expr|None) | ("raise", stmt) | ("if", test, Blk, Blk)"""

    def __init__(self, stmts, term):
        self.stmts, self.term = stmts, term


def prepend(st, b: Blk) -> Blk:
    return Blk([st] + b.stmts, b.term)


class _Rename(ast.NodeTransformer):
    def __init__(self, names: dict, exprs: dict):
        self.names, self.exprs = names, exprs

    def visit_Name(self, node):
        if node.id in self.exprs and isinstance(node.ctx, ast.Load):
            return copy.deepcopy(self.exprs[node.id])
        if node.id in self.names:
            return ast.Name(id=self.names[node.id], ctx=node.ctx)
        return node


def stored_names(node) -> set:
    out = set()
    for n in ast.walk(node):
        if isinstance(n, ast.Name) and isinstance(n.ctx, (ast.Store, ast.Del)):
            out.add(n.id)
    return out


def comp_names(node) -> set:
    out = set()
    for n in ast.walk(node):
        if isinstance(n, ast.comprehension):
            out |= {m.id for m in ast.walk(n.target) if isinstance(m, ast.Name)}
        if isinstance(n, ast.Lambda):
            out |= {a.arg for a in n.args.args}
    return out


class Ctx:
    """`module`: the module whose names the statements being expanded see (changes while the body of a helper that lives
    in another module is expanded); `top`: the module of the function being normalised; `loader`: dotted module name ->
    ast.Module | None (with `_modname` / `_is_pkg` set), used to follow `from package.module import _helper`."""

    def __init__(self, module, scopes, keep, ret, depth=0, stack=(), loader=None, top=None):
        self.module, self.scopes, self.keep = module, scopes, keep
        self.ret, self.depth, self.stack = ret, depth, stack
        self.loader, self.top = loader, (top if top is not None else module)
        self.counter = [0]
        self.inlined = set()

    def child(self, ret, name, module=None):
        c = Ctx(module if module is not None else self.module, self.scopes, self.keep, ret, self.depth + 1,
                self.stack + (name,), self.loader, self.top)
        c.counter = self.counter
        c.inlined = self.inlined
        c.inlined.add(name)
        return c


def import_bindings(module: ast.Module) -> dict:
    """local name -> set of (module, attribute | None, level) it is bound to by an import anywhere in the module"""
    cached = getattr(module, "_import_bindings", None)
    if cached is not None:
        return cached
    out: dict = {}
    for n in ast.walk(module):
        if isinstance(n, ast.Import):
            for a in n.names:
                if a.asname:
                    out.setdefault(a.asname, set()).add((a.name, None, 0))
                else:
                    out.setdefault(a.name.split(".")[0], set()).add((a.name.split(".")[0], None, 0))
        elif isinstance(n, ast.ImportFrom):
            for a in n.names:
                out.setdefault(a.asname or a.name, set()).add((n.module or "", a.name, n.level))
    module._import_bindings = out
    return out


def module_level_names(module: ast.Module) -> set:
    out = set()
    for st in module.body:
        if isinstance(st, (ast.FunctionDef, ast.ClassDef, ast.AsyncFunctionDef)):
            out.add(st.name)
        else:
            out |= stored_names(st)
    return out


def resolve_import(module: ast.Module, nm: str, loader, hops=2):
    """A private function imported by name from a module of the same code base -> (FunctionDef, its module) | None"""
    if loader is None:
        return None
    targets = import_bindings(module).get(nm)
    if not targets or len(targets) != 1 or nm in module_level_names(module):
        return None
    mod, attr, level = next(iter(targets))
    if attr is None:
        return None
    if level:
        here = getattr(module, "_modname", None)
        if here is None:
            return None
        parts = here.split(".")
        if not getattr(module, "_is_pkg", False):
            parts = parts[:-1]
        if level - 1 > len(parts):
            return None
        parts = parts[:len(parts) - (level - 1)]
        mod = ".".join(parts + ([mod] if mod else []))
    other = loader(mod)
    if other is None:
        return None
    c = [n for n in other.body if isinstance(n, ast.FunctionDef) and n.name == attr]
    if len(c) == 1 and attr not in {x for st in other.body if not isinstance(st, (ast.FunctionDef, ast.ClassDef))
                                    for x in stored_names(st)}:
        return c[0], other
    if not c and hops > 0:
        return resolve_import(other, attr, loader, hops - 1)     # re-exported (`from .array import _helper`)
    return None


def same_globals(helper: ast.FunctionDef, home: ast.Module, top: ast.Module) -> bool:
    """The body of a helper that lives in another module is read in the vocabulary of the function it is inlined into:
    every name it takes from an import of its own module must be imported in exactly the same way there, and a name it
    takes from a definition of its own module must not mean something else there.  (Private functions are followed in
    the helper's own module, literal constants are substituted from there.)"""
    if home is top:
        return True
    hb, tb = import_bindings(home), import_bindings(top)
    local = stored_names(helper) | {x.arg for x in helper.args.args + helper.args.kwonlyargs}
    defined, consts = module_level_names(home), module_constants(home)
    for nm in names_in(helper) - local:
        if nm.startswith("_") and not nm.startswith("__") and (nm in hb or nm in defined):
            continue
        if nm in consts:
            continue
        if nm in hb:
            if len(hb[nm]) != 1 or tb.get(nm) != hb[nm]:
                return False
        elif nm in defined and (nm in tb or nm in module_level_names(top)):
            return False
    return True


def plain_decorators(fn) -> bool:
    """no decorator, or only typing's no-op `@override`"""
    return all(dotted(d) in ("override", "typing.override", "typing_extensions.override") for d in fn.decorator_list)


def is_message_only(fn: ast.FunctionDef, module: ast.Module | None = None, scopes=(), loader=None, _ctx=None) -> bool:
    """a helper that only builds and returns text (its result can only end up in a message): constants, f-strings over
    effect-free expressions, cheap expressions, and calls to private helpers of the code base that are message-only
    themselves (followed like any other private helper: same class, same module, `from package.module import _helper`)"""
    ctx = _ctx
    if ctx is None and module is not None:
        ctx = Ctx(module, list(scopes), set(), None, loader=loader)

    def text(v) -> bool:
        if isinstance(v, ast.Constant) or (is_cheap(v) and not may_raise(v, set())):
            return True
        if isinstance(v, ast.JoinedStr):
            return not expr_writes(v)
        if isinstance(v, ast.BinOp) and isinstance(v.op, (ast.Add, ast.Mod)):
            return text(v.left) and text(v.right)           # concatenation / %-formatting of text
        if isinstance(v, ast.Call) and ctx is not None and ctx.depth < MAX_DEPTH:
            h = find_helper(v, ctx)
            if h is None or any(isinstance(x, ast.Starred) for x in v.args) or any(k.arg is None for k in v.keywords):
                return False
            if not all(text(x) for x in list(v.args) + [k.value for k in v.keywords]):
                return False
            return is_message_only(h[0], _ctx=ctx.child(None, h[0].name, home_of(h[0], ctx)))
        return False

    for st in clean(fn.body):
        if isinstance(st, ast.Assign) and all(isinstance(t, ast.Name) for t in st.targets) and text(st.value):
            continue
        if isinstance(st, ast.Return) and (st.value is None or text(st.value)):
            continue
        return False
    return True


def find_helper(call: ast.Call, ctx: Ctx):
    """-> (FunctionDef, is_method) for a call to a private helper of the same class / module / code base, else None.
    The module the helper's body must be read in is left in `FunctionDef._home`."""
    f = call.func
    if isinstance(f, ast.Attribute) and isinstance(f.value, ast.Name) and f.value.id == "self":
        nm = f.attr
        if not nm.startswith("_") or nm in ctx.keep or nm in ctx.stack:
            return None
        for cls in ctx.scopes:
            c = [n for n in cls.body if isinstance(n, ast.FunctionDef) and n.name == nm]
            home = getattr(cls, "_home", None)
            if len(c) == 1 and home is not None and not same_globals(c[0], home, ctx.top):
                return None
            if len(c) == 1 and plain_decorators(c[0]):
                c[0]._home = home
                return c[0], True
            if len(c) == 1 and [dotted(d) for d in c[0].decorator_list] == ["staticmethod"]:
                c[0]._home = home
                return c[0], False
            if c:
                return None
        return None
    if isinstance(f, ast.Name):
        nm = f.id
        if not nm.startswith("_") or nm.startswith("__") or nm in ctx.keep or nm in ctx.stack:
            return None
        c = [n for n in ctx.module.body if isinstance(n, ast.FunctionDef) and n.name == nm]
        if len(c) == 1 and plain_decorators(c[0]):
            c[0]._home = ctx.module
            return (c[0], False) if same_globals(c[0], ctx.module, ctx.top) else None
        if not c:
            r = resolve_import(ctx.module, nm, ctx.loader)
            if r is not None and plain_decorators(r[0]) and same_globals(r[0], r[1], ctx.top):
                r[0]._home = r[1]
                return r[0], False
    return None


def home_of(helper, ctx: Ctx):
    return getattr(helper, "_home", None) or ctx.module


def bind_helper(call: ast.Call, helper: ast.FunctionDef, is_method: bool, ctx: Ctx):
    """The helper's cleaned body with its parameters bound to the call's arguments and its locals renamed apart.
    -> list of statements, or None when the call cannot be matched to the signature (left alone: fails closed later)."""
    a = helper.args
    if a.vararg or a.kwarg or a.posonlyargs:
        return None
    params = [x.arg for x in a.args]
    if is_method:
        if not params:
            return None
        params = params[1:]
        self_name = a.args[0].arg
    if len(call.args) > len(params) or any(isinstance(x, ast.Starred) for x in call.args):
        return None
    given = dict(zip(params, call.args))
    kwonly = [x.arg for x in a.kwonlyargs]              # `def f(x, *, name)`: bound by keyword only
    for kw in call.keywords:
        if kw.arg is None or kw.arg not in params + kwonly or kw.arg in given:
            return None
        given[kw.arg] = kw.value
    defaults = dict(zip(params[len(params) - len(a.defaults):], a.defaults)) if a.defaults else {}
    defaults.update({x.arg: d for x, d in zip(a.kwonlyargs, a.kw_defaults) if d is not None})
    # binding order = evaluation order at the call: positional arguments, then keywords in the order written
    order = {id(v): i for i, v in enumerate(list(call.args) + [k.value for k in call.keywords])}
    params = sorted(params + kwonly, key=lambda p: order.get(id(given.get(p)), len(order)))
    for p in params:
        if p not in given:
            if p not in defaults:
                return None
            given[p] = defaults[p]
    body = clean(helper.body)
    ctx.counter[0] += 1
    tag = f"_h{ctx.counter[0]}_"
    stored = set()
    for st in body:
        stored |= stored_names(st)
    consts = {k: v for k, v in module_constants(home_of(helper, ctx)).items()
              if k not in stored and k not in params + kwonly and not (is_method and k == self_name)}
    if consts:
        body = [_Rename({}, consts).visit(copy.deepcopy(st)) for st in body]
    names = {n: tag + n for n in stored}
    exprs, pre = {}, []
    if is_method and self_name != "self":
        names[self_name] = "self"
    for p in params:
        arg = given[p]
        if p not in stored and isinstance(arg, (ast.Name, ast.Constant)):
            exprs[p] = arg
        else:
            names[p] = tag + p
            pre.append(ast.Assign(targets=[ast.Name(id=tag + p, ctx=ast.Store())], value=arg))
    rn = _Rename(names, exprs)
    return pre + [rn.visit(copy.deepcopy(st)) for st in body]


def expr_helper_value(call: ast.Call, ctx: Ctx):
    """`_helper(args)` whose body is `return <expr>` (after cleaning) and whose arguments are cheap -> the expression"""
    h = find_helper(call, ctx)
    if h is None or ctx.depth >= MAX_DEPTH:
        return None
    if not all(is_cheap(x) for x in call.args) or not all(is_cheap(k.value) for k in call.keywords):
        return None
    body = clean(h[0].body)
    if len(body) != 1 or not isinstance(body[0], ast.Return) or body[0].value is None:
        return None
    a = h[0].args
    consts = {k: v for k, v in module_constants(home_of(h[0], ctx)).items()
              if k not in {x.arg for x in a.args + a.kwonlyargs}}
    if consts:
        body = [_Rename({}, consts).visit(copy.deepcopy(body[0]))]
    if a.vararg or a.kwarg or a.posonlyargs:
        return None
    params = [x.arg for x in a.args]
    exprs = {}
    if h[1]:
        if not params:
            return None
        exprs[params[0]] = ast.Name(id="self", ctx=ast.Load())
        params = params[1:]
    if len(call.args) > len(params) or any(isinstance(x, ast.Starred) for x in call.args):
        return None
    given = dict(zip(params, call.args))
    params = params + [x.arg for x in a.kwonlyargs]
    for kw in call.keywords:
        if kw.arg is None or kw.arg not in params or kw.arg in given:
            return None
        given[kw.arg] = kw.value
    if set(given) != set(params):
        return None                                   # defaults are not followed in expression position
    exprs.update(given)
    if comp_names(body[0].value) & set(exprs):
        return None
    sure = uncond_loads(body[0].value)
    if any(may_raise(arg, {"np", "xr"}) and p not in sure for p, arg in given.items()):
        return None                                   # the argument's evaluation would become conditional
    val = _Rename({}, exprs).visit(copy.deepcopy(body[0].value))
    return inline_exprs(val, ctx.child(ctx.ret, h[0].name, home_of(h[0], ctx)))


class _InlineExpr(ast.NodeTransformer):
    def __init__(self, ctx):
        self.ctx = ctx

    def visit_Call(self, node):
        self.generic_visit(node)
        v = expr_helper_value(node, self.ctx)
        return node if v is None else v


def inline_exprs(node, ctx: Ctx):
    return _InlineExpr(ctx).visit(node)


def has_escape(st) -> bool:
    """return / break / continue inside an opaque compound statement"""
    for n in ast.walk(st):
        if isinstance(n, (ast.Return, ast.Break, ast.Continue)):
            return True
    return False


def match_test(subject, pat):
    """A `case` pattern over a cheap subject -> (test expression (None = irrefutable), [names bound to the subject])
    A capture (`case x:`, `case Cls() as x:`) binds the subject itself, i.e. it is a local alias of the subject."""
    if isinstance(pat, ast.MatchValue):
        return ast.Compare(left=copy.deepcopy(subject), ops=[ast.Eq()], comparators=[pat.value]), []
    if isinstance(pat, ast.MatchSingleton):
        return ast.Compare(left=copy.deepcopy(subject), ops=[ast.Is()], comparators=[ast.Constant(value=pat.value)]), []
    if isinstance(pat, ast.MatchAs):
        if pat.pattern is None:
            return None, ([pat.name] if pat.name is not None else [])
        t, binds = match_test(subject, pat.pattern)
        return t, binds + [pat.name]
    if isinstance(pat, ast.MatchClass) and not pat.patterns and not pat.kwd_patterns:
        return ast.Call(func=ast.Name(id="isinstance", ctx=ast.Load()), args=[copy.deepcopy(subject), pat.cls],
                        keywords=[]), []
    if isinstance(pat, ast.MatchOr):
        ts = [match_test(subject, p) for p in pat.patterns]
        if any(b for _, b in ts):
            fail(pat, "captures inside an or-pattern are not accepted")
        if any(t is None for t, _ in ts):
            return None, []
        return ast.BoolOp(op=ast.Or(), values=[t for t, _ in ts]), []
    fail(pat, "match pattern not accepted")


def hoist_walrus(test):
    """`if (x := E) is None:` == `x = E; if x is None:` -- only for the operand that is evaluated FIRST and unconditionally
    (left-most through `not`, the first operand of `and` / `or`, the left side of a comparison, the first argument of
    isinstance / type / len).  -> (assignment | None, test)"""
    def go(n):
        if isinstance(n, ast.NamedExpr) and isinstance(n.target, ast.Name):
            return (ast.Assign(targets=[ast.Name(id=n.target.id, ctx=ast.Store())], value=n.value),
                    ast.Name(id=n.target.id, ctx=ast.Load()))
        if isinstance(n, ast.UnaryOp) and isinstance(n.op, ast.Not):
            a, o = go(n.operand)
            return a, (n if a is None else ast.UnaryOp(op=n.op, operand=o))
        if isinstance(n, ast.BoolOp):
            a, o = go(n.values[0])
            return a, (n if a is None else ast.BoolOp(op=n.op, values=[o] + n.values[1:]))
        if isinstance(n, ast.Compare):
            a, o = go(n.left)
            return a, (n if a is None else ast.Compare(left=o, ops=n.ops, comparators=n.comparators))
        if isinstance(n, ast.Call) and dotted(n.func) in ("isinstance", "type", "len") and n.args and not n.keywords:
            a, o = go(n.args[0])
            return a, (n if a is None else ast.Call(func=n.func, args=[o] + n.args[1:], keywords=[]))
        return None, n
    return go(test)


def build(stmts: list, k: Blk, ctx: Ctx) -> Blk:
    """stmts followed by the continuation k, as a decision tree"""
    if not stmts:
        return k
    st, rest = stmts[0], stmts[1:]
    if isinstance(st, ast.Return):
        if st.value is not None and isinstance(st.value, ast.IfExp):
            return build([ast.If(test=st.value.test, body=[ast.Return(value=st.value.body)],
                                 orelse=[ast.Return(value=st.value.orelse)])], k, ctx)
        if isinstance(st.value, ast.Call) and ctx.depth < MAX_DEPTH:
            h = find_helper(st.value, ctx)
            hb = h and bind_helper(st.value, h[0], h[1], ctx)
            if hb is not None:
                sub = ctx.child(ctx.ret, h[0].name, home_of(h[0], ctx))
                return build(hb, ctx.ret(None), sub)
        v = None if st.value is None else inline_exprs(copy.deepcopy(st.value), ctx)
        if isinstance(v, ast.Constant) and v.value is None:
            v = None
        return ctx.ret(v)
    if isinstance(st, ast.Raise):
        return Blk([], ("raise", st))
    if isinstance(st, ast.If):
        pre, test = hoist_walrus(st.test)
        if pre is not None:
            return build([pre, ast.If(test=test, body=st.body, orelse=st.orelse)] + rest, k, ctx)
        kk = build(rest, k, ctx)
        test = inline_exprs(copy.deepcopy(st.test), ctx)
        return Blk([], ("if", test, build(st.body, kk, ctx), build(st.orelse, kk, ctx)))
    if isinstance(st, ast.Match):
        subj = inline_exprs(copy.deepcopy(st.subject), ctx)
        if not is_cheap(subj):
            fail(st, "match subject must be a plain name / attribute")
        kk = build(rest, k, ctx)
        node = kk
        for case in reversed(st.cases):
            if case.guard is not None:
                fail(st, "match guards are not accepted")
            t, binds = match_test(subj, case.pattern)
            cbody = [ast.Assign(targets=[ast.Name(id=nm, ctx=ast.Store())], value=copy.deepcopy(subj))
                     for nm in binds] + list(case.body)
            node = build(cbody, kk, ctx) if t is None else Blk([], ("if", t, build(cbody, kk, ctx), node))
        return node
    if isinstance(st, (ast.For, ast.While, ast.Try, ast.With, ast.AsyncFor, ast.AsyncWith, ast.FunctionDef, ast.ClassDef)):
        if has_escape(st):
            fail(st, "return/break/continue inside a loop / try / with is not accepted")
        return prepend(st, build(rest, k, ctx))
    # ---- simple statements: conditional expressions, helper calls
    if isinstance(st, ast.Assign) and isinstance(st.value, ast.IfExp):
        v = st.value
        return build([ast.If(test=v.test, body=[ast.Assign(targets=st.targets, value=v.body)],
                             orelse=[ast.Assign(targets=st.targets, value=v.orelse)])] + rest, k, ctx)
    if ctx.depth < MAX_DEPTH:
        if isinstance(st, ast.Expr) and isinstance(st.value, ast.Call):
            h = find_helper(st.value, ctx)
            hb = h and bind_helper(st.value, h[0], h[1], ctx)
            if hb is not None:
                kk = build(rest, k, ctx)

                def ret(v, kk=kk, st=st):
                    if v is not None and expr_writes(v):
                        fail(st, "helper called as a statement returns the value of a call")
                    return kk
                return build(hb, kk, ctx.child(ret, h[0].name, home_of(h[0], ctx)))
        if (isinstance(st, ast.Assign) and len(st.targets) == 1 and isinstance(st.targets[0], ast.Name)
                and isinstance(st.value, ast.Call)):
            h = find_helper(st.value, ctx)
            hb = h and bind_helper(st.value, h[0], h[1], ctx)
            if hb is not None:
                kk = build(rest, k, ctx)
                tgt = st.targets[0].id

                def ret(v, kk=kk, tgt=tgt):
                    return prepend(ast.Assign(targets=[ast.Name(id=tgt, ctx=ast.Store())],
                                              value=v if v is not None else ast.Constant(value=None)), kk)
                return build(hb, ret(None), ctx.child(ret, h[0].name, home_of(h[0], ctx)))
    return prepend(inline_exprs(copy.deepcopy(st), ctx), build(rest, k, ctx))


# --------------------------------------------------------------------------------------------------- aliases


class _Subst(ast.NodeTransformer):
    def __init__(self, env, dead, shadow):
        self.env, self.dead, self.shadow = env, dead, shadow

    def visit_Name(self, node):
        if isinstance(node.ctx, ast.Load) and node.id not in self.shadow:
            if node.id in self.dead:
                raise TranslationError(f"local alias `{node.id}` is used after a statement that may have changed what it "
                                       f"stands for (line {getattr(node, 'lineno', '?')})")
            if node.id in self.env:
                return copy.deepcopy(self.env[node.id])
        return node


def alias_uses(st, names: set):
    """(name, [enclosing Call nodes whose ARGUMENTS contain the use]) for every load of one of `names` in st"""
    out = []

    def go(n, anc):
        if isinstance(n, ast.Name) and isinstance(n.ctx, ast.Load) and n.id in names:
            out.append((n.id, anc))
        if isinstance(n, ast.Call):
            go(n.func, anc)
            for a in list(n.args) + [k.value for k in n.keywords]:
                go(a, anc + [n])
            return
        for c in ast.iter_child_nodes(n):
            go(c, anc)

    go(st, [])
    return out


def stmt_effects(st):
    """-> (names re-bound, may write to an object)"""
    stores, heap = set(), False
    for n in ast.walk(st):
        if isinstance(n, ast.Name) and isinstance(n.ctx, (ast.Store, ast.Del)):
            stores.add(n.id)
        elif isinstance(n, (ast.Attribute, ast.Subscript)) and isinstance(n.ctx, (ast.Store, ast.Del)):
            heap = True
        elif isinstance(n, ast.AugAssign):
            heap = True
        elif isinstance(n, ast.Call) and not call_is_pure(n):
            heap = True
        elif isinstance(n, (ast.NamedExpr, ast.Await, ast.Yield, ast.YieldFrom)):
            heap = True
    return stores - comp_names(st), heap


def kill(env, dead, stores, heap, stable):
    env2, dead2 = {}, set(dead)
    for nm, e in env.items():
        if (names_in(e) & stores) or (heap and reads_heap(e, stable)):
            dead2.add(nm)
        else:
            env2[nm] = e
    return env2, dead2


def subst_tree(b: Blk, env: dict, dead: set, stable: set, params: set, pending=frozenset()) -> Blk:
    """`pending`: aliases of expressions that may raise, not yet evaluated on this path: the next thing evaluated must
    evaluate them unconditionally (so that substituting the alias does not move or drop the exception)."""
    out = []
    pending = set(pending)

    def settle(node, what):
        nonlocal pending
        if pending:
            missing = pending - uncond_loads(node)
            if missing:
                raise TranslationError(f"local alias `{sorted(missing)[0]}` of an expression that may raise is not evaluated "
                                       f"by the next {what}")
            pending = set()

    for st in b.stmts:
        shadow = comp_names(st)
        if isinstance(st, ast.AugAssign) and isinstance(st.target, ast.Name) and (st.target.id in env or st.target.id in dead):
            raise TranslationError(f"in-place operation on the local alias `{st.target.id}`")
        st0 = st
        if isinstance(st, (ast.For, ast.While, ast.Try, ast.With, ast.AsyncFor, ast.AsyncWith, ast.FunctionDef, ast.ClassDef)):
            # a loop body runs again after its own effects: what it may change is dead before it is entered
            env, dead = kill(env, dead, *stmt_effects(st), stable)
        else:
            _, heap0 = stmt_effects(st)
            impure = [n for n in ast.walk(st) if isinstance(n, ast.Call) and not call_is_pure(n)]
            if heap0 and impure:
                # an unknown call that is not the one the alias is an argument of may run before the alias is read
                for nm, anc in alias_uses(st, set(env)):
                    if reads_heap(env[nm], stable) and any(c not in anc for c in impure):
                        raise TranslationError(f"local alias `{nm}` of object state is used in a statement that calls "
                                               f"unknown code first")
        st = _Subst(env, dead, shadow).visit(copy.deepcopy(st))
        stores, heap = stmt_effects(st)
        if (isinstance(st, ast.Assign) and len(st.targets) == 1 and isinstance(st.targets[0], ast.Name)
                and st.targets[0].id not in params and is_cheap(st.value) and st.targets[0].id not in names_in(st.value)):
            t = st.targets[0].id
            pending -= uncond_loads(st0.value)
            env, dead = kill(env, dead, {t}, False, stable)
            env = dict(env)
            env[t] = simplify(st.value)
            dead = dead - {t}
            pending.discard(t)
            if may_raise(st.value, stable):
                pending.add(t)
            continue
        settle(st0, "statement")
        env, dead = kill(env, dead, stores, heap, stable)
        env = {k: v for k, v in env.items() if k not in stores}
        dead = dead - stores
        out.append(st)
    t = b.term
    if t[0] == "ret":
        settle(t[1], "return")
        v = None if t[1] is None else _Subst(env, dead, comp_names(t[1])).visit(copy.deepcopy(t[1]))
        return Blk(out, ("ret", None if v is None else simplify(v)))
    if t[0] == "raise":
        settle(t[1], "raise")
        return Blk(out, ("raise", _Subst(env, dead, set()).visit(copy.deepcopy(t[1]))))
    settle(t[1], "test")
    test = _Subst(env, dead, comp_names(t[1])).visit(copy.deepcopy(t[1]))
    if expr_writes(test):
        env, dead = kill(env, dead, set(), True, stable)
    th = subst_tree(t[2], env, dead, stable, params)
    el = subst_tree(t[3], env, dead, stable, params)
    node = split_if(test, th, el)
    return Blk(out + node.stmts, node.term)


def split_if(test, th: Blk, el: Blk) -> Blk:
    """if <test>: th else: el  with a positive test and `and` / `or` expanded into nested decisions
    (`if a and b: T else: E` == `if a: (if b: T else: E) else: E`; the renderer merges them back)"""
    test, flip = canon_test(test)
    if flip:
        th, el = el, th
    if isinstance(test, ast.BoolOp):
        rest = test.values[1:]
        rest = rest[0] if len(rest) == 1 else ast.BoolOp(op=test.op, values=rest)
        if isinstance(test.op, ast.And):
            return split_if(test.values[0], split_if(rest, th, el), el)
        return split_if(test.values[0], th, split_if(rest, th, el))
    return Blk([], ("if", test, th, el))


def fold_copies(b: Blk, params: set) -> Blk:
    """named intermediate results: `t = E; ...; x = t` (t not used otherwise, x not touched in between) == `x = E; ...`;
    `t = E; return t` == `return E`; `x = x` disappears"""
    t = b.term
    if t[0] == "if":
        t = ("if", t[1], fold_copies(t[2], params), fold_copies(t[3], params))
    stmts = list(b.stmts)

    def single(st):
        return (isinstance(st, ast.Assign) and len(st.targets) == 1 and isinstance(st.targets[0], ast.Name))

    changed = True
    while changed:
        changed = False
        for i, st in enumerate(stmts):
            if not (single(st) and isinstance(st.value, ast.Name)):
                continue
            x, tmp = st.targets[0].id, st.value.id
            if x == tmp:
                del stmts[i]
                changed = True
                break
            if tmp in params:
                continue
            js = [j for j in range(i) if single(stmts[j]) and stmts[j].targets[0].id == tmp]
            if not js:
                continue
            j = js[-1]
            between = stmts[j + 1:i]
            if any(x in names_in(m) or tmp in stored_names(m) for m in between) or x in stored_names(stmts[j]) - {tmp}:
                continue
            if tmp in loads_in_tree(Blk(stmts[i + 1:], t)) or comp_names(stmts[j]) & {x, tmp}:
                continue
            ren = _Rename({tmp: x}, {})
            head = ast.Assign(targets=[ast.Name(id=x, ctx=ast.Store())], value=stmts[j].value)
            stmts[j:i + 1] = [head] + [ren.visit(copy.deepcopy(m)) for m in between]
            changed = True
            break
    if (t[0] == "ret" and isinstance(t[1], ast.Name) and t[1].id not in params and stmts and single(stmts[-1])
            and stmts[-1].targets[0].id == t[1].id and not isinstance(stmts[-1].value, ast.Name)):
        t = ("ret", stmts[-1].value)
        stmts = stmts[:-1]
    return Blk(stmts, t)


def loads_in_tree(b: Blk) -> set:
    out = set()
    for st in b.stmts:
        out |= {n.id for n in ast.walk(st) if isinstance(n, ast.Name) and isinstance(n.ctx, ast.Load)}
        # an augmented assignment reads its target
        out |= {n.target.id for n in ast.walk(st) if isinstance(n, ast.AugAssign) and isinstance(n.target, ast.Name)}
    t = b.term
    if t[0] == "ret" and t[1] is not None:
        out |= names_in(t[1])
    elif t[0] == "raise":
        out |= names_in(t[1])
    elif t[0] == "if":
        out |= names_in(t[1]) | loads_in_tree(t[2]) | loads_in_tree(t[3])
    return out


def drop_dead(b: Blk, params: set, stable: set = frozenset()) -> Blk:
    """locals that are never read afterwards: dropped when the value is free of effects, and -- whatever the value --
    when they sit just in front of a `raise` (message building)"""
    t = b.term
    if t[0] == "if":
        t = ("if", t[1], drop_dead(t[2], params, stable), drop_dead(t[3], params, stable))
    stmts = list(b.stmts)
    if t[0] == "raise":
        while stmts and isinstance(stmts[-1], ast.Assign) and all(isinstance(x, ast.Name) and x.id not in params
                                                                  for x in stmts[-1].targets):
            stmts.pop()
    out = []
    for i, st in enumerate(stmts):
        if (isinstance(st, ast.Assign) and len(st.targets) == 1 and isinstance(st.targets[0], ast.Name)
                and st.targets[0].id not in params and is_cheap(st.value) and not may_raise(st.value, stable)):
            later = loads_in_tree(Blk(stmts[i + 1:], t))
            if st.targets[0].id not in later:
                continue
        out.append(st)
    return Blk(out, t)


# --------------------------------------------------------------------------------------------------- rendering


def is_terminator(st) -> bool:
    return isinstance(st, (ast.Return, ast.Raise))


def contains_terminator(stmts) -> bool:
    """a `return` somewhere inside (a sequence of guards with their own results is not nested under one more `if`)"""
    return any(isinstance(n, ast.Return) for st in stmts for n in ast.walk(st))


def size(stmts) -> int:
    return sum(1 for st in stmts for n in ast.walk(st) if isinstance(n, ast.stmt))


def render(b: Blk) -> list:
    out = list(b.stmts)
    t = b.term
    if t[0] == "ret":
        return out + [ast.Return(value=t[1])]
    if t[0] == "raise":
        return out + [t[1]]
    test, th, el = t[1], render(t[2]), render(t[3])
    dt, de = [dump(x) for x in th], [dump(x) for x in el]
    n = 0
    while n < len(dt) and n < len(de) and dt[-1 - n] == de[-1 - n]:
        n += 1
    suffix = th[len(th) - n:] if n else []
    t1, e1 = th[:len(th) - n], el[:len(el) - n]
    if n and t1 and e1:
        return out + [ast.If(test=test, body=t1, orelse=e1)] + suffix
    if n and not t1 and not e1 and is_cheap(test) and not may_raise(test, {"np", "xr"}):
        return out + suffix                       # both branches do the same thing (tests are free of effects or kept above)
    if n and (t1 or e1):
        r1, cond = (t1, test) if t1 else (e1, negate(test))
        if not (n == 1 and is_terminator(suffix[0]) and contains_terminator(r1)):
            return out + [ast.If(test=cond, body=r1, orelse=[])] + suffix
    # guard style: the shorter / terminator-only branch first, the other one flat behind it
    kt = (not (len(th) == 1 and is_terminator(th[0])), not isinstance(th[-1], ast.Raise), size(th))
    ke = (not (len(el) == 1 and is_terminator(el[0])), not isinstance(el[-1], ast.Raise), size(el))
    if ke < kt:
        return out + [ast.If(test=negate(test), body=el, orelse=[])] + th
    return out + [ast.If(test=test, body=th, orelse=[])] + el


def merge_ands(stmts: list) -> list:
    """`if a: (if b: X)` (no else on either) -> `if a and b: X`"""
    out = []
    for st in stmts:
        if isinstance(st, ast.If):
            st = ast.If(test=st.test, body=merge_ands(st.body), orelse=merge_ands(st.orelse))
            while not st.orelse and len(st.body) == 1 and isinstance(st.body[0], ast.If) and not st.body[0].orelse:
                inner = st.body[0]
                vals = []
                for v in (st.test, inner.test):
                    vals += v.values if isinstance(v, ast.BoolOp) and isinstance(v.op, ast.And) else [v]
                st = ast.If(test=ast.BoolOp(op=ast.And(), values=vals), body=inner.body, orelse=[])
        out.append(st)
    return out


class _RenameLocals(ast.NodeTransformer):
    def __init__(self, m):
        self.m = m

    def visit_Name(self, node):
        return ast.Name(id=self.m.get(node.id, node.id), ctx=node.ctx)


def rename_locals(stmts, params: set):
    order = []
    skip = set()
    for st in stmts:
        skip |= comp_names(st)
        for n in ast.walk(st):
            if isinstance(n, ast.Name) and isinstance(n.ctx, ast.Store) and n.id not in params and n.id not in order:
                order.append(n.id)
    order = [x for x in order if x not in skip]
    # order of first appearance in the text (ast.walk is breadth first): use line order of the unparsed text instead
    text = "\n".join(ast.unparse(ast.fix_missing_locations(s)) for s in stmts)
    order.sort(key=lambda nm: _first_pos(text, nm))
    m = {nm: f"_v{i + 1}" for i, nm in enumerate(order)}
    return [_RenameLocals(m).visit(st) for st in stmts]


def _first_pos(text: str, nm: str) -> int:
    import re

    mt = re.search(r"(?<![\w.])" + re.escape(nm) + r"(?!\w)", text)
    return mt.start() if mt else 10 ** 9


# --------------------------------------------------------------------------------------------------- entry


def module_constants(module: ast.Module) -> dict:
    """NAME = <literal> bound exactly once at module level"""
    cached = getattr(module, "_module_constants", None)
    if cached is not None:
        return cached
    module._module_constants = _module_constants(module)
    return module._module_constants


def _module_constants(module: ast.Module) -> dict:
    count, val = {}, {}
    for st in module.body:
        tgt = None
        if isinstance(st, ast.Assign) and len(st.targets) == 1 and isinstance(st.targets[0], ast.Name):
            tgt, v = st.targets[0].id, st.value
        elif isinstance(st, ast.AnnAssign) and isinstance(st.target, ast.Name) and st.value is not None:
            tgt, v = st.target.id, st.value
        for nm in stored_names(st) if not isinstance(st, (ast.FunctionDef, ast.ClassDef)) else set():
            count[nm] = count.get(nm, 0) + 1
        if tgt is not None:
            val[tgt] = v
    for n in ast.walk(module):
        if isinstance(n, ast.Global):
            for nm in n.names:
                count[nm] = count.get(nm, 0) + 1

    def literal(v):
        if isinstance(v, ast.Constant):
            return True
        if isinstance(v, (ast.Tuple, ast.List)):
            return all(literal(x) for x in v.elts)
        if isinstance(v, ast.UnaryOp) and isinstance(v.op, ast.USub):
            return literal(v.operand)
        return False

    return {nm: v for nm, v in val.items() if count.get(nm) == 1 and literal(v)}


def imported_names(*trees) -> set:
    out = set()
    for t in trees:
        for n in ast.walk(t):
            if isinstance(n, (ast.Import, ast.ImportFrom)):
                for a in n.names:
                    out.add((a.asname or a.name).split(".")[0])
    return out


def normalize(fn: ast.FunctionDef, module: ast.Module, scopes=(), keep=(), params=None, loader=None) -> ast.FunctionDef:
    """The canonical form of `fn` (see the module docstring).  `scopes`: ClassDefs searched for `self._helper` methods;
    `keep`: helper names NOT to inline; `params`: canonical names of the positional parameters (protocol methods);
    `loader`: dotted module name -> ast.Module | None, to follow private helpers imported from the same code base (a scope
    class may carry `_home`, the module it was read from, when that is not `module`)."""
    a = fn.args
    if a.vararg or a.kwarg or a.posonlyargs:
        fail(fn, f"{fn.name}: *args / **kwargs / positional-only parameters are not accepted")
    body = clean(fn.body)
    names = [x.arg for x in a.args]
    if params is not None:
        if len(names) != len(params):
            fail(fn, f"{fn.name}: expected {len(params)} positional parameters")
        ren = {o: n for o, n in zip(names, params) if o != n}
        if ren:
            if set(ren.values()) & (set(names) | {x for st in body for x in stored_names(st)}):
                fail(fn, f"{fn.name}: parameter names clash with the canonical ones")
            body = [_Rename(ren, {}).visit(st) for st in body]
        names = list(params)
    pset = set(names) | {x.arg for x in a.kwonlyargs}
    locals_ = set()
    for st in body:
        locals_ |= stored_names(st)
    consts = {k: v for k, v in module_constants(module).items() if k not in locals_ and k not in pset}
    if consts:
        body = [_Rename({}, consts).visit(st) for st in body]
    ctx = Ctx(module, list(scopes), set(keep), lambda v: Blk([], ("ret", v)), loader=loader)
    tree = build(body, Blk([], ("ret", None)), ctx)
    stable = imported_names(module, fn) | {"np", "xr", "warnings"}
    tree = subst_tree(tree, {}, set(), stable, pset)
    tree = fold_copies(tree, pset)
    tree = drop_dead(tree, pset, stable)
    stmts = merge_ands(render(tree))
    if stmts and isinstance(stmts[-1], ast.Return) and stmts[-1].value is None:
        stmts = stmts[:-1]
    stmts = rename_locals(stmts, pset)
    new = ast.FunctionDef(name=fn.name, args=copy.deepcopy(fn.args), body=stmts or [ast.Pass()],
                          decorator_list=[], returns=None, type_comment=None)
    if params is not None:
        for x, nm in zip(new.args.args, params):
            x.arg = nm
    for x in new.args.args + new.args.kwonlyargs:
        x.annotation = None
    try:
        text = ast.unparse(ast.fix_missing_locations(new))
        out = ast.parse(text).body[0]
    except Exception as ex:  # noqa: BLE001
        raise TranslationError(f"{fn.name}: normalised form could not be rendered: {ex}") from ex
    out.lineno = getattr(fn, "lineno", 0)
    out._inlined = set(ctx.inlined)
    if len(out.body) == 1 and isinstance(out.body[0], ast.Pass):
        out.body = []
    return out


def make_loader(repo):
    """dotted module name -> parsed module of the code base under `repo` (None when it is not there), cached;
    the tree carries `_modname` and `_is_pkg` so that relative imports can be followed from it"""
    from pathlib import Path

    cache: dict = {}

    def load(name: str):
        if name in cache:
            return cache[name]
        tree = None
        if name and all(p.isidentifier() for p in name.split(".")):
            base = Path(repo).joinpath(*name.split("."))
            for path, pkg in ((base.with_suffix(".py"), False), (base / "__init__.py", True)):
                if path.is_file():
                    try:
                        tree = ast.parse(path.read_text(), filename=str(path))
                        tree._modname, tree._is_pkg = name, pkg
                    except SyntaxError:
                        tree = None
                    break
        cache[name] = tree
        return tree

    return load


def canon_text(src: str, params=("self", "other")) -> list:
    """Pattern helper: the canonical statements of `def f(<params>): <src>` (no helper inlining)."""
    body = "\n".join("    " + l for l in src.strip("\n").splitlines())
    mod = ast.parse(f"def f({', '.join(params)}):\n{body}\n")
    fn = normalize(mod.body[0], mod)
    return [ast.unparse(s).replace("'", '"') for s in fn.body]
