"""General, behaviour-preserving normalisations of Python functions, applied before the C01 tables are
extracted (translator/c01.py).  Nothing here knows a particular rewrite; every step is an equivalence of
Python programs (or is refused):

  strip          docstrings, bare annotations, `x: T = e` -> `x = e`, logging calls (message text is never read)
  inline         calls to helper functions / methods defined in the same module / class:
                   `for T in self._h(..): BODY`  with a generator helper  -> the helper's body with every
                                                     `yield v` replaced by `T = v; BODY` (BODY without break/continue)
                   `yield from self._h(..)`                               -> the helper's body
                   `self._h(..)` as a statement, `T = self._h(..)`, `return self._h(..)`  (helper: straight line,
                                                     one `return` at the end)     -> the helper's statements
                   a helper that is one `return <expr>` anywhere in an expression -> the expression
                   `for T in (E for v in S if G): BODY` -> `for v in S: if G: T = E; BODY`   (lazy forms only)
                   `yield from (E for v in S if G)`     -> `for v in S: if G: yield E`
  if -> ifexp    `if c: x = a else: x = b` / `x = b; if c: x = a` / `if c: return a [else:] return b`
                 -> conditional expressions; `a if not c else b` -> `b if c else a`; `if not c: A else: B` -> swapped
  aliases        a local assigned exactly once to a name / attribute chain / constant, every use after the
                 assignment, no store to one of the chain's attribute names in the function -> substituted
                 (also an alias of a helper itself: `h = self._helper` / `h = Cls._helper` / `h = _module_function`, then `h(..)`:
                 inlining and alias substitution are repeated until nothing changes)
  walrus         `if (x := e) ..:` -> `x = e; if x ..:` when the assignment expression is the first thing the test
                 evaluates (the test itself, under `not`, first operand of and/or, left operand of a comparison)
  reach          the conjunction of conditions under which a node is evaluated: enclosing if / else /
                 conditional expression / `and` / `or`, and guard clauses (`if c: continue|return|raise|break`
                 before it); `not`, `is not`, `!=`, `not in`, De Morgan over path conditions and chained
                 comparisons are canonicalised
Anything else stays as it is; the extractors of translator/c01.py then fail closed on the shape they meet.
"""
from __future__ import annotations

import ast
import copy
from collections import Counter

MAX_DEPTH = 4
LOG_METHODS = {"debug", "info", "warning", "warn", "error", "exception", "critical", "log"}
TERMINATORS = (ast.Continue, ast.Return, ast.Raise, ast.Break)


class Scope:
    """Where helpers are looked up: functions of the module and methods of the class."""

    def __init__(self, module: ast.Module, cls: ast.ClassDef | None = None):
        self.module, self.cls = module, cls
        self.funcs = {n.name: n for n in module.body if isinstance(n, ast.FunctionDef)}
        self.methods = {n.name: n for n in cls.body if isinstance(n, ast.FunctionDef)} if cls is not None else {}
        self._cache: dict = {}

    # ---- module / class level constants -------------------------------------------------
    def constant(self, name: str):
        """the value node of the single module-level (or class-level) assignment of `name`, else None"""
        found = []
        for holder in ([self.cls] if self.cls is not None else []) + [self.module]:
            for st in holder.body:
                if isinstance(st, ast.Assign) and len(st.targets) == 1 and isinstance(st.targets[0], ast.Name) \
                        and st.targets[0].id == name:
                    found.append(st.value)
                elif isinstance(st, ast.AnnAssign) and isinstance(st.target, ast.Name) and st.target.id == name \
                        and st.value is not None:
                    found.append(st.value)
            if found:
                break
        return found[0] if len(found) == 1 else None


# ------------------------------------------------------------------------------------------------
# small helpers

def is_docstring(st) -> bool:
    return isinstance(st, ast.Expr) and isinstance(st.value, ast.Constant) and isinstance(st.value.value, str)


def is_log_call(st) -> bool:
    if not (isinstance(st, ast.Expr) and isinstance(st.value, ast.Call) and isinstance(st.value.func, ast.Attribute)):
        return False
    f = st.value.func
    recv = f.value
    last = recv.attr if isinstance(recv, ast.Attribute) else recv.id if isinstance(recv, ast.Name) else \
        ast.unparse(recv.func) if isinstance(recv, ast.Call) else ""
    return f.attr in LOG_METHODS and last.lower().lstrip("_") in ("log", "logger", "logging", "logging.getlogger")


def is_noise(st) -> bool:
    """statements an extractor may skip: nothing, imports"""
    return isinstance(st, (ast.Pass, ast.Import, ast.ImportFrom))


def own_walk(node):
    """ast.walk that does not enter nested function / class definitions and lambdas"""
    todo = [node]
    while todo:
        n = todo.pop()
        yield n
        for c in ast.iter_child_nodes(n):
            if isinstance(c, (ast.FunctionDef, ast.AsyncFunctionDef, ast.ClassDef, ast.Lambda)):
                continue
            todo.append(c)


def is_generator(fn: ast.FunctionDef) -> bool:
    return any(isinstance(n, (ast.Yield, ast.YieldFrom)) for st in fn.body for n in own_walk(st))


def pure_path(e) -> bool:
    """name / attribute chain / constant"""
    if isinstance(e, ast.Constant):
        return True
    while isinstance(e, ast.Attribute):
        e = e.value
    return isinstance(e, ast.Name)


def chain_attrs(e) -> set:
    out = set()
    while isinstance(e, ast.Attribute):
        out.add(e.attr)
        e = e.value
    return out


def chain_base(e):
    while isinstance(e, ast.Attribute):
        e = e.value
    return e.id if isinstance(e, ast.Name) else None


def _fill_empty(node):
    for n in ast.walk(node):
        b = getattr(n, "body", None)
        if isinstance(b, list) and not b:
            n.body = [ast.Pass()]
    return node


def stmt_lists(node):
    """every list of statements below node (the list objects themselves)"""
    for n in ast.walk(node):
        for f in ("body", "orelse", "finalbody"):
            lst = getattr(n, f, None)
            if isinstance(lst, list) and lst and isinstance(lst[0], ast.stmt):
                yield lst


# ------------------------------------------------------------------------------------------------
# strip

class _Strip(ast.NodeTransformer):
    def visit_AnnAssign(self, n):
        self.generic_visit(n)
        if n.value is None:
            return None
        return ast.copy_location(ast.Assign(targets=[n.target], value=n.value), n)

    def visit_Expr(self, n):
        if is_docstring(n) or is_log_call(n):
            return None
        return self.generic_visit(n)

    def visit_Pass(self, n):
        return None


def strip(body: list) -> list:
    mod = ast.Module(body=[copy.deepcopy(s) for s in body], type_ignores=[])
    mod = _Strip().visit(mod)
    _fill_empty(mod)
    return mod.body or [ast.Pass()]


# ------------------------------------------------------------------------------------------------
# substitution / renaming

class _Subst(ast.NodeTransformer):
    def __init__(self, mapping):
        self.mapping = mapping

    def visit_Name(self, n):
        if isinstance(n.ctx, ast.Load) and n.id in self.mapping:
            return copy.deepcopy(self.mapping[n.id])
        return n


class _Rename(ast.NodeTransformer):
    def __init__(self, ren):
        self.ren = ren

    def visit_Name(self, n):
        if n.id in self.ren:
            return ast.copy_location(ast.Name(id=self.ren[n.id], ctx=n.ctx), n)
        return n


def substitute(nodes, mapping):
    return [_Subst(mapping).visit(n) for n in nodes]


def stored_names(nodes) -> Counter:
    c: Counter = Counter()
    for st in nodes:
        for n in ast.walk(st):
            if isinstance(n, ast.Name) and isinstance(n.ctx, (ast.Store, ast.Del)):
                c[n.id] += 1
            elif isinstance(n, ast.ExceptHandler) and n.name:
                c[n.name] += 2
            elif isinstance(n, (ast.Global, ast.Nonlocal)):
                for x in n.names:
                    c[x] += 2
            elif isinstance(n, ast.arg):
                c[n.arg] += 2
    return c


def all_names(nodes) -> set:
    return {n.id for st in nodes for n in ast.walk(st) if isinstance(n, ast.Name)}


# ------------------------------------------------------------------------------------------------
# comprehension <-> loop (lazy forms only: a list would be built before the first element is used)

def _lazy_source(e):
    """`(E for v in S if G..)`, `iter(<lazy>)`, `filter(lambda v: G, S)`, `map`-free -> (target, S, [G..], E) or None"""
    if isinstance(e, ast.Call) and isinstance(e.func, ast.Name) and e.func.id == "iter" and len(e.args) == 1 and not e.keywords:
        return _lazy_source(e.args[0])
    if isinstance(e, ast.GeneratorExp) and len(e.generators) == 1 and not e.generators[0].is_async:
        g = e.generators[0]
        return g.target, g.iter, list(g.ifs), e.elt
    if isinstance(e, ast.Call) and isinstance(e.func, ast.Name) and e.func.id == "filter" and len(e.args) == 2 \
            and not e.keywords and isinstance(e.args[0], ast.Lambda):
        lam = e.args[0]
        a = lam.args
        if len(a.args) == 1 and not (a.vararg or a.kwarg or a.kwonlyargs or a.posonlyargs or a.defaults):
            v = a.args[0].arg
            return ast.Name(id=v, ctx=ast.Store()), e.args[1], [lam.body], ast.Name(id=v, ctx=ast.Load())
    return None


def _loop_of(src, inner: list):
    target, it, ifs, _ = src
    body = inner
    for g in reversed(ifs):
        body = [ast.If(test=copy.deepcopy(g), body=body, orelse=[])]
    tgt = copy.deepcopy(target)
    for n in ast.walk(tgt):
        if isinstance(n, ast.Name):
            n.ctx = ast.Store()
    return ast.For(target=tgt, iter=copy.deepcopy(it), body=body, orelse=[], type_comment=None)


def _has_loop_exit(body) -> bool:
    """break / continue that would bind to an enclosing loop of `body`"""
    def rec(stmts):
        for st in stmts:
            if isinstance(st, (ast.Break, ast.Continue)):
                return True
            if isinstance(st, (ast.For, ast.While, ast.FunctionDef, ast.ClassDef, ast.AsyncFor)):
                if isinstance(st, (ast.For, ast.While)) and rec(st.orelse):
                    return True
                continue
            for f in ("body", "orelse", "finalbody"):
                if rec(getattr(st, f, []) or []):
                    return True
            for h in getattr(st, "handlers", []) or []:
                if rec(h.body):
                    return True
        return False
    return rec(body)


# ------------------------------------------------------------------------------------------------
# inlining

class Normaliser:
    def __init__(self, scope: Scope):
        self.scope = scope

    # -- lookup ------------------------------------------------------------------------------
    def _helper(self, call, stack):
        """(FunctionDef, expression bound to the first parameter or None) for a call to a same-module function /
        same-class method, else None"""
        if not isinstance(call, ast.Call):
            return None
        f = call.func
        sc = self.scope
        if isinstance(f, ast.Name) and f.id in sc.funcs:
            fn, recv = sc.funcs[f.id], None
            if fn.decorator_list:
                return None
        elif isinstance(f, ast.Attribute) and isinstance(f.value, ast.Name) and f.attr in sc.methods \
                and not (f.attr.startswith("__") and f.attr.endswith("__")):
            fn = sc.methods[f.attr]
            decs = [ast.unparse(d) for d in fn.decorator_list]
            if f.value.id == "self" and decs == []:
                recv = ast.Name(id="self", ctx=ast.Load())
            elif decs == ["staticmethod"] and (f.value.id == "self" or (sc.cls is not None and f.value.id == sc.cls.name)):
                recv = None
            elif decs == ["classmethod"] and f.value.id == "self":
                recv = ast.Call(func=ast.Name(id="type", ctx=ast.Load()), args=[ast.Name(id="self", ctx=ast.Load())], keywords=[])
            else:
                return None
        else:
            return None
        if fn.name in stack or len(stack) >= MAX_DEPTH:
            return None
        return fn, recv

    @staticmethod
    def _bind(fn, recv, call):
        """parameter -> argument expression, or None when the binding is not plain"""
        a = fn.args
        if a.vararg or a.kwarg or a.posonlyargs:
            return None
        if any(isinstance(x, ast.Starred) for x in call.args) or any(k.arg is None for k in call.keywords):
            return None
        params = [x.arg for x in a.args]
        defaults = dict(zip(params[len(params) - len(a.defaults):], a.defaults))
        for p, d in zip(a.kwonlyargs, a.kw_defaults):
            params.append(p.arg)
            if d is not None:
                defaults[p.arg] = d
        bound = {}
        pos = ([recv] if recv is not None else []) + list(call.args)
        if len(pos) > len(a.args):
            return None
        for p, v in zip(params, pos):
            bound[p] = v
        for k in call.keywords:
            if k.arg in bound or k.arg not in params:
                return None
            bound[k.arg] = k.value
        for p in params:
            if p not in bound:
                if p not in defaults:
                    return None
                bound[p] = defaults[p]
        return bound

    def _instantiate(self, fn, recv, call, caller_names, stack):
        """(prelude statements, helper body) with parameters replaced by the arguments and the helper's locals
        renamed away from the caller's names; None when the call cannot be bound"""
        bound = self._bind(fn, recv, call)
        if bound is None:
            return None
        body = self.normalise(fn, stack + (fn.name,))
        stores = stored_names(body)
        prelude, mapping, ren = [], {}, {}
        for p, v in bound.items():
            if stores.get(p, 0) == 0 and pure_path(v):
                mapping[p] = v
            else:
                new = p if p not in caller_names else f"{p}__{fn.name}"
                ren[p] = new
                prelude.append(ast.Assign(targets=[ast.Name(id=new, ctx=ast.Store())], value=copy.deepcopy(v), lineno=call.lineno))
        for x in stores:
            if x not in bound and x in caller_names:
                ren[x] = f"{x}__{fn.name}"
        body = [copy.deepcopy(s) for s in body]
        body = [_Rename(ren).visit(s) for s in body]
        body = substitute(body, mapping)
        for s in prelude + body:
            ast.fix_missing_locations(s)
        return prelude, body

    # -- statement level -------------------------------------------------------------------
    def _inline_stmt(self, st, caller_names, stack):
        """replacement statements for `st`, or None"""
        # for T in (genexp | filter | iter(..)): BODY     and     yield from (genexp ...)
        if isinstance(st, ast.For) and not st.orelse:
            src = _lazy_source(st.iter)
            if src is not None and not _has_loop_exit(st.body):
                inner = [ast.Assign(targets=[copy.deepcopy(st.target)], value=copy.deepcopy(src[3]), lineno=st.lineno)] + st.body
                if isinstance(st.target, ast.Name) and isinstance(src[3], ast.Name) and st.target.id == src[3].id:
                    inner = st.body
                return [ast.fix_missing_locations(ast.copy_location(_loop_of(src, inner), st))]
        if isinstance(st, ast.Expr) and isinstance(st.value, ast.YieldFrom):
            src = _lazy_source(st.value.value)
            if src is not None:
                y = ast.Expr(value=ast.Yield(value=copy.deepcopy(src[3])))
                return [ast.fix_missing_locations(ast.copy_location(_loop_of(src, [y]), st))]
        # helper calls
        if isinstance(st, ast.For) and not st.orelse:
            h = self._helper(st.iter, stack)
            if h and is_generator(h[0]) and not _has_loop_exit(st.body):
                inst = self._instantiate(h[0], h[1], st.iter, caller_names, stack)
                if inst is None:
                    return None
                prelude, body = inst
                if any(isinstance(n, ast.Return) for s in body for n in own_walk(s)):
                    return None
                n_helper = sum(isinstance(n, (ast.Yield, ast.YieldFrom)) for s in body for n in own_walk(s))
                n_stmt = sum(isinstance(n, ast.Expr) and isinstance(n.value, (ast.Yield, ast.YieldFrom))
                             for s in body for n in own_walk(s))
                if n_helper != n_stmt:      # a yield of the helper that is not a statement of its own
                    return None
                loop = st

                class Y(ast.NodeTransformer):
                    def visit_Expr(self, n):
                        if isinstance(n.value, ast.Yield):
                            v = n.value.value or ast.Constant(value=None)
                            return [ast.Assign(targets=[copy.deepcopy(loop.target)], value=v, lineno=n.lineno)] + \
                                   [copy.deepcopy(s) for s in loop.body]
                        if isinstance(n.value, ast.YieldFrom):
                            return ast.For(target=copy.deepcopy(loop.target), iter=n.value.value,
                                           body=[copy.deepcopy(s) for s in loop.body], orelse=[], type_comment=None)
                        return n

                    def visit_FunctionDef(self, n):
                        return n

                    def visit_Lambda(self, n):
                        return n

                out = []
                for s in body:
                    r = Y().visit(s)
                    out.extend(r if isinstance(r, list) else [r])
                for s in out:
                    ast.fix_missing_locations(s)
                return prelude + out
        if isinstance(st, ast.Expr) and isinstance(st.value, ast.YieldFrom):
            h = self._helper(st.value.value, stack)
            if h and is_generator(h[0]):
                inst = self._instantiate(h[0], h[1], st.value.value, caller_names, stack)
                if inst is None or any(isinstance(n, ast.Return) for s in inst[1] for n in own_walk(s)):
                    return None
                return inst[0] + inst[1]
        call = None
        if isinstance(st, ast.Expr) and isinstance(st.value, ast.Call):
            call, kind = st.value, "expr"
        elif isinstance(st, ast.Assign) and isinstance(st.value, ast.Call):
            call, kind = st.value, "assign"
        elif isinstance(st, ast.Return) and isinstance(st.value, ast.Call):
            call, kind = st.value, "return"
        if call is not None:
            h = self._helper(call, stack)
            if h and not is_generator(h[0]):
                inst = self._instantiate(h[0], h[1], call, caller_names, stack)
                if inst is None:
                    return None
                prelude, body = inst
                rets = [n for s in body for n in own_walk(s) if isinstance(n, ast.Return)]
                if kind == "expr":
                    if rets and all(r.value is None for r in rets):
                        body = unguard(body)
                        rets = [n for s in body for n in own_walk(s) if isinstance(n, ast.Return)]
                    if rets:
                        return None
                    return prelude + body
                if len(rets) == 1 and body and body[-1] is rets[0] and rets[0].value is not None:
                    last = (ast.Assign(targets=st.targets, value=rets[0].value, lineno=st.lineno) if kind == "assign"
                            else ast.Return(value=rets[0].value))
                    ast.copy_location(last, st)
                    ast.fix_missing_locations(last)
                    return prelude + body[:-1] + [last]
                if kind == "return" and rets:
                    tail = ast.fix_missing_locations(ast.copy_location(ast.Return(value=ast.Constant(value=None)), st))
                    return prelude + body + ([] if isinstance(body[-1], ast.Return) else [tail])
        return None

    def _inline_list(self, lst, caller_names, stack):
        out = []
        for st in lst:
            rep = self._inline_stmt(st, caller_names, stack)
            if rep is not None:
                # the inlined statements may themselves contain shapes to inline (bounded by the helper stack)
                rep = self._inline_nested(rep, caller_names, stack)
                out.extend(rep)
                continue
            out.append(st)
        for st in out:
            for f in ("body", "orelse", "finalbody"):
                sub = getattr(st, f, None)
                if isinstance(sub, list) and sub and isinstance(sub[0], ast.stmt) and not isinstance(st, (ast.FunctionDef, ast.ClassDef)):
                    setattr(st, f, self._inline_list(sub, caller_names, stack))
            for h in getattr(st, "handlers", []) or []:
                h.body = self._inline_list(h.body, caller_names, stack)
        return out

    def _inline_nested(self, rep, caller_names, stack):
        out = []
        for st in rep:
            if isinstance(st, ast.For) and _lazy_source(st.iter) is not None or \
                    (isinstance(st, ast.Expr) and isinstance(st.value, ast.YieldFrom) and _lazy_source(st.value.value) is not None):
                r = self._inline_stmt(st, caller_names, stack)
                out.extend(r if r is not None else [st])
            else:
                out.append(st)
        return out

    # -- expression level: a helper that is one `return <expr>` -------------------------------
    def _inline_exprs(self, body, caller_names, stack):
        me = self

        class E(ast.NodeTransformer):
            def visit_Call(self, n):
                self.generic_visit(n)
                h = me._helper(n, stack)
                if not h or is_generator(h[0]):
                    return n
                bound = me._bind(h[0], h[1], n)
                if bound is None or not all(pure_path(v) for v in bound.values()):
                    return n
                hb = me.normalise(h[0], stack + (h[0].name,))
                hb = [s for s in hb if not is_noise(s)]
                if len(hb) != 1 or not isinstance(hb[0], ast.Return) or hb[0].value is None:
                    return n
                if stored_names(hb):
                    return n
                e = substitute([copy.deepcopy(hb[0].value)], bound)[0]
                return ast.fix_missing_locations(ast.copy_location(e, n))

            def visit_FunctionDef(self, n):
                return n

            def visit_Lambda(self, n):
                return n

        return [E().visit(s) for s in body]

    # -- the pipeline ----------------------------------------------------------------------
    def normalise(self, fn: ast.FunctionDef, stack=()) -> list:
        key = (id(fn), stack)
        if key in self.scope._cache:
            return [copy.deepcopy(s) for s in self.scope._cache[key]]
        params = {a.arg for a in fn.args.args + fn.args.kwonlyargs + fn.args.posonlyargs}
        if fn.args.vararg:
            params.add(fn.args.vararg.arg)
        if fn.args.kwarg:
            params.add(fn.args.kwarg.arg)
        body = hoist_walrus(strip(fn.body))
        # inlining and alias substitution enable each other (`h = self._helper` ... `h(x)`; a helper whose argument is an
        # alias): repeat until nothing changes (bounded)
        for _ in range(4):
            before = [ast.dump(s) for s in body]
            names = all_names(body) | params
            body = self._inline_list(body, names, stack)
            body = self._inline_exprs(body, names, stack)
            body = merge_ifs(body)
            body = subst_aliases(body, params)
            body = merge_ifs(body)
            for s in body:
                ast.fix_missing_locations(s)
            if [ast.dump(s) for s in body] == before:
                break
        self.scope._cache[key] = body
        return [copy.deepcopy(s) for s in body]


# ------------------------------------------------------------------------------------------------
# assignment expression in the test of an `if`  ->  assignment statement before the `if`

def _first_evaluated(test):
    """(parent, field, index) chain to the sub-expression of `test` that is evaluated first and unconditionally"""
    par, field, idx, cur = None, None, None, test
    while True:
        if isinstance(cur, ast.NamedExpr):
            return par, field, idx, cur
        if isinstance(cur, ast.UnaryOp) and isinstance(cur.op, ast.Not):
            par, field, idx, cur = cur, "operand", None, cur.operand
        elif isinstance(cur, ast.BoolOp):
            par, field, idx, cur = cur, "values", 0, cur.values[0]
        elif isinstance(cur, ast.Compare):
            par, field, idx, cur = cur, "left", None, cur.left
        else:
            return None


def hoist_walrus(body: list) -> list:
    """`if (x := e) ..: A else: B`  ->  `x = e; if x ..: A else: B` when the assignment expression is the part of the
    test that is evaluated first (the test itself, under `not`, first operand of and/or, left operand of a comparison).
    Only `if` statements (an `elif` is an `if` inside `orelse`, evaluated only when reached); `while` is left alone."""
    mod = ast.Module(body=body, type_ignores=[])
    for lst in list(stmt_lists(mod)):
        out = []
        for st in lst:
            if isinstance(st, ast.If):
                fe = _first_evaluated(st.test)
                if fe is not None and isinstance(fe[3].target, ast.Name):
                    par, field, idx, ne = fe
                    asg = ast.Assign(targets=[ast.Name(id=ne.target.id, ctx=ast.Store())], value=ne.value, lineno=st.lineno)
                    name = ast.Name(id=ne.target.id, ctx=ast.Load())
                    if par is None:
                        st.test = name
                    elif idx is None:
                        setattr(par, field, name)
                    else:
                        getattr(par, field)[idx] = name
                    out.append(ast.fix_missing_locations(ast.copy_location(asg, st)))
                    ast.fix_missing_locations(st)
            out.append(st)
        lst[:] = out
    return mod.body


# ------------------------------------------------------------------------------------------------
# if / else  <->  conditional expression, canonical polarity

def _same_target(a, b) -> bool:
    return ast.dump(a) == ast.dump(b)


def _mentions(e, target) -> bool:
    t = ast.unparse(target)
    return any(ast.unparse(n) == t for n in ast.walk(e) if isinstance(n, (ast.Name, ast.Attribute)))


def _flip(node):
    """`X if not c else Y` -> `Y if c else X`; `if not c: A else: B` -> `if c: B else: A`"""
    for n in ast.walk(node):
        if isinstance(n, ast.IfExp) and isinstance(n.test, ast.UnaryOp) and isinstance(n.test.op, ast.Not):
            n.test, n.body, n.orelse = n.test.operand, n.orelse, n.body
        elif isinstance(n, ast.If) and n.orelse and isinstance(n.test, ast.UnaryOp) and isinstance(n.test.op, ast.Not):
            n.test, n.body, n.orelse = n.test.operand, n.orelse, n.body


def _merge_list(lst: list) -> list:
    out: list = []
    i = 0
    while i < len(lst):
        st = lst[i]
        nxt = lst[i + 1] if i + 1 < len(lst) else None
        if isinstance(st, ast.If):
            b = [s for s in st.body if not isinstance(s, ast.Pass)]
            o = [s for s in st.orelse if not isinstance(s, ast.Pass)]
            if len(b) == 1 and len(o) == 1 and isinstance(b[0], ast.Assign) and isinstance(o[0], ast.Assign) \
                    and len(b[0].targets) == 1 and len(o[0].targets) == 1 and _same_target(b[0].targets[0], o[0].targets[0]):
                new = ast.Assign(targets=b[0].targets, value=ast.IfExp(test=st.test, body=b[0].value, orelse=o[0].value))
                out.append(ast.fix_missing_locations(ast.copy_location(new, st)))
                i += 1
                continue
            if len(b) == 1 and isinstance(b[0], ast.Return) and b[0].value is not None:
                other = None
                if len(o) == 1 and isinstance(o[0], ast.Return) and o[0].value is not None:
                    other, skip = o[0], 1
                elif not o and isinstance(nxt, ast.Return) and nxt.value is not None:
                    other, skip = nxt, 2
                if other is not None:
                    new = ast.Return(value=ast.IfExp(test=st.test, body=b[0].value, orelse=other.value))
                    out.append(ast.fix_missing_locations(ast.copy_location(new, st)))
                    i += skip
                    continue
        # x = <constant> ; if c: x = a        (c does not read x)
        if isinstance(st, ast.Assign) and len(st.targets) == 1 and isinstance(st.value, ast.Constant) and isinstance(nxt, ast.If) \
                and not nxt.orelse:
            b = [s for s in nxt.body if not isinstance(s, ast.Pass)]
            if len(b) == 1 and isinstance(b[0], ast.Assign) and len(b[0].targets) == 1 \
                    and _same_target(b[0].targets[0], st.targets[0]) and not _mentions(nxt.test, st.targets[0]) \
                    and not _mentions(b[0].value, st.targets[0]) and pure_path(st.targets[0]):
                new = ast.Assign(targets=st.targets, value=ast.IfExp(test=nxt.test, body=b[0].value, orelse=st.value))
                out.append(ast.fix_missing_locations(ast.copy_location(new, st)))
                i += 2
                continue
        out.append(st)
        i += 1
    return out


def merge_ifs(body: list) -> list:
    mod = ast.Module(body=body, type_ignores=[])
    for _ in range(3):
        for n in ast.walk(mod):
            for f in ("body", "orelse", "finalbody"):
                lst = getattr(n, f, None)
                if isinstance(lst, list) and lst and isinstance(lst[0], ast.stmt):
                    setattr(n, f, _merge_list(lst))
    _flip(mod)
    return mod.body


# ------------------------------------------------------------------------------------------------
# guard clauses with a bare `return`  ->  nested if / else   (used on helpers that are inlined as statements)

def unguard(body: list) -> list:
    """`if c: S..; return` followed by REST  ->  `if c: S.. else: REST`; a bare `return` at the very end is dropped"""
    out = []
    for i, st in enumerate(body):
        if isinstance(st, ast.Return) and st.value is None:
            return out or [ast.Pass()]
        if isinstance(st, ast.If):
            b = [s for s in st.body if not isinstance(s, ast.Pass)]
            o = [s for s in st.orelse if not isinstance(s, ast.Pass)]
            rest = body[i + 1:]
            if b and isinstance(b[-1], ast.Return) and b[-1].value is None and not terminates(o):
                new = ast.If(test=st.test, body=unguard(b[:-1]) if b[:-1] else [ast.Pass()],
                             orelse=unguard(o + rest) if (o + rest) else [])
                if [s for s in new.orelse if not isinstance(s, ast.Pass)] == []:
                    new.orelse = []
                out.append(ast.fix_missing_locations(ast.copy_location(new, st)))
                return out
            if o and isinstance(o[-1], ast.Return) and o[-1].value is None and not terminates(b):
                new = ast.If(test=st.test, body=unguard(b + rest) if (b + rest) else [ast.Pass()],
                             orelse=unguard(o[:-1]) if o[:-1] else [])
                out.append(ast.fix_missing_locations(ast.copy_location(new, st)))
                return out
        out.append(st)
    return out or [ast.Pass()]


# ------------------------------------------------------------------------------------------------
# single-assignment aliases

def subst_aliases(body: list, params: set) -> list:
    mod = ast.Module(body=body, type_ignores=[])
    for _ in range(50):
        stores = stored_names(mod.body)
        attr_stores = {n.attr for n in ast.walk(mod) if isinstance(n, ast.Attribute) and isinstance(n.ctx, (ast.Store, ast.Del))}
        dyn = any(isinstance(n, ast.Call) and isinstance(n.func, ast.Name) and n.func.id in ("setattr", "delattr")
                  for n in ast.walk(mod))
        done = False
        for lst in list(stmt_lists(mod)):
            for i, st in enumerate(lst):
                if not (isinstance(st, ast.Assign) and len(st.targets) == 1 and isinstance(st.targets[0], ast.Name)):
                    continue
                t = st.targets[0].id
                v = st.value
                if stores.get(t, 0) != 1 or t in params or not pure_path(v):
                    continue
                base = chain_base(v)
                if base is not None:
                    if base == t or stores.get(base, 0) > 1:
                        continue
                    attrs = chain_attrs(v)
                    if attrs and (attrs & attr_stores or dyn):
                        continue
                uses = [n for n in ast.walk(mod) if isinstance(n, ast.Name) and n.id == t and isinstance(n.ctx, ast.Load)]
                after = {id(n) for s in lst[i + 1:] for n in ast.walk(s)}
                if not all(id(u) in after for u in uses):
                    continue
                # a nested function / lambda reading the alias later would see a later value of the chain: refuse
                if any(isinstance(n, (ast.Lambda, ast.FunctionDef)) and any(isinstance(m, ast.Name) and m.id == t for m in ast.walk(n))
                       for s in lst[i + 1:] for n in ast.walk(s)):
                    continue
                new_tail = substitute(lst[i + 1:], {t: v})
                lst[i:] = new_tail or [ast.Pass()]
                done = True
                break
            if done:
                break
        if not done:
            break
    _fill_empty(mod)
    return mod.body or [ast.Pass()]


# ------------------------------------------------------------------------------------------------
# reach conditions

def terminates(stmts) -> bool:
    stmts = [s for s in stmts if not isinstance(s, ast.Pass)]
    if not stmts:
        return False
    last = stmts[-1]
    if isinstance(last, TERMINATORS):
        return True
    if isinstance(last, ast.If) and last.orelse:
        return terminates(last.body) and terminates(last.orelse)
    return False


def parents_of(root) -> dict:
    par = {}
    for n in ast.walk(root):
        for c in ast.iter_child_nodes(n):
            par[id(c)] = n
    return par


def reach(root, target) -> list:
    """[(test expression, polarity)]: conditions that hold whenever `target` (a node below `root`) is evaluated"""
    par = parents_of(root)
    conds = []
    cur = target
    while id(cur) in par:
        up = par[id(cur)]
        if isinstance(up, ast.IfExp):
            if cur is up.body:
                conds.append((up.test, True))
            elif cur is up.orelse:
                conds.append((up.test, False))
        elif isinstance(up, ast.BoolOp):
            idx = [i for i, v in enumerate(up.values) if v is cur]
            if idx:
                for v in up.values[:idx[0]]:
                    conds.append((v, isinstance(up.op, ast.And)))
        elif isinstance(up, ast.If):
            if any(cur is s for s in up.body):
                conds.append((up.test, True))
            elif any(cur is s for s in up.orelse):
                conds.append((up.test, False))
        elif isinstance(up, ast.While) and any(cur is s for s in up.body):
            conds.append((up.test, True))
        for f in ("body", "orelse", "finalbody"):
            lst = getattr(up, f, None)
            if isinstance(lst, list) and any(cur is s for s in lst):
                k = [i for i, s in enumerate(lst) if s is cur][0]
                for prev in lst[:k]:
                    if isinstance(prev, ast.If):
                        tb, to = terminates(prev.body), terminates(prev.orelse)
                        if tb and not to:
                            conds.append((prev.test, False))
                        elif to and not tb:
                            conds.append((prev.test, True))
        cur = up
    return conds


def canon(test, pol: bool) -> list:
    """flatten one path condition into canonical (text, polarity) conjuncts"""
    if isinstance(test, ast.UnaryOp) and isinstance(test.op, ast.Not):
        return canon(test.operand, not pol)
    if isinstance(test, ast.BoolOp) and isinstance(test.op, ast.And) and pol:
        return [c for v in test.values for c in canon(v, True)]
    if isinstance(test, ast.BoolOp) and isinstance(test.op, ast.Or) and not pol:
        return [c for v in test.values for c in canon(v, False)]
    if isinstance(test, ast.Compare) and len(test.ops) > 1 and pol:
        out, left = [], test.left
        for op, right in zip(test.ops, test.comparators):
            out += canon(ast.Compare(left=left, ops=[op], comparators=[right]), True)
            left = right
        return out
    if isinstance(test, ast.Compare) and len(test.ops) == 1:
        swap = {ast.IsNot: ast.Is, ast.NotEq: ast.Eq, ast.NotIn: ast.In}
        for neg, posop in swap.items():
            if isinstance(test.ops[0], neg):
                t2 = ast.Compare(left=test.left, ops=[posop()], comparators=test.comparators)
                return [(ast.unparse(t2), not pol)]
    return [(ast.unparse(test), pol)]


def reach_canon(root, target) -> list:
    out = []
    for t, p in reach(root, target):
        for c in canon(t, p):
            if c not in out:
                out.append(c)
    return out
