"""pyxel/outputs/{outputs,utils}.py, observation/{observation,observation_dask}.py, exposure/exposure.py -> Gen_C19.v

Every function is READ SYMBOLICALLY (section "symbolic reading" below: locals substituted by what they were
assigned, module-level constants resolved, private helpers of the package followed, every statement paired with
its path condition as signed atoms), so a row states WHAT must hold on the way to a statement, not how the
function is laid out.  Rows fail closed (TranslationError -> broken obligation, FALLBACK table for the search).

Extracted - only what the theorems over Gen_C19.v need; everything else about these functions is established by
the correspondence (names tried, numbers chosen, bytes written are compared with the model on executed cases):
  * create_output_directory -> src_mkdir_exclusive: the directory is made by exactly one `<p>.mkdir(...)` whose
    `exist_ok` resolves to a constant; that call sits in a `try` with exactly one FileExistsError handler (none
    broader) which neither returns, breaks nor raises, inside an unbounded loop (`while True`, `for .. in
    itertools.count()`); no path condition looks at the file system first (exists / is_dir); the one return
    inside the loop returns the very expression mkdir was called on.  NOT read: how the candidate name / the
    suffix / the prefix is computed, try-else vs return after the try, counters.
  * every writer `to_<fmt>` / `write_to_<fmt>` -> Raise | Skip | Overwrite: the one statement reached under the atom
    `<p>.exists()` (true) - alone or with `overwrite` (false) and with nothing else deciding - that raises
    FileExistsError / leaves by a bare return, before any write call; no test: astropy `writeto(overwrite=<const>)`.
    Spelling free: nested ifs, `and`, inverted test with the write in the other branch, De Morgan, early exit,
    alias of the path, named boolean, private helper.
  * save_to_files -> t_new: for every format the writer call (or raise) whose path condition holds
    `<subject> == "<fmt>"` / `<subject> in (...)` for ONE subject - `match`, if/elif, nested; the writer receives the
    function's `overwrite` (keyword or positional) ; `overwrite` default and the value passed in exposure.py.
  * Outputs.save_to_file -> t_old (the one dict display format -> to_*, bound locally or at module level, and
    indexed), t_old_ext (the `<name>_?.<ext>` template of each to_*, constants folded), t_old_all_items (iterates
    the items of every dict of self.save_data_to_file - loop or comprehension - vs unpacks a first item),
    t_old_merge (`<result>.setdefault(k, {}).update(v)` vs `<result>[k] = v`, through aliases)
  * Outputs.build_filenames: reads no attribute of `self` other than `save_data_to_file` - private helper methods
    included - no global / nonlocal / decorator / attribute store, and iterates it
  * Observation._run_single_pipeline -> t_seq_new_stage: `outputs=` of its one run_pipeline call (self.outputs | None)
  * run_pipelines_with_dask -> t_dask_snapshot: the "outputs" entry of the kwargs of apply_ufunc, through aliases
    (outputs | deepcopy(outputs))
  * apply_run_number -> src_auto: the argument of `<template>.replace('?', '{}').format(..)` as leaves of a
    conditional value: `run_number + 1` exactly when run_number is not None, else `<largest> + step` with
    <largest> = sorted(X)[-1] | max(X) | max(X, default=d), X = <per-name function>(n) for n in
    glob(<template>.replace('?', '*')); first number = the int leaf chosen by a test of X, or d + step; the
    per-name function (nested, module-level or imported) converts the `\\d+$` match with int().
"""
from __future__ import annotations

import ast
import copy
import re
from pathlib import Path

from harness.core import TranslationError

from .common import HEADER, body_no_doc, fail, parse

FMT = {"fits": "Fits", "hdf": "Hdf", "npy": "Npy", "txt": "Txt", "csv": "Csv", "png": "Png", "jpg": "Jpg",
       "jpeg": "Jpeg"}
OLD_WRITERS = ["to_fits", "to_hdf", "to_npy", "to_txt", "to_csv", "to_png", "to_jpg"]
NEW_WRITERS = ["write_to_fits", "write_to_jpg", "write_to_npy"]


# ------------------------------------------------------------------------------------------ symbolic reading
#
# General normalisations (no row below looks at statement order, local names, message texts or the way a
# condition is nested): a function is read by a small symbolic executor that
#   * substitutes every local by the expression it was assigned (single-assignment aliases, named
#     intermediate results, annotated or not; `x = a if c else b` == if/else assignment: both give IfExp),
#     and a free Name by its single module-level assignment (constants / tuples / compiled regexps moved to
#     module level),
#   * follows calls to private helpers (`_name(...)`, `self._name(...)`, nested functions) of the same module
#     or imported from the same package: their statements are read in place with the parameters bound to the
#     (substituted) arguments, the returned value is rebuilt from the helper's return statements,
#   * records, for every simple statement, the PATH CONDITION under which it is reached: enclosing `if`/`elif`/
#     `match` tests with their polarity, and - for guard clauses / early return / raise / continue - the negation
#     of every earlier test whose branch left the block (so `if c: raise` + rest == `if c: raise else: rest`, an
#     inverted test with swapped branches gives the same literals),
#   * drops docstrings, annotations without value, `pass`, imports and logging / warnings calls,
#   * `match x: case "a" | "b"` is read as `x in ("a", "b")`, `case "a"` as `x == "a"`, `case _` as else.
# `literals()` splits a path condition into signed atoms: `not`, `and` (true side), `or` (false side), chained
# comparisons (`a <= x <= b` == `a <= x and x <= b`), `is not` / `!=` / `not in` as negated `is` / `==` / `in`.
# Anything the executor does not know (loop-carried variables, stores into attributes a substituted value
# mentions, helpers with *args) stays opaque, and the rows fail closed on it.

_LOG_ROOTS = {"logging", "logger", "log", "_logger", "_log", "warnings"}


def _dump(n) -> str:
    return ast.dump(n) if isinstance(n, ast.AST) else repr(n)


def _opaque(name: str) -> ast.Name:
    return ast.Name(id=name + "'", ctx=ast.Load())


def _stored_names(nodes) -> set[str]:
    out = set()
    for st in nodes:
        for n in ast.walk(st):
            if isinstance(n, ast.Name) and isinstance(n.ctx, (ast.Store, ast.Del)):
                out.add(n.id)
            elif isinstance(n, (ast.FunctionDef, ast.ClassDef)):
                out.add(n.name)
    return out


def _simple_const(v: ast.AST) -> bool:
    """Module-level values that may be substituted for their name: literals, displays, names, compiled regexps."""
    for n in ast.walk(v):
        if isinstance(n, ast.Call):
            f = ast.unparse(n.func)
            if f not in ("re.compile", "frozenset", "tuple", "Path", "set", "dict"):
                return False
        elif isinstance(n, (ast.Lambda, ast.Await, ast.Yield, ast.YieldFrom, ast.NamedExpr, ast.ListComp, ast.SetComp,
                            ast.DictComp, ast.GeneratorExp)):
            return False
    return True


class Mod:
    """One parsed module of the package: functions, classes, single module-level assignments, package imports."""
    _cache: dict = {}

    def __init__(self, repo: Path, rel: str):
        self.repo, self.rel = repo, rel
        self.tree = parse(repo, rel)
        self.funcs = {n.name: n for n in self.tree.body if isinstance(n, ast.FunctionDef)}
        self.classes = {n.name: n for n in self.tree.body if isinstance(n, ast.ClassDef)}
        seen: dict = {}
        for st in self.tree.body:
            if isinstance(st, ast.Assign) and len(st.targets) == 1 and isinstance(st.targets[0], ast.Name):
                seen.setdefault(st.targets[0].id, []).append(st.value)
            elif isinstance(st, ast.AnnAssign) and isinstance(st.target, ast.Name) and st.value is not None:
                seen.setdefault(st.target.id, []).append(st.value)
            elif not isinstance(st, (ast.FunctionDef, ast.ClassDef, ast.Import, ast.ImportFrom)):
                for nm in _stored_names([st]):          # assigned in an if/try/loop at module level: not a constant
                    seen.setdefault(nm, []).extend([None, None])
        rebound = {x for f in ast.walk(self.tree) if isinstance(f, ast.Global) for x in f.names}
        self.consts = {k: v[0] for k, v in seen.items() if len(v) == 1 and v[0] is not None and k not in rebound
                       and k not in self.funcs and k not in self.classes and _simple_const(v[0])}
        self.imports: dict = {}
        for st in ast.walk(self.tree):
            if isinstance(st, ast.ImportFrom):
                parts = (st.module or "").split(".") if st.module else []
                if st.level:
                    base = rel.split("/")[:-1]
                    base = base[:len(base) - (st.level - 1)]
                    parts = base + parts
                if parts and parts[0] == "pyxel":
                    for a in st.names:
                        self.imports.setdefault(a.asname or a.name, ("/".join(parts), a.name))

    @classmethod
    def get(cls, repo: Path, rel: str) -> "Mod":
        key = (str(repo), rel)
        if key not in cls._cache:
            cls._cache[key] = Mod(repo, rel)
        return cls._cache[key]

    def find_function(self, name: str, depth: int = 0):
        """(module, FunctionDef) for a module-level function of this module or one imported from the package."""
        if name in self.funcs:
            return self, self.funcs[name]
        if name in self.imports and depth < 3:
            path, orig = self.imports[name]
            for rel in (path + ".py", path + "/__init__.py"):
                if (self.repo / rel).exists():
                    try:
                        return Mod.get(self.repo, rel).find_function(orig, depth + 1)
                    except TranslationError:
                        return None
        return None


class Ev:
    """A simple statement as the executor saw it: `node` has every local substituted, `conds` is the path
    condition [(test, polarity, guard)] (guard = False for an enclosing test, else how the earlier branch left:
    'raise' | 'return' | 'continue' | 'break' | 'mixed'), `ctx` the enclosing loops / try parts / helpers."""
    __slots__ = ("kind", "node", "conds", "ctx", "orig")

    def __init__(self, kind, node, conds, ctx, orig=None):
        self.kind, self.node, self.conds, self.ctx, self.orig = kind, node, list(conds), tuple(ctx), orig
        if isinstance(node, ast.AST):
            ast.fix_missing_locations(node)

    def in_ctx(self, what: str):
        return [c for c in self.ctx if c[0] == what]

    def src(self) -> str:
        return ast.unparse(self.node)


class _Frame:
    def __init__(self, mod, cls, fn):
        self.mod, self.cls, self.fn = mod, cls, fn
        a = fn.args
        self.params = [x.arg for x in a.posonlyargs + a.args + a.kwonlyargs] + \
                      ([a.vararg.arg] if a.vararg else []) + ([a.kwarg.arg] if a.kwarg else [])
        self.locals = set(self.params) | _stored_names(fn.body)
        self.nested: dict = {}


class _Subst(ast.NodeTransformer):
    def __init__(self, env, frame, depth=0):
        self.env, self.frame, self.blocked, self.depth = env, frame, [], depth

    def visit_Name(self, n):
        if not isinstance(n.ctx, ast.Load) or any(n.id in b for b in self.blocked):
            return n
        if n.id in self.env:
            return copy.deepcopy(self.env[n.id])
        fr = self.frame
        if fr is not None and n.id not in fr.locals and n.id in fr.mod.consts and self.depth < 4:
            sub = _Subst({}, _ModFrame(fr.mod), self.depth + 1)
            return sub.visit(copy.deepcopy(fr.mod.consts[n.id]))
        return n

    def _scoped(self, n, bound):
        self.blocked.append(bound)
        try:
            return self.generic_visit(n)
        finally:
            self.blocked.pop()

    def _comp(self, n):
        return self._scoped(n, _stored_names([g.target for g in n.generators]))

    visit_ListComp = visit_SetComp = visit_GeneratorExp = visit_DictComp = _comp

    def visit_Lambda(self, n):
        a = n.args
        return self._scoped(n, {x.arg for x in a.posonlyargs + a.args + a.kwonlyargs})


class _ModFrame:
    """Frame for resolving a module-level value: no locals."""
    def __init__(self, mod):
        self.mod, self.locals = mod, set()


def _fold_fstrings(n: ast.AST) -> ast.AST:
    """f"{'a'}b" == "ab": after substitution a JoinedStr part may be a literal."""
    class F(ast.NodeTransformer):
        def visit_JoinedStr(self, j):
            self.generic_visit(j)
            vals = []
            for v in j.values:
                if isinstance(v, ast.FormattedValue) and isinstance(v.value, ast.Constant) \
                        and isinstance(v.value.value, str) and v.conversion == -1 and v.format_spec is None:
                    v = ast.Constant(value=v.value.value)
                if isinstance(v, ast.Constant) and vals and isinstance(vals[-1], ast.Constant):
                    vals[-1] = ast.Constant(value=str(vals[-1].value) + str(v.value))
                else:
                    vals.append(v)
            if len(vals) == 1 and isinstance(vals[0], ast.Constant):
                return vals[0]
            return ast.JoinedStr(values=vals)
    return F().visit(n)


def _is_logging(call: ast.Call) -> bool:
    f = call.func
    root = f
    while isinstance(root, ast.Attribute):
        root = root.value
    if isinstance(root, ast.Call):                     # logging.getLogger(...).info(...)
        return _is_logging(root)
    if isinstance(root, ast.Name) and root.id in _LOG_ROOTS and isinstance(f, ast.Attribute):
        return True
    return isinstance(f, ast.Name) and f.id == "print"


def _match_test(subject: ast.AST, case: ast.match_case):
    """The test equivalent to one `case`; None for the wildcard."""
    pat = case.pattern
    test = None
    if isinstance(pat, ast.MatchAs) and pat.pattern is None and pat.name is None:
        test = None
    elif isinstance(pat, ast.MatchValue):
        test = ast.Compare(left=subject, ops=[ast.Eq()], comparators=[pat.value])
    elif isinstance(pat, ast.MatchSingleton):
        test = ast.Compare(left=subject, ops=[ast.Is()], comparators=[ast.Constant(value=pat.value)])
    elif isinstance(pat, ast.MatchOr) and all(isinstance(a, ast.MatchValue) for a in pat.patterns):
        test = ast.Compare(left=subject, ops=[ast.In()],
                           comparators=[ast.Tuple(elts=[a.value for a in pat.patterns], ctx=ast.Load())])
    else:
        test = ast.Call(func=ast.Name(id="__match__", ctx=ast.Load()),
                        args=[subject, ast.Constant(value=ast.unparse(pat))], keywords=[])
    if case.guard is not None:
        test = case.guard if test is None else ast.BoolOp(op=ast.And(), values=[test, case.guard])
    return test


class Sym:
    """Symbolic reading of one function (see the comment at the top of this section)."""

    MAX_DEPTH = 5

    def __init__(self, mod: Mod, fn: ast.FunctionDef, cls: ast.ClassDef | None = None, follow=()):
        self.events: list[Ev] = []
        self.frames = [_Frame(mod, cls, fn)]
        self.stack = [fn.name]
        self.follow = set(follow)         # public helpers a row wants followed as well
        self.inlined: list[str] = []
        self.followed: set[str] = set()
        self.visited: set[int] = set()
        self.block(body_no_doc(fn), {}, [], ())

    # ---- expressions
    @property
    def frame(self):
        return self.frames[-1]

    def subst(self, e, env):
        if e is None:
            return None
        return _fold_fstrings(_Subst(env, self.frame).visit(copy.deepcopy(e)))

    def emit(self, kind, node, conds, ctx, orig=None):
        self.events.append(Ev(kind, node, conds, ctx, orig))
        # a private helper called somewhere inside an expression (a comprehension element, an argument): its
        # statements are read too, parameters unbound, so that rows looking for a kind of statement see them
        if kind in ("continue", "break", "global"):
            return
        for c in [n for n in ast.walk(node) if isinstance(n, ast.Call)]:
            hit = self.callee(c)
            if hit is None or hit[2].name in self.stack or len(self.stack) >= self.MAX_DEPTH or id(hit[2]) in self.visited:
                continue
            mod, cls, fn, _ = hit
            self.visited.add(id(fn))
            self.followed.add(fn.name)
            self.frames.append(_Frame(mod, cls, fn))
            self.stack.append(fn.name)
            try:
                self.block(body_no_doc(fn), {}, list(conds), tuple(ctx) + (("called", fn.name),))
            finally:
                self.frames.pop()
                self.stack.pop()

    def value(self, e, env, conds, ctx):
        s = self.subst(e, env)
        if isinstance(s, ast.Call):
            v = self.inline(s, conds, ctx, want_value=True)
            if v is not None:
                return v
        return s

    def test(self, e, env, conds, ctx):
        """A condition; a private predicate helper called in it (`if _taken(p):`, `if not _free(p):`) is read in place."""
        s = self.subst(e, env)
        outer = self

        class T(ast.NodeTransformer):
            def visit_Call(self, c):
                self.generic_visit(c)
                v = outer.inline(c, conds, ctx, want_value=True)
                return c if v is None else v

            def visit_Lambda(self, n):
                return n

            visit_ListComp = visit_SetComp = visit_DictComp = visit_GeneratorExp = visit_Lambda
        return T().visit(s) if any(isinstance(n, ast.Call) for n in ast.walk(s)) else s

    # ---- helpers
    def callee(self, call: ast.Call):
        f = call.func
        fr = self.frame
        if isinstance(f, ast.Name):
            if f.id in fr.nested:
                return fr.mod, fr.cls, fr.nested[f.id], False
            if f.id in fr.locals:
                return None
            if f.id.startswith("_") and not f.id.startswith("__") or f.id in self.follow:
                hit = fr.mod.find_function(f.id)
                if hit:
                    return hit[0], None, hit[1], False
        elif isinstance(f, ast.Attribute) and isinstance(f.value, ast.Name) and f.value.id in ("self", "cls") \
                and fr.cls is not None and (f.attr.startswith("_") and not f.attr.startswith("__")
                                            or f.attr in self.follow):
            ms = [n for n in fr.cls.body if isinstance(n, ast.FunctionDef) and n.name == f.attr]
            if len(ms) == 1 and not any(ast.unparse(d) in ("property", "cached_property", "functools.cached_property")
                                        for d in ms[0].decorator_list):
                static = any(ast.unparse(d) == "staticmethod" for d in ms[0].decorator_list)
                return fr.mod, fr.cls, ms[0], not static
        return None

    def inline(self, call: ast.Call, conds, ctx, want_value: bool):
        """Read the body of a private helper in place.  Returns the returned value (want_value), True (statement
        inlined) or None (not a helper we follow)."""
        hit = self.callee(call)
        if hit is None:
            return None
        mod, cls, fn, bound = hit
        if fn.name in self.stack or len(self.stack) >= self.MAX_DEPTH:
            return None
        a = fn.args
        if a.vararg or a.kwarg or any(isinstance(x, ast.Starred) for x in call.args) \
                or any(k.arg is None for k in call.keywords) or fn.decorator_list and not (
                all(ast.unparse(d) in ("staticmethod", "classmethod") for d in fn.decorator_list)):
            return None
        if any(isinstance(n, (ast.Yield, ast.YieldFrom, ast.Await)) for n in ast.walk(fn)):
            return None
        pos = [x.arg for x in a.posonlyargs + a.args]
        env2: dict = {}
        if bound or (cls is not None and fn in cls.body and any(ast.unparse(d) == "classmethod" for d in fn.decorator_list)):
            if not pos:
                return None
            env2[pos[0]] = ast.Name(id="self", ctx=ast.Load())
            pos = pos[1:]
        if len(call.args) > len(pos):
            return None
        for p, v in zip(pos, call.args):
            env2[p] = v
        names = pos + [x.arg for x in a.kwonlyargs]
        for k in call.keywords:
            if k.arg not in names or k.arg in env2:
                return None
            env2[k.arg] = k.value
        defaults = dict(zip([x.arg for x in a.posonlyargs + a.args][-len(a.defaults):] if a.defaults else [], a.defaults))
        defaults.update({x.arg: d for x, d in zip(a.kwonlyargs, a.kw_defaults) if d is not None})
        for p in names:
            if p not in env2:
                if p not in defaults:
                    return None
                env2[p] = _Subst({}, _ModFrame(mod)).visit(copy.deepcopy(defaults[p]))
        n0 = len(self.events)
        base = len(conds)
        self.frames.append(_Frame(mod, cls, fn))
        self.stack.append(fn.name)
        c2 = list(conds)
        ictx = tuple(ctx) + (("inline", fn.name, len(self.stack)),)
        try:
            term = self.block(body_no_doc(fn), env2, c2, ictx)
        finally:
            self.frames.pop()
            self.stack.pop()
        mine = [e for e in self.events[n0:] if e.kind == "ireturn" and e.ctx[:len(ictx)] == ictx
                and not any(c[0] == "inline" for c in e.ctx[len(ictx):])]
        if want_value:
            if any(c[0] in ("loop", "try", "except", "with") for e in mine for c in e.ctx[len(ictx):]) or term == "mixed":
                del self.events[n0:]
                return None
            vals = [(e.node.value if e.node.value is not None else ast.Constant(value=None),
                     [c for c in e.conds[base:] if not c[2]]) for e in mine]
            if term is None:
                vals.append((ast.Constant(value=None), []))
            if not vals:
                del self.events[n0:]
                return None
            out = vals[-1][0]
            for v, cs in reversed(vals[:-1]):
                tests = [t if pol else ast.UnaryOp(op=ast.Not(), operand=t) for t, pol, _ in cs]
                if not tests:
                    out = v
                    continue
                test = tests[0] if len(tests) == 1 else ast.BoolOp(op=ast.And(), values=tests)
                out = ast.IfExp(test=test, body=v, orelse=out)
        # a guard of the helper whose branch raised is a guard of the caller too
        conds.extend(c for c in c2[base:] if c[2] == "raise")
        self.inlined.append(fn.name)
        self.followed.add(fn.name)
        return out if want_value else True

    # ---- statements
    def block(self, stmts, env, conds, ctx):
        for st in stmts:
            term = self.stmt(st, env, conds, ctx)
            if term:
                return term
        return None

    def _invalidate(self, target: ast.AST, env):
        """A store into an attribute / item: a substituted value that mentions it is no longer that expression."""
        text = ast.unparse(target.value if isinstance(target, ast.Subscript) else target)
        for k, v in list(env.items()):
            if isinstance(v, ast.Name) and v.id == k:
                continue                      # the object itself (a container that is being filled)
            if text in ast.unparse(v):
                env[k] = _opaque(k)

    def stmt(self, st, env, conds, ctx):
        inner = len(self.frames) > 1
        if isinstance(st, (ast.Pass, ast.Import, ast.ImportFrom)):
            return None
        if isinstance(st, ast.FunctionDef):
            self.frame.nested[st.name] = st
            return None
        if isinstance(st, ast.AnnAssign) and st.value is None:
            return None
        if isinstance(st, (ast.Assign, ast.AnnAssign)):
            targets = [st.target] if isinstance(st, ast.AnnAssign) else st.targets
            val = self.value(st.value, env, conds, ctx)
            fresh = isinstance(val, (ast.Dict, ast.List, ast.Set)) and not (val.keys if isinstance(val, ast.Dict) else val.elts) \
                or isinstance(val, ast.Call) and ast.unparse(val.func) in ("dict", "list", "set", "defaultdict", "OrderedDict",
                                                                           "collections.defaultdict", "collections.OrderedDict")
            for t in targets:
                if isinstance(t, ast.Name):
                    # an (empty) container that is filled later is an object, not a value: it keeps its name
                    env[t.id] = ast.Name(id=t.id, ctx=ast.Load()) if fresh else val
                else:
                    for nm in _stored_names([t]):
                        env[nm] = _opaque(nm)
                    for sub in ast.walk(t):
                        if isinstance(sub, (ast.Attribute, ast.Subscript)) and isinstance(sub.ctx, ast.Store):
                            self._invalidate(sub, env)
            tg = [t if isinstance(t, ast.Name) else self.subst(t, env) for t in targets]
            self.emit("assign", ast.Assign(targets=tg, value=val, lineno=st.lineno), conds, ctx, st)
            return None
        if isinstance(st, ast.AugAssign):
            val = self.subst(st.value, env)
            if isinstance(st.target, ast.Name):
                cur = env.get(st.target.id, ast.Name(id=st.target.id, ctx=ast.Load()))
                env[st.target.id] = ast.BinOp(left=copy.deepcopy(cur), op=st.op, right=val)
                self.emit("assign", ast.Assign(targets=[st.target], value=env[st.target.id], lineno=st.lineno), conds, ctx, st)
            else:
                self._invalidate(st.target, env)
                self.emit("augstore", ast.AugAssign(target=self.subst(st.target, env), op=st.op, value=val), conds, ctx, st)
            return None
        if isinstance(st, ast.Expr):
            if isinstance(st.value, ast.Constant):
                return None
            s = self.subst(st.value, env)
            if isinstance(s, ast.Call):
                if _is_logging(s):
                    return None
                if self.inline(s, conds, ctx, want_value=False):
                    return None
            self.emit("expr", ast.Expr(value=s), conds, ctx, st)
            return None
        if isinstance(st, ast.Return):
            v = self.value(st.value, env, conds, ctx) if st.value is not None else None
            self.emit("ireturn" if inner else "return", ast.Return(value=v), conds, ctx, st)
            return "return"
        if isinstance(st, ast.Raise):
            self.emit("raise", ast.Raise(exc=self.subst(st.exc, env), cause=self.subst(st.cause, env)), conds, ctx, st)
            return "raise"
        if isinstance(st, ast.Continue):
            self.emit("continue", st, conds, ctx, st)
            return "continue"
        if isinstance(st, ast.Break):
            self.emit("break", st, conds, ctx, st)
            return "break"
        if isinstance(st, ast.If):
            return self._if(self.test(st.test, env, conds, ctx), st.body, st.orelse, env, conds, ctx)
        if isinstance(st, ast.Match):
            subject = self.subst(st.subject, env)
            chain: list = []                       # innermost first
            orelse: list = []
            cases = list(st.cases)
            # build nested ifs from the last case backwards
            for case in reversed(cases):
                t = _match_test(subject, case)
                if t is None:
                    orelse = list(case.body)
                else:
                    orelse = [ast.If(test=t, body=list(case.body), orelse=orelse, lineno=st.lineno)]
            return self.block(orelse, env, conds, ctx)
        if isinstance(st, (ast.For, ast.While)):
            assigned = _stored_names([st])
            for v in assigned:
                env[v] = _opaque(v)
            envl = dict(env)
            lctx = tuple(ctx) + (("loop", st),)
            if isinstance(st, ast.For):
                self.emit("for", ast.For(target=st.target, iter=self.value(st.iter, env, conds, ctx), body=[], orelse=[]), conds, ctx, st)
                for v in _stored_names([st.target]):
                    envl[v] = ast.Name(id=v, ctx=ast.Load())      # the element: bound, not loop-carried
            else:
                self.emit("while", ast.While(test=self.subst(st.test, envl), body=[], orelse=[]), conds, ctx, st)
            self.block(st.body, envl, list(conds), lctx)
            for v in assigned:
                env[v] = _opaque(v)
            if st.orelse:
                self.block(st.orelse, env, conds, ctx)
            forever = isinstance(st, ast.While) and isinstance(st.test, ast.Constant) and bool(st.test.value) \
                and not any(isinstance(n, ast.Break) for n in ast.walk(st))
            return "return" if forever else None
        if isinstance(st, ast.Try):
            env0 = dict(env)
            saved = list(conds)
            body_assigned = _stored_names(st.body)
            tb = self.block(st.body, env, conds, tuple(ctx) + (("try", st),))
            hterms = []
            for h in st.handlers:
                envh = dict(env0)
                for v in body_assigned:
                    envh[v] = _opaque(v)
                if h.name:
                    envh[h.name] = _opaque(h.name)
                self.emit("except", ast.Expr(value=self.subst(h.type, env0) if h.type is not None
                          else ast.Name(id="BaseException", ctx=ast.Load())), saved, tuple(ctx) + (("handler", h, st),), h)
                hterms.append(self.block(h.body, envh, list(saved), tuple(ctx) + (("except", h, st),)))
            to = None
            if not tb and st.orelse:
                to = self.block(st.orelse, env, conds, tuple(ctx) + (("tryelse", st),))
            if not all(hterms):
                conds[:] = saved
                for v in body_assigned | _stored_names([h for h in st.handlers]):
                    env[v] = _opaque(v)
            tf = self.block(st.finalbody, env, conds, ctx) if st.finalbody else None
            if tf:
                return tf
            if (tb or to) and all(hterms):
                ts = {tb or to, *hterms}
                return (tb or to) if len(ts) == 1 else "mixed"
            return None
        if isinstance(st, ast.With):
            self.emit("with", ast.With(items=[ast.withitem(context_expr=self.subst(i.context_expr, env),
                                                           optional_vars=i.optional_vars) for i in st.items], body=[]),
                      conds, ctx, st)
            for i in st.items:
                if i.optional_vars is not None:
                    for v in _stored_names([i.optional_vars]):
                        env[v] = _opaque(v)
            return self.block(st.body, env, conds, tuple(ctx) + (("with", st),))
        if isinstance(st, (ast.Global, ast.Nonlocal)):
            self.emit("global", st, conds, ctx, st)
            return None
        if isinstance(st, ast.Assert):
            return None
        if isinstance(st, ast.Delete):
            for v in _stored_names([st]):
                env[v] = _opaque(v)
        self.emit("other", st, conds, ctx, st)
        return None

    def _if(self, t, body, orelse, env, conds, ctx):
        c1, e1 = conds + [(t, True, False)], dict(env)
        t1 = self.block(body, e1, c1, ctx)
        c2, e2 = conds + [(t, False, False)], dict(env)
        t2 = self.block(orelse, e2, c2, ctx)
        n = len(conds)
        if t1 and t2:
            return t1 if t1 == t2 else "mixed"
        if t1 or t2:
            (cs, es, pol, how) = (c2, e2, False, t1) if t1 else (c1, e1, True, t2)
            env.clear()
            env.update(es)
            conds.append((t, pol, how))
            conds.extend(c for c in cs[n + 1:] if c[2])
            return None
        for k in set(e1) | set(e2):
            v1 = e1.get(k, ast.Name(id=k, ctx=ast.Load()))
            v2 = e2.get(k, ast.Name(id=k, ctx=ast.Load()))
            env[k] = v1 if _dump(v1) == _dump(v2) else ast.IfExp(test=copy.deepcopy(t), body=v1, orelse=v2)
        return None


_NEG = {ast.IsNot: ast.Is, ast.NotEq: ast.Eq, ast.NotIn: ast.In}


def literals(test: ast.AST, pol: bool = True) -> list[tuple[str, bool, ast.AST]]:
    """Signed atoms of a condition known to be `pol`: [(canonical text, sign, node)]."""
    if isinstance(test, ast.UnaryOp) and isinstance(test.op, ast.Not):
        return literals(test.operand, not pol)
    if isinstance(test, ast.BoolOp) and isinstance(test.op, ast.And if pol else ast.Or):
        return [x for v in test.values for x in literals(v, pol)]
    if isinstance(test, ast.Compare):
        if len(test.ops) > 1:
            if pol:
                out, left = [], test.left
                for op, right in zip(test.ops, test.comparators):
                    out += literals(ast.Compare(left=left, ops=[op], comparators=[right]), True)
                    left = right
                return out
        elif type(test.ops[0]) in _NEG:
            pos = ast.Compare(left=test.left, ops=[_NEG[type(test.ops[0])]()], comparators=test.comparators)
            return [(ast.unparse(pos), not pol, pos)]
    return [(ast.unparse(test), pol, test)]


def cond_literals(conds, guards: bool):
    """Atoms of the enclosing tests (guards=False) or of the earlier guard clauses (guards=True)."""
    return [x for t, pol, g in conds if bool(g) == guards for x in literals(t, pol)]


def member_literals(conds):
    """`x == "a"` / `x in ("a", "b")` atoms that hold on this path: [(subject text, {literals})]."""
    out = []
    for text, pol, node in cond_literals(conds, False):
        if pol and isinstance(node, ast.Compare) and len(node.ops) == 1:
            op, rhs = node.ops[0], node.comparators[0]
            if isinstance(op, ast.Eq) and isinstance(rhs, ast.Constant):
                out.append((ast.unparse(node.left), {rhs.value}))
            elif isinstance(op, ast.Eq) and isinstance(node.left, ast.Constant):
                out.append((ast.unparse(rhs), {node.left.value}))
            elif isinstance(op, ast.In) and isinstance(rhs, (ast.Tuple, ast.List, ast.Set)) \
                    and all(isinstance(e, ast.Constant) for e in rhs.elts):
                out.append((ast.unparse(node.left), {e.value for e in rhs.elts}))
            elif isinstance(op, ast.In) and isinstance(rhs, ast.Dict) and rhs.keys \
                    and all(isinstance(e, ast.Constant) for e in rhs.keys):
                out.append((ast.unparse(node.left), {e.value for e in rhs.keys}))
    return out


def calls_in(node: ast.AST, attr: str | None = None, name: str | None = None):
    out = []
    for n in ast.walk(node):
        if isinstance(n, ast.Call):
            if attr is not None and isinstance(n.func, ast.Attribute) and n.func.attr == attr:
                out.append(n)
            elif name is not None and (isinstance(n.func, ast.Name) and n.func.id == name
                                       or isinstance(n.func, ast.Attribute) and n.func.attr == name):
                out.append(n)
    return out


def sites(sym: "Sym", attr: str | None = None, name: str | None = None, kinds=None):
    """Distinct calls in the statements of a function.  A substituted value is repeated in every statement that
    uses the local it was bound to: a call is counted once, with the first statement it occurs in."""
    out, seen = [], set()
    for ev in sym.events:
        if kinds is not None and ev.kind not in kinds:
            continue
        for c in calls_in(ev.node, attr=attr, name=name):
            d = _dump(c)
            if d not in seen:
                seen.add(d)
                out.append((ev, c))
    return out


def read(repo: Path, rel: str, name: str, cls: str | None = None, follow=()) -> Sym:
    mod = Mod.get(repo, rel)
    if cls is None:
        if name not in mod.funcs:
            raise TranslationError(f"{rel}: function {name} not found")
        return Sym(mod, mod.funcs[name], None, follow)
    if cls not in mod.classes:
        raise TranslationError(f"{rel}: class {cls} not found")
    ms = [n for n in mod.classes[cls].body if isinstance(n, ast.FunctionDef) and n.name == name]
    if len(ms) != 1:
        raise TranslationError(f"{rel}: method {cls}.{name}: found {len(ms)}")
    return Sym(mod, ms[0], mod.classes[cls], follow)


def bind_call(call: ast.Call, fn: ast.FunctionDef) -> dict:
    """Arguments of `call` by parameter name of `fn` (positional or keyword)."""
    a = fn.args
    pos = [x.arg for x in a.posonlyargs + a.args]
    if any(isinstance(x, ast.Starred) for x in call.args) or any(k.arg is None for k in call.keywords) \
            or len(call.args) > len(pos):
        fail(call, "call with * / ** arguments")
    out = dict(zip(pos, call.args))
    for k in call.keywords:
        out[k.arg] = k.value
    return out


# ------------------------------------------------------------------------------------------ rows

OUT, UTL = "pyxel/outputs/outputs.py", "pyxel/outputs/utils.py"
WRITE_ATTRS = ("save", "savetxt", "writeto", "to_csv", "File", "write_bytes", "write_text", "tofile")


def _is_name(n, ident):
    return isinstance(n, ast.Name) and n.id == ident


def _bool_const(n):
    return n.value if isinstance(n, ast.Constant) and isinstance(n.value, bool) else None


def _exc_names(t: ast.AST) -> list[str]:
    if isinstance(t, ast.Tuple):
        return [x for e in t.elts for x in _exc_names(e)]
    if isinstance(t, ast.Call):
        t = t.func
    if isinstance(t, ast.Name):
        return [t.id]
    if isinstance(t, ast.Attribute):
        return [t.attr]
    return ["?"]


def _unbounded(loop) -> bool:
    if isinstance(loop, ast.While):
        return isinstance(loop.test, ast.Constant) and bool(loop.test.value) and not loop.orelse
    return isinstance(loop.iter, ast.Call) and ast.unparse(loop.iter.func) in ("itertools.count", "count")


def mkdir_loop(repo: Path) -> bool:
    """src_mkdir_exclusive.  Needed by the theorems: is the directory made by ONE mkdir that refuses an existing
    name, inside a retry that goes on (does not return / give up) when it is refused.  The candidate names
    themselves are the model's `cand`; the correspondence compares them and the number of failed attempts."""
    sym = read(repo, OUT, "create_output_directory")
    fn = sym.frames[0].fn
    made = sites(sym, attr="mkdir") + sites(sym, name="makedirs")
    if len(made) != 1:
        fail(fn, f"create_output_directory must create the directory at exactly one mkdir call, found {len(made)}")
    ev, call = made[0]
    if isinstance(call.func, ast.Attribute) and call.func.attr == "makedirs" or call.args:
        fail(call, "the directory must be made by <path>.mkdir(<keywords>)")
    kws = {k.arg: k.value for k in call.keywords}
    if set(kws) - {"parents", "exist_ok", "mode"}:
        fail(call, "unexpected mkdir keyword")
    excl = True
    if "exist_ok" in kws:
        v = _bool_const(kws["exist_ok"])
        if v is None:
            fail(call, "exist_ok must be a constant")
        excl = not v
    # the refusal must lead to another attempt: mkdir inside `try` whose FileExistsError handler neither returns,
    # breaks nor raises, inside an unbounded loop; nothing on the path decides by looking first (`exists()`)
    tries = ev.in_ctx("try")
    loops = ev.in_ctx("loop")
    if not tries or not loops:
        fail(ev.orig, "mkdir must be attempted inside try, inside the retry loop")
    tr, loop = tries[-1][1], loops[-1][1]
    if not _unbounded(loop):
        fail(loop, "the retry loop must be unbounded (`while True` / `for .. in itertools.count()`)")
    hs = [e for e in sym.events if e.kind == "except" and e.ctx[-1][2] is tr]
    fe = [e for e in hs if "FileExistsError" in _exc_names(e.node.value)]
    if len(fe) != 1 or any(set(_exc_names(e.node.value)) & {"OSError", "Exception", "BaseException", "?"} for e in hs):
        fail(tr, "exactly one handler for FileExistsError (and no broader one) expected around mkdir")
    h = fe[0].ctx[-1][1]
    inside = [e for e in sym.events if any(c[0] == "except" and c[1] is h for c in e.ctx)]
    if any(e.kind in ("return", "break", "raise") for e in inside):
        fail(h, "a refused mkdir must lead to the next attempt")
    for e in sym.events:
        for t, _, _ in e.conds:
            if any(isinstance(n, ast.Call) and isinstance(n.func, ast.Attribute)
                   and n.func.attr in ("exists", "is_dir", "is_file") for n in ast.walk(t)):
                fail(t, "create_output_directory decides by looking at the file system before mkdir")
    # what is returned is the directory just made
    rets = [e for e in sym.events if e.kind == "return"]
    recv = _dump(call.func.value)
    good = [e for e in rets if e.node.value is not None and _dump(e.node.value) == recv
            and any(c[1] is loop for c in e.in_ctx("loop"))]
    if len(good) != 1 or len([e for e in rets if any(c[1] is loop for c in e.in_ctx("loop"))]) != 1:
        fail(fn, "the loop must return exactly the directory that mkdir made")
    return excl


# ------------------------------------------------------------------------------------------ writers


def _has_exists(n: ast.AST) -> bool:
    return bool(calls_in(n, attr="exists"))


def writer_behaviour(sym: Sym) -> tuple[str, bool]:
    """(Raise | Skip | Overwrite, is the test disabled by `overwrite`) for one writer.

    Looked for: the statement(s) reached exactly when the target `exists()` - possibly `and not overwrite` - that
    raise FileExistsError (Raise) or leave by a bare return (Skip), before anything is written.  How the test is
    spelt (nested ifs, inverted with the write in the else branch, in a private helper, through an alias of the
    path) does not matter; a test that also depends on anything else does (fail closed)."""
    fn = sym.frames[0].fn
    refusals, first_write = [], None
    for i, ev in enumerate(sym.events):
        # deciding atoms: enclosing tests, and earlier exits other than a raise (a raise before the test writes nothing)
        pos = [x for t, pol, g in ev.conds if g != "raise" or _has_exists(t) for x in literals(t, pol)]
        ex = [x for x in pos if _has_exists(x[2])]
        if ev.kind in ("raise", "return") and any(pol and isinstance(n, ast.Call) and isinstance(n.func, ast.Attribute)
                                                  and n.func.attr == "exists" for _, pol, n in ex):
            refusals.append((i, ev, pos, ex))
        elif ev.kind in ("expr", "assign", "with", "return", "ireturn") and first_write is None \
                and any(isinstance(n, ast.Call) and isinstance(n.func, ast.Attribute) and n.func.attr in WRITE_ATTRS
                        for n in ast.walk(ev.node)):
            first_write = (i, ev)
    if any(_has_exists(t) for ev in sym.events for t, _, _ in ev.conds) and not refusals:
        fail(fn, "an existence test that is not a refusal")
    if len(refusals) > 1:
        fail(fn, "more than one existence test")
    if refusals:
        i, ev, pos, ex = refusals[0]
        if first_write is not None and first_write[0] < i:
            fail(first_write[1].orig, "a write precedes the existence test")
        if len(ex) != 1 or not ex[0][1] or not (isinstance(ex[0][2], ast.Call) and not ex[0][2].args):
            fail(ev.orig, "existence test must be `<p>.exists()`")
        rest = [(txt, pol) for txt, pol, node in pos if not _has_exists(node)]
        if rest not in ([], [("overwrite", False)]):
            fail(ev.orig, f"the refusal of an existing target also depends on {rest}")
        if ev.in_ctx("loop") or ev.in_ctx("except"):
            fail(ev.orig, "existence test inside a loop / handler")
        if ev.kind == "raise":
            if "FileExistsError" not in _exc_names(ev.node.exc) if ev.node.exc is not None else True:
                fail(ev.orig, "existence test must raise FileExistsError")
            return "Raise", bool(rest)
        if ev.node.value is None or isinstance(ev.node.value, ast.Constant) and ev.node.value.value is None:
            if ev.kind == "return":
                return "Skip", bool(rest)
        fail(ev.orig, "existence test must end with raise FileExistsError or a bare return")
    # no explicit test: astropy's writeto(overwrite=False) refuses existing files
    wt = [c for _, c in sites(sym, attr="writeto")]
    if wt:
        if len(wt) != 1:
            fail(fn, "more than one writeto call")
        kw = {k.arg: k.value for k in wt[0].keywords}
        if "overwrite" not in kw:
            return "Raise", False          # astropy default: overwrite=False
        v = _bool_const(kw["overwrite"])
        if v is None:
            fail(wt[0], "writeto(overwrite=...) must be a constant when there is no existence test")
        return ("Overwrite" if v else "Raise"), False
    return "Overwrite", False


def old_ext(sym: Sym) -> str:
    exts = set()
    for ev in sym.events:
        for n in ast.walk(ev.node):
            if isinstance(n, ast.Constant) and isinstance(n.value, str):
                m = re.search(r"_\?\.(\w+)$", n.value)
                if m:
                    exts.add(m.group(1))
    if len(exts) != 1:
        fail(sym.frames[0].fn, f"expected exactly one template \"<name>_?.<ext>\", found {sorted(exts)}")
    return exts.pop()


def new_dispatch(repo: Path):
    """save_to_files: which writer (or refusal) each format gets - `match`, if/elif on ==/in, any nesting."""
    sym = read(repo, UTL, "save_to_files")
    fn = sym.frames[0].fn
    mod = Mod.get(repo, UTL)
    table, subjects = {}, set()
    for ev in sym.events:
        mem = [(s, vals) for s, vals in member_literals(ev.conds) if vals & set(FMT)]
        what = None
        if ev.kind == "expr" and isinstance(ev.node.value, ast.Call) and isinstance(ev.node.value.func, ast.Name) \
                and ev.node.value.func.id in NEW_WRITERS:
            call = ev.node.value
            what = call.func.id
            args = bind_call(call, mod.funcs[what]) if what in mod.funcs else {k.arg: k.value for k in call.keywords}
            if not _is_name(args.get("overwrite"), "overwrite"):
                fail(ev.orig, "writer must be called with the `overwrite` of save_to_files")
            if not isinstance(args.get("filename"), ast.AST):
                fail(ev.orig, "writer must be called with a file name")
        elif ev.kind == "expr" and isinstance(ev.node.value, ast.Call) and isinstance(ev.node.value.func, ast.Subscript) \
                and isinstance(ev.node.value.func.value, ast.Dict) and ev.node.value.func.value.keys \
                and all(isinstance(k, ast.Constant) and k.value in FMT for k in ev.node.value.func.value.keys) \
                and all(isinstance(v, ast.Name) and v.id in NEW_WRITERS for v in ev.node.value.func.value.values):
            # dispatch dict built inside the function: {"npy": write_to_npy, ...}[<subject>](...)
            call, d = ev.node.value, ev.node.value.func.value
            subj = ast.unparse(call.func.slice)
            keys = {k.value for k in d.keys}
            if len(mem) != 1 or mem[0][0] != subj or not mem[0][1] <= keys:
                fail(ev.orig, "a dispatch dict must be indexed by the tested extension, under `<extension> in <dict>`")
            subjects.add(subj)
            for k, v in zip(d.keys, d.values):
                if k.value not in mem[0][1]:
                    continue
                args = bind_call(call, mod.funcs[v.id]) if v.id in mod.funcs else {x.arg: x.value for x in call.keywords}
                if not _is_name(args.get("overwrite"), "overwrite") or not isinstance(args.get("filename"), ast.AST):
                    fail(ev.orig, "writer must be called with a file name and the `overwrite` of save_to_files")
                if k.value in table:
                    fail(fn, "a format appears in two cases")
                table[k.value] = v.id
            continue
        elif ev.kind == "raise" and mem:
            what = None
        elif ev.kind == "assign" and isinstance(ev.node.value, ast.Dict) \
                and all(isinstance(v, ast.Name) for v in ev.node.value.values):
            continue                       # the dispatch dict itself; its use is read where it is indexed
        elif any(isinstance(n, ast.Name) and n.id in NEW_WRITERS for n in ast.walk(ev.node)):
            fail(ev.orig, "a write_to_* writer is used other than by a plain call")
        else:
            continue
        if what is not None and len(mem) != 1:
            fail(ev.orig, "a writer call must be selected by exactly one test of the extension")
        for s, vals in mem[:1]:
            if not vals <= set(FMT):
                fail(ev.orig, "case pattern must be a known format literal")
            subjects.add(s)
            for k in sorted(vals):
                if k in table:
                    fail(fn, "a format appears in two cases")
                table[k] = what
    if len(subjects) != 1:
        fail(fn, f"save_to_files must dispatch on one extension expression, found {sorted(subjects)}")
    # formats not named by any case fall to the default, which must refuse
    if set(table) != set(FMT):
        default = [ev for ev in sym.events if ev.kind == "raise" and not member_literals(ev.conds)
                   and any(not pol and s_txt.startswith(next(iter(subjects)))
                           for s_txt, pol, _ in cond_literals(ev.conds, False))]
        if not default:
            fail(fn, f"formats {sorted(set(FMT) - set(table))} are not dispatched and there is no refusing default")
        for k in FMT:
            table.setdefault(k, None)          # refused by the default branch == refused by a case of its own
    order = ["fits", "npy", "hdf", "txt", "csv", "png", "jpg", "jpeg"]
    return [(k, table[k]) for k in order if k in table]


def new_overwrite(repo: Path) -> bool:
    """True if the new-API writers may be called with overwrite=True."""
    mod = Mod.get(repo, UTL)
    fn = mod.funcs.get("save_to_files") or fail(None, "save_to_files not found")
    names = [a.arg for a in fn.args.posonlyargs + fn.args.args]
    kwd = dict(zip([a.arg for a in fn.args.kwonlyargs], fn.args.kw_defaults))
    if "overwrite" not in names and "overwrite" not in kwd:
        fail(fn, "save_to_files has no `overwrite` parameter")
    defaults = dict(zip(names[len(names) - len(fn.args.defaults):], fn.args.defaults))
    defaults.update(kwd)
    d = defaults.get("overwrite")
    ow = _bool_const(_Subst({}, _ModFrame(mod)).visit(copy.deepcopy(d))) if d is not None else None
    if ow is None:
        fail(fn, "save_to_files: `overwrite` must default to a bool constant")
    exm = Mod.get(repo, "pyxel/exposure/exposure.py")
    # every function / method of exposure.py is a root; a private helper is read where it is called (arguments bound)
    roots = [(None, f) for f in exm.funcs.values()] + [(c, m) for c in exm.classes.values() for m in c.body
                                                        if isinstance(m, ast.FunctionDef)]
    syms = [(f, Sym(exm, f, c)) for c, f in roots
            if any(isinstance(n, ast.Call) for n in ast.walk(f))]
    followed = set().union(*[sy.followed for _, sy in syms]) if syms else set()
    calls, seen = [], set()
    for f, sy in syms:
        if f.name in followed:
            continue
        for _, c in sites(sy, name="save_to_files"):
            if _dump(c) not in seen:
                seen.add(_dump(c))
                calls.append(c)
    if len(calls) != 1:
        fail(exm.tree, f"expected one save_to_files call in exposure.py, found {len(calls)}")
    args = bind_call(calls[0], fn)
    if "overwrite" in args:
        v = _bool_const(args["overwrite"])
        if v is None:
            fail(calls[0], "save_to_files(overwrite=...) must be a bool constant")
        ow = v
    return ow


def old_dispatch(repo: Path, sym: Sym):
    """The format -> to_* table Outputs.save_to_file indexes (a dict display, wherever it is bound)."""
    mod = Mod.get(repo, OUT)
    fn = sym.frames[0].fn
    cands = {}
    pool = [ev.node for ev in sym.events] + list(mod.consts.values())
    for root in pool:
        for n in ast.walk(root):
            if isinstance(n, ast.Dict) and n.keys and all(isinstance(k, ast.Constant) and k.value in FMT for k in n.keys) \
                    and all(isinstance(v, ast.Name) and v.id in OLD_WRITERS for v in n.values):
                cands[_dump(n)] = n
    if len(cands) != 1:
        fail(fn, f"Outputs.save_to_file must use one format -> to_* table, found {len(cands)}")
    d = next(iter(cands.values()))
    table = [(k.value, v.id) for k, v in zip(d.keys, d.values)]
    if sorted(k for k, _ in table) != sorted(FMT):
        fail(d, "the table must cover exactly the eight formats")
    # the function must index it by the format it is saving
    used = [n for ev in sym.events for n in ast.walk(ev.node)
            if (isinstance(n, ast.Subscript) and _dump(n.value) in cands)
            or (isinstance(n, ast.Call) and isinstance(n.func, ast.Attribute) and n.func.attr == "get"
                and _dump(n.func.value) in cands)]
    if not used:
        fail(fn, "the format -> to_* table is not indexed in Outputs.save_to_file")
    for _, w in table:
        hit = mod.imports.get(w)
        if not hit or hit != ("pyxel/outputs/utils", w) and hit != ("pyxel/outputs", w):
            fail(fn, f"{w} is not imported from pyxel.outputs.utils")
    return table


# ------------------------------------------------------------------------------------------ state / flow shape


def _iter_sources(sym: Sym) -> list[str]:
    """Everything the function iterates over (for statements and comprehensions), substituted."""
    out = [ast.unparse(ev.node.iter) for ev in sym.events if ev.kind == "for"]
    for ev in sym.events:
        for n in ast.walk(ev.node):
            if isinstance(n, ast.comprehension):
                out.append(ast.unparse(n.iter))
    return out


def _self_attrs(sym: Sym) -> set[str]:
    out = set()
    for ev in sym.events:
        for root in [ev.node] + [t for t, _, _ in ev.conds]:
            for n in ast.walk(root):
                if isinstance(n, ast.Attribute) and _is_name(n.value, "self") and n.attr not in sym.followed:
                    out.add(n.attr)
                if isinstance(n, ast.Call) and isinstance(n.func, ast.Name) and n.func.id in ("getattr", "setattr", "vars"):
                    out.add("<" + n.func.id + ">")
    return out


def check_build_filenames(repo: Path) -> None:
    """build_filenames must be a pure function of self.save_data_to_file and its argument (private helper
    methods are read in place: one that remembers something in another attribute of self is seen here)."""
    sym = read(repo, OUT, "build_filenames", cls="Outputs")
    fn = sym.frames[0].fn
    attrs = _self_attrs(sym)
    if attrs - {"save_data_to_file"}:
        fail(fn, f"build_filenames reads/writes other attributes of self: {sorted(attrs - {'save_data_to_file'})}")
    if any(ev.kind == "global" for ev in sym.events):
        fail(fn, "build_filenames must not use global/nonlocal state")
    if any(d for d in fn.decorator_list):
        fail(fn, "build_filenames must not be decorated (cached)")
    if "self.save_data_to_file" not in _iter_sources(sym):
        fail(fn, "build_filenames must iterate `self.save_data_to_file`")
    for ev in sym.events:       # nothing may be kept in a mutable default / function attribute
        for n in ast.walk(ev.node):
            if isinstance(n, ast.Attribute) and isinstance(n.ctx, ast.Store):
                fail(ev.orig, "build_filenames stores into an attribute")


def seq_new_stage(repo: Path) -> bool:
    sym = read(repo, "pyxel/observation/observation.py", "_run_single_pipeline", cls="Observation")
    fn = sym.frames[0].fn
    calls = [c for _, c in sites(sym, name="run_pipeline")]
    if len(calls) != 1 or calls[0].args:
        fail(fn, "_run_single_pipeline must call run_pipeline once, with keywords")
    kw = {k.arg: k.value for k in calls[0].keywords}
    if "output_filename_suffix" in kw and not (isinstance(kw["output_filename_suffix"], ast.Constant)
                                               and kw["output_filename_suffix"].value is None):
        fail(calls[0], "_run_single_pipeline: run_pipeline(output_filename_suffix=...) is not a known shape")
    v = kw.get("outputs")
    saves = [c for _, c in sites(sym, attr="save_to_file")]
    if len(saves) != 1:
        fail(fn, "_run_single_pipeline must call outputs.save_to_file once")
    if ast.unparse(saves[0].func.value) != "self.outputs":
        fail(saves[0], "save_to_file must be called on self.outputs")
    skw = {k.arg: k.value for k in saves[0].keywords}
    if "run_number" not in skw or ast.unparse(skw["run_number"]) != "param_item.run_index":
        fail(saves[0], "save_to_file must be called with run_number=param_item.run_index")
    if v is not None and ast.unparse(v) == "self.outputs":
        return True
    if v is None or isinstance(v, ast.Constant) and v.value is None:
        return False
    fail(calls[0], "run_pipeline(outputs=...) must be self.outputs or None")


def old_items_and_merge(sym: Sym) -> tuple[bool, bool]:
    """Outputs.save_to_file: (every item of every dict is saved, the formats of a bucket named twice are merged)."""
    fn = sym.frames[0].fn
    srcs = _iter_sources(sym)
    if "self.save_data_to_file" not in srcs:
        fail(fn, "Outputs.save_to_file must iterate self.save_data_to_file")
    dict_vars = set()
    for ev in sym.events:
        if ev.kind == "for" and ast.unparse(ev.node.iter) == "self.save_data_to_file" and isinstance(ev.node.target, ast.Name):
            dict_vars.add(ev.node.target.id)
        for n in ast.walk(ev.node):
            if isinstance(n, ast.comprehension) and ast.unparse(n.iter) == "self.save_data_to_file" \
                    and isinstance(n.target, ast.Name):
                dict_vars.add(n.target.id)
    item_iters = [s for s in srcs if any(s == f"{d}.items()" for d in dict_vars)]
    # a partial look at the items: `first, *_ = dct.items()`, next(iter(...)), indexing a list of them
    partial = []
    for ev in sym.events:
        if ev.kind == "assign" and any(isinstance(t, (ast.Tuple, ast.List)) for t in ev.node.targets) \
                and any(ast.unparse(c.func) in {f"{d}.items" for d in dict_vars} | {f"{d}.keys" for d in dict_vars}
                        for c in ast.walk(ev.node.value) if isinstance(c, ast.Call)):
            partial.append(ev)
        elif any(isinstance(c, ast.Call) and ast.unparse(c.func) in ("next", "iter") for c in ast.walk(ev.node)) \
                and any(f"{d}.items()" in ev.src() or f"iter({d})" in ev.src() for d in dict_vars):
            partial.append(ev)
    if partial and not item_iters:
        all_items = False
    elif item_iters and not partial:
        all_items = True
    else:
        fail(fn, "Outputs.save_to_file: neither the first-item shape nor a loop over the items of every dict")
    return all_items, _old_store(sym)


def _old_store(sym: Sym) -> bool:
    """True if the per-bucket result is merged into the result mapping, False if it replaces the entry."""
    fn = sym.frames[0].fn
    # the result mapping: the local dict handed to _dict_to_datatree / returned
    accs = set()
    events = [ev for ev in sym.events if not ev.in_ctx("called")]     # a helper read with unbound parameters has its own dicts
    for ev in events:
        if ev.kind == "assign" and isinstance(ev.node.targets[0], ast.Name) and isinstance(ev.orig, (ast.Assign, ast.AnnAssign)) \
                and isinstance(ev.orig.value, (ast.Dict, ast.Call)) and ast.unparse(ev.orig.value) in ("{}", "dict()") \
                and not ev.in_ctx("loop"):
            accs.add(ev.node.targets[0].id)
    stores, inits = [], set()
    for ev in events:
        o = ev.node
        if ev.kind == "assign" and isinstance(o.targets[0], ast.Subscript) and isinstance(o.targets[0].value, ast.Name) \
                and o.targets[0].value.id in accs:
            key = f"{ast.unparse(o.targets[0].slice)} in {o.targets[0].value.id}"
            if ast.unparse(o.value) in ("{}", "dict()") and (key, False) in [(t, p) for t, p, _ in cond_literals(ev.conds, False)]:
                inits.add(ast.unparse(o.targets[0]))       # `if k not in acc: acc[k] = {}`: the entry is created once
                continue
            stores.append(("replace", ev))
        elif ev.kind == "expr" and isinstance(o.value, ast.Call) and isinstance(o.value.func, ast.Attribute) \
                and o.value.func.attr == "update":
            base = o.value.func.value
            if isinstance(base, ast.Call) and isinstance(base.func, ast.Attribute) and base.func.attr == "setdefault" \
                    and isinstance(base.func.value, ast.Name) and base.func.value.id in accs \
                    and len(base.args) == 2 and ast.unparse(base.args[1]) in ("{}", "dict()"):
                stores.append(("merge", ev))
            elif isinstance(base, ast.Name) and base.id in accs:
                stores.append(("replace", ev))           # acc.update({k: v}) replaces the entry of k
            elif isinstance(base, ast.Subscript) and isinstance(base.value, ast.Name) and base.value.id in accs \
                    and ast.unparse(base) in inits:
                stores.append(("merge", ev))
            elif any(isinstance(n, ast.Name) and n.id in accs for n in ast.walk(base)):
                fail(ev.orig, "unknown store into the result mapping")
        elif ev.kind == "augstore" and any(isinstance(n, ast.Name) and n.id in accs for n in ast.walk(o.target)):
            fail(ev.orig, "unknown store into the result mapping")
    stores = [(k, ev) for k, ev in stores if ev.in_ctx("loop")]
    if len(stores) != 1:
        fail(fn, f"Outputs.save_to_file: expected one store into the result mapping, found {len(stores)}")
    return stores[0][0] == "merge"


def dask_snapshot(repo: Path) -> bool:
    sym = read(repo, "pyxel/observation/observation_dask.py", "run_pipelines_with_dask")
    fn = sym.frames[0].fn
    calls = [c for _, c in sites(sym, name="apply_ufunc")]
    if len(calls) != 1:
        fail(fn, "run_pipelines_with_dask must call xr.apply_ufunc once")
    kw = {k.arg: k.value for k in calls[0].keywords}
    d = kw.get("kwargs")
    if isinstance(d, ast.Call) and _is_name(d.func, "dict") and not d.args:
        ent = {k.arg: k.value for k in d.keywords}
    elif isinstance(d, ast.Dict):
        ent = {k.value: v for k, v in zip(d.keys, d.values) if isinstance(k, ast.Constant)}
        if len(ent) != len(d.keys):
            fail(d, "apply_ufunc kwargs with ** / computed keys")
    else:
        fail(calls[0], "apply_ufunc(kwargs=...) must be a dict display")
    if "outputs" not in ent:
        fail(d, 'apply_ufunc kwargs must have an "outputs" entry')
    v = ent["outputs"]
    if _is_name(v, "outputs"):
        return False
    if ast.unparse(v) in ("deepcopy(outputs)", "copy.deepcopy(outputs)"):
        return True
    fail(v, 'the "outputs" entry must be `outputs` or `deepcopy(outputs)`')


# ------------------------------------------------------------------------------------------ automatic numbering


def _linear(e: ast.AST):
    """e == core + k for an int literal k (any nesting of +)."""
    k = 0
    while isinstance(e, ast.BinOp) and isinstance(e.op, ast.Add):
        if isinstance(e.right, ast.Constant) and type(e.right.value) is int:
            k, e = k + e.right.value, e.left
        elif isinstance(e.left, ast.Constant) and type(e.left.value) is int:
            k, e = k + e.left.value, e.right
        else:
            break
    return e, k


def _max_like(e: ast.AST):
    """(iterable, default | None) if e is the largest element of an iterable: max(X[, default=d]), sorted(X)[-1]."""
    if isinstance(e, ast.Subscript) and isinstance(e.slice, ast.UnaryOp) and isinstance(e.slice.op, ast.USub) \
            and isinstance(e.slice.operand, ast.Constant) and e.slice.operand.value == 1 \
            and isinstance(e.value, ast.Call) and _is_name(e.value.func, "sorted") and len(e.value.args) == 1 \
            and not e.value.keywords:
        return e.value.args[0], None
    if isinstance(e, ast.Call) and _is_name(e.func, "max") and len(e.args) == 1:
        kw = {k.arg: k.value for k in e.keywords}
        if set(kw) - {"default"}:
            return None
        d = None
        if "default" in kw:
            if not (isinstance(kw["default"], ast.Constant) and type(kw["default"].value) is int):
                return None
            d = kw["default"].value
        x = e.args[0]
        while isinstance(x, ast.Call) and isinstance(x.func, ast.Name) and x.func.id in ("sorted", "list", "tuple") \
                and len(x.args) == 1 and not x.keywords:
            x = x.args[0]
        return x, d
    return None


def _leaves(e: ast.AST, lits):
    if isinstance(e, ast.IfExp):
        return _leaves(e.body, lits + literals(e.test, True)) + _leaves(e.orelse, lits + literals(e.test, False))
    return [(e, lits)]


def auto_number(repo: Path) -> tuple[int, int]:
    """apply_run_number: (step added to the largest number found, number used when nothing matches).  The way
    the largest number is taken (sorted()[-1] / max / max(default=)), where the per-name function lives and how
    the branches are arranged do not matter; what the per-name function computes is the model's `get_number`,
    compared by the correspondence on zero-padded / dotted / unnumbered names."""
    sym = read(repo, UTL, "apply_run_number")
    fn = sym.frames[0].fn
    mod = Mod.get(repo, UTL)
    leaves = []
    nfmt = 0
    for ev, c in sites(sym, attr="format"):
        if True:
            nfmt += 1
            if len(c.args) != 1 or c.keywords or not ast.unparse(c.func.value).endswith(".replace('?', '{}')"):
                fail(ev.orig, "the number must be put in by <template>.replace('?', '{}').format(<number>)")
            if ev.in_ctx("loop"):
                fail(ev.orig, "format call inside a loop")
            leaves += _leaves(c.args[0], cond_literals(ev.conds, False) + cond_literals(ev.conds, True))
    if not leaves:
        fail(fn, "apply_run_number: no format call")
    step = first = None
    maxes, consts, params = [], [], []
    for e, lits in leaves:
        signs = {txt: pol for txt, pol, _ in lits}
        core, k = _linear(e)
        if _is_name(core, "run_number"):
            if signs.get("run_number is None") is not False or k != 1:
                fail(e, "with a run number the file number must be run_number + 1, only when it is not None")
            params.append(k)
            continue
        if signs.get("run_number is None") is not True:
            fail(e, "the automatic number must be used exactly when run_number is None")
        ml = _max_like(core)
        if ml is not None:
            maxes.append((ml[0], ml[1], k, signs))
        elif isinstance(core, ast.Constant) and type(core.value) is int and core.value + k >= 0:
            consts.append((core.value + k, signs))
        else:
            fail(e, "automatic number: neither <largest number found> + <int> nor an int")
    if len(params) < 1 or not maxes or len({_dump(x) for x, _, _, _ in maxes}) != 1 or len({k for _, _, k, _ in maxes}) != 1:
        fail(fn, "apply_run_number: number shapes")
    it, default, step, signs = maxes[0]
    if step < 0:
        fail(fn, "negative step")
    if default is None:
        if len(consts) != 1:
            fail(fn, "apply_run_number: no number for the case that nothing matches")
        first = consts[0][0]
        ittxt = ast.unparse(it)
        empties = [txt for txt, pol in consts[0][1].items() if ittxt in txt and txt not in ("run_number is None",)]
        if not empties:
            fail(fn, "apply_run_number: the first number must be chosen by a test of the matching names")
    else:
        if consts:
            fail(fn, "apply_run_number: both a default and a separate first number")
        first = default + step
    # the iterable: <per-name number>(name) for every name of glob(<template with * for ?>)
    if isinstance(it, (ast.GeneratorExp, ast.ListComp)) and len(it.generators) == 1 and not it.generators[0].ifs \
            and isinstance(it.elt, ast.Call) and isinstance(it.elt.func, ast.Name) and len(it.elt.args) == 1 \
            and _dump(it.elt.args[0]) == _dump(ast.Name(id=it.generators[0].target.id, ctx=ast.Load())
                                               if isinstance(it.generators[0].target, ast.Name) else it):
        g, src = it.elt.func.id, it.generators[0].iter
    elif isinstance(it, ast.Call) and _is_name(it.func, "map") and len(it.args) == 2 and isinstance(it.args[0], ast.Name):
        g, src = it.args[0].id, it.args[1]
    else:
        fail(it, "the numbers must be <function>(name) for every matching name")
    while isinstance(src, ast.Call) and isinstance(src.func, ast.Name) and src.func.id in ("sorted", "list") and len(src.args) == 1:
        src = src.args[0]
    if not (isinstance(src, ast.Call) and ast.unparse(src.func) in ("glob", "glob.glob") and len(src.args) == 1
            and ast.unparse(src.args[0]).endswith(".replace('?', '*')")):
        fail(src, "the matching names must come from glob(<template>.replace('?', '*'))")
    gfn = sym.frames[0].nested.get(g)
    gmod = mod
    if gfn is None:
        hit = mod.find_function(g)
        if hit is None:
            fail(it, f"per-name function {g} not found")
        gmod, gfn = hit
    gs = Sym(gmod, gfn)
    consts_g = {n.value for ev in gs.events for root in [ev.node] + [t for t, _, _ in ev.conds] for n in ast.walk(root)
                if isinstance(n, ast.Constant) and isinstance(n.value, str)}
    if "\\d+$" not in consts_g or not any(calls_in(ev.node, name="int") for ev in gs.events):
        fail(gfn, "per-name function: the trailing digits (\\d+$) converted by int() expected")
    return step, first


def coq_str(s: str) -> str:
    assert all(32 <= ord(c) < 127 and c != '"' for c in s), s
    return '"' + s + '"'


def cb(b: bool) -> str:
    return 'true' if b else 'false'


def render(excl: bool, writers, new_tab, old_tab, exts, flags, auto=(1, 1)) -> str:
    ws = "; ".join(f"({coq_str(w)}, {b})" for w, b in writers)
    nt = "; ".join(f"({FMT[k]}, {'None' if w is None else 'Some ' + coq_str(w)})" for k, w in new_tab)
    ot = "; ".join(f"({FMT[k]}, {coq_str(w)})" for k, w in old_tab)
    et = "; ".join(f"({coq_str(w)}, {coq_str(e)})" for w, e in exts)
    return (HEADER +
            "From Coq Require Import List String.\nFrom PyxelV Require Import Model.Outputs.\n"
            "Import ListNotations.\nOpen Scope string_scope.\n"
            f"Definition src_mkdir_exclusive : bool := {'true' if excl else 'false'}.\n"
            "Definition src_tables : tables := {|\n"
            f"  t_writers := [{ws}];\n"
            f"  t_new := [{nt}];\n"
            f"  t_old := [{ot}];\n"
            f"  t_old_ext := [{et}];\n"
            f"  t_seq_new_stage := {cb(flags[0])}; t_old_all_items := {cb(flags[1])};\n"
            f"  t_old_merge := {cb(flags[2])}; t_dask_snapshot := {cb(flags[3])} |}}.\n"
            f"Definition src_auto : auto_cfg := {{| a_step := {int(auto[0])}; a_first := {int(auto[1])} |}}.\n")


def translate(repo: Path) -> str:
    try:
        return _translate(repo)
    except TranslationError:
        raise
    except RecursionError as ex:
        raise TranslationError(f"source too deep to read: {ex}") from ex
    except (AttributeError, KeyError, IndexError, TypeError, ValueError, AssertionError) as ex:
        # a shape the reader itself does not cope with: fail closed, never crash the check
        raise TranslationError(f"unreadable source shape ({type(ex).__name__}: {ex})") from ex


def _translate(repo: Path) -> str:
    Mod._cache.clear()
    excl = mkdir_loop(repo)
    ow = new_overwrite(repo)
    writers, exts = [], []
    for w in OLD_WRITERS:
        sym = read(repo, UTL, w)
        writers.append((w, writer_behaviour(sym)[0]))
        exts.append((w, old_ext(sym)))
    for w in NEW_WRITERS:
        b, guarded = writer_behaviour(read(repo, UTL, w))
        if ow and b in ("Skip", "Raise") and guarded:
            b = "Overwrite"          # the existence test is disabled by overwrite=True
        writers.append((w, b))
    new_tab = new_dispatch(repo)
    old_sym = read(repo, OUT, "save_to_file", cls="Outputs")
    old_tab = old_dispatch(repo, old_sym)
    check_build_filenames(repo)
    all_items, merge = old_items_and_merge(old_sym)
    flags = (seq_new_stage(repo), all_items, merge, dask_snapshot(repo))
    return render(excl, writers, new_tab, old_tab, exts, flags, auto_number(repo))


# the text for the unchanged tree (C19-F17a/b/c/d repaired)
FALLBACK = render(
    True,
    [("to_fits", "Raise"), ("to_hdf", "Raise"), ("to_npy", "Raise"), ("to_txt", "Raise"),
     ("to_csv", "Raise"), ("to_png", "Raise"), ("to_jpg", "Raise"),
     ("write_to_fits", "Raise"), ("write_to_jpg", "Raise"), ("write_to_npy", "Raise")],
    [("fits", "write_to_fits"), ("npy", "write_to_npy"), ("hdf", None), ("txt", None), ("csv", None),
     ("png", None), ("jpg", "write_to_jpg"), ("jpeg", "write_to_jpg")],
    [("fits", "to_fits"), ("hdf", "to_hdf"), ("npy", "to_npy"), ("txt", "to_txt"), ("csv", "to_csv"),
     ("png", "to_png"), ("jpg", "to_jpg"), ("jpeg", "to_jpg")],
    [("to_fits", "fits"), ("to_hdf", "h5"), ("to_npy", "npy"), ("to_txt", "txt"), ("to_csv", "csv"),
     ("to_png", "png"), ("to_jpg", "jpg")],
    (False, True, True, True),
)
