"""pyxel/outputs/{outputs,utils}.py + the save_to_files call in exposure.py -> Gen_C19.v

Extracted (fail closed on any other shape):
  * create_output_directory: the retry loop must be `add = ""; count = 0; while True: try: <dir built from
    an f-string ending in {add}>; <dir>.mkdir(parents=True, exist_ok=<bool literal>) except FileExistsError:
    count += 1; add = "_" + str(count); continue else: return <dir>`  -> src_mkdir_exclusive
  * every writer `to_<fmt>` / `write_to_<fmt>` of outputs/utils.py: does it test `<path>.exists()` before
    writing and what does it do then (raise FileExistsError / return = skip); if it has no test, does it
    delegate to astropy `writeto(..., overwrite=False)` (= raises) -> Raise | Skip | Overwrite
  * save_to_files: the `match extension` dispatch (writer or NotImplementedError per format), its
    `overwrite` default and whether run_pipeline passes `overwrite`
  * Outputs.save_to_file: the `save_methods` table; the extension of each to_* template; whether it
    uses the first item of each dict only or loops over `dct.items()`; whether the per-bucket result
    replaces (`all_filenames[k] = v`) or merges (`all_filenames.setdefault(k, {}).update(v)`)
  * Outputs.build_filenames: reads no attribute of `self` other than `save_data_to_file` (so nothing
    remembered from an earlier call can enter), iterates it directly, two f-string templates
    detector_{bucket}.{ext} / detector_{bucket}_{suffix}.{ext}
  * Observation._run_single_pipeline: the `outputs=` argument of its run_pipeline call (self.outputs | None)
  * run_pipelines_with_dask: the "outputs" entry of the kwargs given to apply_ufunc (outputs | deepcopy(outputs))
"""
from __future__ import annotations

import ast
import re
from pathlib import Path

from .common import HEADER, body_no_doc, fail, find_func, parse

FMT = {"fits": "Fits", "hdf": "Hdf", "npy": "Npy", "txt": "Txt", "csv": "Csv", "png": "Png", "jpg": "Jpg",
       "jpeg": "Jpeg"}
OLD_WRITERS = ["to_fits", "to_hdf", "to_npy", "to_txt", "to_csv", "to_png", "to_jpg"]
NEW_WRITERS = ["write_to_fits", "write_to_jpg", "write_to_npy"]


# ------------------------------------------------------------------------------------------ mkdir loop


def _is_name(n, ident):
    return isinstance(n, ast.Name) and n.id == ident


def mkdir_loop(repo: Path) -> bool:
    tree = parse(repo, "pyxel/outputs/outputs.py")
    fn = find_func(tree, "create_output_directory")
    body = body_no_doc(fn)
    inits = {}
    for st in body:
        if isinstance(st, ast.Assign) and len(st.targets) == 1 and isinstance(st.targets[0], ast.Name) \
                and isinstance(st.value, ast.Constant):
            inits[st.targets[0].id] = st.value.value
    if inits.get("add", None) != "" or inits.get("count", None) != 0 or isinstance(inits.get("count"), bool):
        fail(fn, 'create_output_directory must start with add = "" and count = 0')
    loops = [st for st in body if isinstance(st, ast.While)]
    if len(loops) != 1 or body[-1] is not loops[0]:
        fail(fn, "create_output_directory must end with exactly one while loop")
    loop = loops[0]
    if not (isinstance(loop.test, ast.Constant) and loop.test.value is True) or loop.orelse:
        fail(loop, "retry loop must be `while True`")
    if len(loop.body) != 1 or not isinstance(loop.body[0], ast.Try):
        fail(loop, "retry loop body must be a single try statement")
    tr = loop.body[0]
    if tr.finalbody:
        fail(tr, "no finally expected")
    # try body: assignment of the directory from an f-string ending in {add}; then <dir>.mkdir(...)
    if len(tr.body) != 2 or not isinstance(tr.body[0], (ast.Assign, ast.AnnAssign)):
        fail(tr, "try body must be `<dir> = ...; <dir>.mkdir(...)`")
    tgt = tr.body[0].target if isinstance(tr.body[0], ast.AnnAssign) else tr.body[0].targets[0]
    if not isinstance(tgt, ast.Name):
        fail(tr.body[0], "directory variable")
    dvar = tgt.id
    fstrs = [n for n in ast.walk(tr.body[0].value) if isinstance(n, ast.JoinedStr)]
    if len(fstrs) != 1:
        fail(tr.body[0], "directory name must be built from one f-string")
    parts = fstrs[0].values
    if not (len(parts) == 3 and all(isinstance(p, ast.FormattedValue) and isinstance(p.value, ast.Name) for p in parts)
            and [p.value.id for p in parts] == ["prefix_dir", "date_str", "add"]):
        fail(fstrs[0], 'directory name must be f"{prefix_dir}{date_str}{add}"')
    call = tr.body[1]
    if not (isinstance(call, ast.Expr) and isinstance(call.value, ast.Call) and isinstance(call.value.func, ast.Attribute)
            and call.value.func.attr == "mkdir" and _is_name(call.value.func.value, dvar) and not call.value.args):
        fail(call, "second statement of the try body must be <dir>.mkdir(...)")
    kws = {k.arg: k.value for k in call.value.keywords}
    if set(kws) - {"parents", "exist_ok", "mode"}:
        fail(call, "unexpected mkdir keyword")
    excl = True
    if "exist_ok" in kws:
        v = kws["exist_ok"]
        if not (isinstance(v, ast.Constant) and isinstance(v.value, bool)):
            fail(call, "exist_ok must be a bool literal")
        excl = not v.value
    # handler
    if len(tr.handlers) != 1 or not _is_name(tr.handlers[0].type, "FileExistsError"):
        fail(tr, "exactly one handler `except FileExistsError` expected")
    hb = tr.handlers[0].body
    ok = (len(hb) == 3
          and isinstance(hb[0], ast.AugAssign) and _is_name(hb[0].target, "count") and isinstance(hb[0].op, ast.Add)
          and isinstance(hb[0].value, ast.Constant) and hb[0].value.value == 1
          and isinstance(hb[1], ast.Assign) and len(hb[1].targets) == 1 and _is_name(hb[1].targets[0], "add")
          and ast.unparse(hb[1].value) in ("'_' + str(count)", '"_" + str(count)', "f'_{count}'")
          and isinstance(hb[2], ast.Continue))
    if not ok:
        fail(tr.handlers[0], 'handler must be `count += 1; add = "_" + str(count); continue`')
    if not (len(tr.orelse) == 1 and isinstance(tr.orelse[0], ast.Return) and _is_name(tr.orelse[0].value, dvar)):
        fail(tr, "else branch must return the created directory")
    return excl


# ------------------------------------------------------------------------------------------ writers


def _has_exists_call(test: ast.AST) -> bool:
    return any(isinstance(n, ast.Call) and isinstance(n.func, ast.Attribute) and n.func.attr == "exists"
               for n in ast.walk(test))


def writer_behaviour(fn: ast.FunctionDef) -> str:
    """Raise | Skip | Overwrite for one writer."""
    tests = [st for st in ast.walk(fn) if isinstance(st, ast.If) and _has_exists_call(st.test)]
    if len(tests) > 1:
        fail(fn, "more than one existence test")
    if tests:
        st = tests[0]
        if st not in fn.body:
            fail(st, "existence test must be a top-level statement of the writer")
        t = st.test
        plain = isinstance(t, ast.Call)
        guarded = (isinstance(t, ast.BoolOp) and isinstance(t.op, ast.And) and len(t.values) == 2
                   and isinstance(t.values[0], ast.Call)
                   and ast.unparse(t.values[1]) == "not overwrite")
        if not (plain or guarded) or st.orelse:
            fail(t, "existence test must be `<p>.exists()` or `<p>.exists() and not overwrite`")
        # the test must come before anything that writes
        idx = fn.body.index(st)
        for later in fn.body[:idx]:
            for n in ast.walk(later):
                if isinstance(n, ast.Call) and isinstance(n.func, ast.Attribute) and n.func.attr in (
                        "save", "savetxt", "writeto", "to_csv", "File"):
                    fail(later, "a write precedes the existence test")
        last = st.body[-1]
        if isinstance(last, ast.Raise):
            exc = last.exc
            nm = exc.func.id if isinstance(exc, ast.Call) and isinstance(exc.func, ast.Name) else \
                exc.id if isinstance(exc, ast.Name) else None
            if nm != "FileExistsError":
                fail(last, "existence test must raise FileExistsError")
            return "Raise"
        if isinstance(last, ast.Return) and last.value is None:
            return "Skip"
        fail(st, "existence test must end with raise FileExistsError or a bare return")
    # no explicit test: astropy's writeto(overwrite=False) refuses existing files
    wt = [n for n in ast.walk(fn) if isinstance(n, ast.Call) and isinstance(n.func, ast.Attribute)
          and n.func.attr == "writeto"]
    if wt:
        if len(wt) != 1:
            fail(fn, "more than one writeto call")
        kw = {k.arg: k.value for k in wt[0].keywords}
        if "overwrite" not in kw:
            return "Raise"          # astropy default: overwrite=False
        v = kw["overwrite"]
        if isinstance(v, ast.Constant) and isinstance(v.value, bool):
            return "Overwrite" if v.value else "Raise"
        fail(wt[0], "writeto(overwrite=...) must be a bool literal when there is no existence test")
    return "Overwrite"


def _guarded_by_overwrite(fn: ast.FunctionDef) -> bool:
    tests = [st for st in fn.body if isinstance(st, ast.If) and _has_exists_call(st.test)]
    return bool(tests) and isinstance(tests[0].test, ast.BoolOp)


def old_ext(fn: ast.FunctionDef) -> str:
    exts = set()
    for n in ast.walk(fn):
        if isinstance(n, ast.JoinedStr) and n.values and isinstance(n.values[-1], ast.Constant):
            m = re.fullmatch(r"_\?\.(\w+)", str(n.values[-1].value))
            if m:
                exts.add(m.group(1))
    if len(exts) != 1:
        fail(fn, f"expected exactly one template f\"{{name}}_?.<ext>\", found {sorted(exts)}")
    return exts.pop()


def new_dispatch(fn: ast.FunctionDef):
    ms = [n for n in ast.walk(fn) if isinstance(n, ast.Match)]
    if len(ms) != 1 or not _is_name(ms[0].subject, "extension"):
        fail(fn, "save_to_files must contain exactly one `match extension`")
    table = []
    for case in ms[0].cases:
        pat = case.pattern
        if isinstance(pat, ast.MatchAs) and pat.pattern is None:
            if not isinstance(case.body[0], ast.Raise):
                fail(case.body[0], "default case must raise")
            continue
        alts = pat.patterns if isinstance(pat, ast.MatchOr) else [pat]
        keys = []
        for a in alts:
            if not (isinstance(a, ast.MatchValue) and isinstance(a.value, ast.Constant) and a.value.value in FMT):
                fail(case.body[0], "case pattern must be a known format literal")
            keys.append(a.value.value)
        if case.guard is not None or len(case.body) != 1:
            fail(case.body[0], "case body must be one statement")
        st = case.body[0]
        if isinstance(st, ast.Raise):
            w = None
        elif isinstance(st, ast.Expr) and isinstance(st.value, ast.Call) and isinstance(st.value.func, ast.Name) \
                and st.value.func.id in NEW_WRITERS:
            w = st.value.func.id
            kw = {k.arg: k.value for k in st.value.keywords}
            if not ("overwrite" in kw and _is_name(kw["overwrite"], "overwrite")):
                fail(st, "writer must be called with overwrite=overwrite")
            if not ("filename" in kw and _is_name(kw["filename"], "full_filename")):
                fail(st, "writer must be called with filename=full_filename")
        else:
            fail(st, "case must call a write_to_* writer or raise")
        for k in keys:
            table.append((k, w))
    seen = [k for k, _ in table]
    if len(set(seen)) != len(seen):
        fail(fn, "a format appears in two cases")
    return table


def new_overwrite(repo: Path, utils_tree) -> bool:
    """True if the new-API writers may be called with overwrite=True."""
    fn = find_func(utils_tree, "save_to_files")
    names = [a.arg for a in fn.args.args]
    if "overwrite" not in names:
        fail(fn, "save_to_files has no `overwrite` parameter")
    defaults = dict(zip(names[len(names) - len(fn.args.defaults):], fn.args.defaults))
    d = defaults.get("overwrite")
    if not (isinstance(d, ast.Constant) and isinstance(d.value, bool)):
        fail(fn, "save_to_files: `overwrite` must default to a bool literal")
    ow = d.value
    ex = parse(repo, "pyxel/exposure/exposure.py")
    calls = [n for n in ast.walk(ex) if isinstance(n, ast.Call) and _is_name(n.func, "save_to_files")]
    if len(calls) != 1:
        fail(ex, f"expected one save_to_files call in exposure.py, found {len(calls)}")
    kw = {k.arg: k.value for k in calls[0].keywords}
    if "overwrite" in kw:
        v = kw["overwrite"]
        if not (isinstance(v, ast.Constant) and isinstance(v.value, bool)):
            fail(calls[0], "save_to_files(overwrite=...) must be a bool literal")
        ow = v.value
    if calls[0].args:
        fail(calls[0], "save_to_files must be called with keywords")
    return ow


def old_dispatch(repo: Path):
    tree = parse(repo, "pyxel/outputs/outputs.py")
    fn = find_func(tree, "save_to_file", cls="Outputs")
    dicts = [st for st in fn.body if isinstance(st, (ast.Assign, ast.AnnAssign))
             and isinstance(st.value, ast.Dict)
             and _is_name(st.target if isinstance(st, ast.AnnAssign) else st.targets[0], "save_methods")]
    if len(dicts) != 1:
        fail(fn, "Outputs.save_to_file must define save_methods once")
    table = []
    for k, v in zip(dicts[0].value.keys, dicts[0].value.values):
        if not (isinstance(k, ast.Constant) and k.value in FMT and isinstance(v, ast.Name) and v.id in OLD_WRITERS):
            fail(dicts[0], "save_methods must map format literals to to_* writers")
        table.append((k.value, v.id))
    if sorted(k for k, _ in table) != sorted(FMT):
        fail(dicts[0], "save_methods must cover exactly the eight formats")
    # the import must bind these names to pyxel.outputs.utils
    imp = [n for n in tree.body if isinstance(n, ast.ImportFrom) and n.module == "pyxel.outputs.utils"]
    bound = {a.asname or a.name for n in imp for a in n.names}
    for _, w in table:
        if w not in bound:
            fail(fn, f"{w} is not imported from pyxel.outputs.utils")
    return table


# ------------------------------------------------------------------------------------------ state / flow shape


def _self_attrs(fn: ast.FunctionDef) -> set[str]:
    return {n.attr for n in ast.walk(fn) if isinstance(n, ast.Attribute) and _is_name(n.value, "self")}


def check_build_filenames(repo: Path) -> None:
    """build_filenames must be a pure function of self.save_data_to_file and its argument."""
    tree = parse(repo, "pyxel/outputs/outputs.py")
    fn = find_func(tree, "build_filenames", cls="Outputs")
    attrs = _self_attrs(fn)
    if attrs - {"save_data_to_file"}:
        fail(fn, f"build_filenames reads/writes other attributes of self: {sorted(attrs - {'save_data_to_file'})}")
    for n in ast.walk(fn):
        if isinstance(n, (ast.Global, ast.Nonlocal)):
            fail(n, "build_filenames must not use global/nonlocal state")
    loops = [n for n in body_no_doc(fn) if isinstance(n, ast.For)]
    aliases = {st.targets[0].id for st in body_no_doc(fn)
               if isinstance(st, ast.Assign) and len(st.targets) == 1 and isinstance(st.targets[0], ast.Name)
               and ast.unparse(st.value) == "self.save_data_to_file"}
    if len(loops) != 1 or not (ast.unparse(loops[0].iter) == "self.save_data_to_file"
                               or (isinstance(loops[0].iter, ast.Name) and loops[0].iter.id in aliases)):
        fail(fn, "build_filenames must iterate `self.save_data_to_file` in one top-level for loop")
    templates = []
    for n in ast.walk(fn):
        if isinstance(n, ast.JoinedStr):
            templates.append(tuple(v.value for v in n.values if isinstance(v, ast.Constant)))
    if sorted(templates) != [("detector_", "."), ("detector_", "_", ".")]:
        fail(fn, f"build_filenames: unexpected file name templates {templates}")


def seq_new_stage(repo: Path) -> bool:
    tree = parse(repo, "pyxel/observation/observation.py")
    fn = find_func(tree, "_run_single_pipeline", cls="Observation")
    calls = [n for n in ast.walk(fn) if isinstance(n, ast.Call) and _is_name(n.func, "run_pipeline")]
    if len(calls) != 1 or calls[0].args:
        fail(fn, "_run_single_pipeline must call run_pipeline once, with keywords")
    kw = {k.arg: k.value for k in calls[0].keywords}
    if "output_filename_suffix" in kw:
        fail(calls[0], "_run_single_pipeline: run_pipeline(output_filename_suffix=...) is not a known shape")
    v = kw.get("outputs")
    saves = [n for n in ast.walk(fn) if isinstance(n, ast.Call) and isinstance(n.func, ast.Attribute)
             and n.func.attr == "save_to_file"]
    if len(saves) != 1:
        fail(fn, "_run_single_pipeline must call outputs.save_to_file once")
    skw = {k.arg: k.value for k in saves[0].keywords}
    if "run_number" not in skw or ast.unparse(skw["run_number"]) != "param_item.run_index":
        fail(saves[0], "save_to_file must be called with run_number=param_item.run_index")
    if isinstance(v, ast.Attribute) and _is_name(v.value, "self") and v.attr == "outputs":
        return True
    if isinstance(v, ast.Constant) and v.value is None:
        return False
    fail(calls[0], "run_pipeline(outputs=...) must be self.outputs or None")


def old_items_and_merge(repo: Path) -> tuple[bool, bool]:
    tree = parse(repo, "pyxel/outputs/outputs.py")
    fn = find_func(tree, "save_to_file", cls="Outputs")
    outer = [n for n in fn.body if isinstance(n, ast.For)]
    if len(outer) != 1:
        fail(fn, "Outputs.save_to_file must have one top-level for loop")
    flat = ("item for dct in self.save_data_to_file for item in dct.items()",
            "(k, v) for dct in self.save_data_to_file for k, v in dct.items()")
    if isinstance(outer[0].iter, (ast.ListComp, ast.GeneratorExp)):
        # for valid_name, format_list in [item for dct in self.save_data_to_file for item in dct.items()]:
        if ast.unparse(outer[0].iter)[1:-1] not in flat \
                or ast.unparse(outer[0].target) != "(valid_name, format_list)":
            fail(outer[0], "unknown flattened loop over the items of save_data_to_file")
        return True, _old_store(outer[0])
    if not (isinstance(outer[0].iter, ast.Attribute) and _is_name(outer[0].iter.value, "self")
            and outer[0].iter.attr == "save_data_to_file" and _is_name(outer[0].target, "dct")):
        fail(fn, "Outputs.save_to_file must loop `for dct in self.save_data_to_file`")
    first = [n for n in ast.walk(outer[0]) if isinstance(n, ast.Assign) and isinstance(n.targets[0], ast.Tuple)
             and any(isinstance(e, ast.Starred) for e in n.targets[0].elts)
             and ast.unparse(n.value) == "dct.items()"]
    inner = [n for n in outer[0].body if isinstance(n, ast.For) and ast.unparse(n.iter) == "dct.items()"]
    if len(first) == 1 and not inner:
        if ast.unparse(first[0].targets[0]) != "(first_item, *_)":
            fail(first[0], "unexpected unpacking of dct.items()")
        all_items = False
        scope = outer[0]
    elif len(inner) == 1 and not first:
        if ast.unparse(inner[0].target) != "(valid_name, format_list)":
            fail(inner[0], "inner loop must be `for valid_name, format_list in dct.items()`")
        all_items = True
        scope = inner[0]
    else:
        fail(outer[0], "Outputs.save_to_file: neither the first-item shape nor a loop over dct.items()")
    return all_items, _old_store(scope)


def _old_store(scope) -> bool:
    """True if the per-bucket result is merged into all_filenames, False if it replaces the entry."""
    stores = []
    for n in ast.walk(scope):
        if isinstance(n, ast.Assign) and isinstance(n.targets[0], ast.Subscript) \
                and _is_name(n.targets[0].value, "all_filenames"):
            stores.append(("replace", ast.unparse(n)))
        if isinstance(n, ast.Call) and isinstance(n.func, ast.Attribute) and n.func.attr in ("update", "setdefault") \
                and "all_filenames" in ast.unparse(n.func.value):
            if n.func.attr == "update":
                stores.append(("merge", ast.unparse(n)))
    if len(stores) != 1:
        fail(scope, f"Outputs.save_to_file: expected one store into all_filenames, found {stores}")
    kind, text = stores[0]
    if kind == "replace":
        if text != "all_filenames[valid_name] = partial_filenames":
            fail(scope, f"unknown store {text}")
        return False
    if text != "all_filenames.setdefault(valid_name, {}).update(partial_filenames)":
        fail(scope, f"unknown store {text}")
    return True


def dask_snapshot(repo: Path) -> bool:
    tree = parse(repo, "pyxel/observation/observation_dask.py")
    fn = find_func(tree, "run_pipelines_with_dask")
    calls = [n for n in ast.walk(fn) if isinstance(n, ast.Call) and ast.unparse(n.func) == "xr.apply_ufunc"]
    if len(calls) != 1:
        fail(fn, "run_pipelines_with_dask must call xr.apply_ufunc once")
    kw = {k.arg: k.value for k in calls[0].keywords}
    d = kw.get("kwargs")
    if not isinstance(d, ast.Dict):
        fail(calls[0], "apply_ufunc(kwargs=...) must be a dict display")
    ent = {k.value: v for k, v in zip(d.keys, d.values) if isinstance(k, ast.Constant)}
    if "outputs" not in ent:
        fail(d, 'apply_ufunc kwargs must have an "outputs" entry')
    v = ent["outputs"]
    if _is_name(v, "outputs"):
        return False
    if ast.unparse(v) in ("deepcopy(outputs)", "copy.deepcopy(outputs)"):
        return True
    fail(v, 'the "outputs" entry must be `outputs` or `deepcopy(outputs)`')


def coq_str(s: str) -> str:
    assert all(32 <= ord(c) < 127 and c != '"' for c in s), s
    return '"' + s + '"'


def auto_number(utils_tree) -> tuple[int, int]:
    """apply_run_number: (step added to the largest number found, number used when nothing matches)."""
    fn = find_func(utils_tree, "apply_run_number")
    inner = [n for n in fn.body if isinstance(n, ast.FunctionDef) and n.name == "get_number"]
    if len(inner) != 1:
        fail(fn, "apply_run_number must define get_number")
    gsrc = ast.unparse(inner[0])
    if "re.search('\\\\d+$', string.split('.')[-2])" not in gsrc or "return 0" not in gsrc \
            or "int(search.group())" not in gsrc:
        fail(inner[0], "get_number: unknown shape")
    assigns = {}
    for n in ast.walk(fn):
        if isinstance(n, (ast.Assign, ast.AnnAssign)):
            tgt = n.target if isinstance(n, ast.AnnAssign) else n.targets[0]
            if isinstance(tgt, ast.Name) and n.value is not None:
                assigns.setdefault(tgt.id, []).append(n.value)
    want = {"path_str_for_glob": ["template_str.replace('?', '*')"], "dir_list": ["glob(path_str_for_glob)"],
            "num_list": ["sorted((get_number(d) for d in dir_list))"]}
    for k, v in want.items():
        if [ast.unparse(x) for x in assigns.get(k, [])] != v:
            fail(fn, f"apply_run_number: `{k}` must be {v[0]}")
    nx = assigns.get("next_num", [])
    if len(nx) != 2:
        fail(fn, "apply_run_number: two assignments of next_num expected")
    step = first = None
    for v in nx:
        if isinstance(v, ast.BinOp) and isinstance(v.op, ast.Add) and ast.unparse(v.left) == "num_list[-1]" \
                and isinstance(v.right, ast.Constant) and isinstance(v.right.value, int) \
                and not isinstance(v.right.value, bool) and v.right.value >= 0:
            step = v.right.value
        elif isinstance(v, ast.Constant) and isinstance(v.value, int) and not isinstance(v.value, bool) and v.value >= 0:
            first = v.value
        else:
            fail(v, "next_num must be `num_list[-1] + <int>` or an int literal")
    if step is None or first is None:
        fail(fn, "apply_run_number: next_num shapes")
    ifs = [n for n in ast.walk(fn) if isinstance(n, ast.If) and ast.unparse(n.test) == "num_list"]
    if len(ifs) != 1 or "num_list[-1]" not in ast.unparse(ifs[0].body[0]):
        fail(fn, "apply_run_number: `if num_list:` must select the largest-number branch")
    fmt_calls = [ast.unparse(n) for n in ast.walk(fn) if isinstance(n, ast.Call) and isinstance(n.func, ast.Attribute)
                 and n.func.attr == "format"]
    if sorted(fmt_calls) != ["path_str.format(next_num)", "path_str.format(run_number + 1)"]:
        fail(fn, f"apply_run_number: unexpected format calls {fmt_calls}")
    return step, first


def cb(b: bool) -> str:
    return 'true' if b else 'false'


def render(excl: bool, writers, new_tab, old_tab, exts, flags, auto=(1, 1)) -> str:
    ws = "; ".join(f"({coq_str(w)}, {b})" for w, b in writers)
    nt = "; ".join(f"({FMT[k]}, {'None' if w is None else 'Some ' + coq_str(w)})" for k, w in new_tab)
    ot = "; ".join(f"({FMT[k]}, {coq_str(w)})" for k, w in old_tab)
    et = "; ".join(f"({coq_str(w)}, {coq_str(e)})" for w, e in exts)
    return (HEADER +
            "From Coq Require Import List String.\nFrom PyxelV Require Import Model.Outputs.\n"
            "Import ListNotations.\nOpen Scope string_scope.\n"
            f"Definition src_mkdir_exclusive : bool := {'true' if excl else 'false'}.\n"
            "Definition src_tables : tables := {|\n"
            f"  t_writers := [{ws}];\n"
            f"  t_new := [{nt}];\n"
            f"  t_old := [{ot}];\n"
            f"  t_old_ext := [{et}];\n"
            f"  t_seq_new_stage := {cb(flags[0])}; t_old_all_items := {cb(flags[1])};\n"
            f"  t_old_merge := {cb(flags[2])}; t_dask_snapshot := {cb(flags[3])} |}}.\n"
            f"Definition src_auto : auto_cfg := {{| a_step := {int(auto[0])}; a_first := {int(auto[1])} |}}.\n")


def translate(repo: Path) -> str:
    excl = mkdir_loop(repo)
    utils = parse(repo, "pyxel/outputs/utils.py")
    ow = new_overwrite(repo, utils)
    writers, exts = [], []
    for w in OLD_WRITERS:
        fn = find_func(utils, w)
        writers.append((w, writer_behaviour(fn)))
        exts.append((w, old_ext(fn)))
    for w in NEW_WRITERS:
        fn = find_func(utils, w)
        b = writer_behaviour(fn)
        if ow and b in ("Skip", "Raise") and _guarded_by_overwrite(fn):
            b = "Overwrite"          # the existence test is disabled by overwrite=True
        writers.append((w, b))
    new_tab = new_dispatch(find_func(utils, "save_to_files"))
    old_tab = old_dispatch(repo)
    check_build_filenames(repo)
    all_items, merge = old_items_and_merge(repo)
    flags = (seq_new_stage(repo), all_items, merge, dask_snapshot(repo))
    return render(excl, writers, new_tab, old_tab, exts, flags, auto_number(utils))


# the text for the unchanged tree (C19-F17a/b/c/d repaired)
FALLBACK = render(
    True,
    [("to_fits", "Raise"), ("to_hdf", "Raise"), ("to_npy", "Raise"), ("to_txt", "Raise"),
     ("to_csv", "Raise"), ("to_png", "Raise"), ("to_jpg", "Raise"),
     ("write_to_fits", "Raise"), ("write_to_jpg", "Raise"), ("write_to_npy", "Raise")],
    [("fits", "write_to_fits"), ("npy", "write_to_npy"), ("hdf", None), ("txt", None), ("csv", None),
     ("png", None), ("jpg", "write_to_jpg"), ("jpeg", "write_to_jpg")],
    [("fits", "to_fits"), ("hdf", "to_hdf"), ("npy", "to_npy"), ("txt", "to_txt"), ("csv", "to_csv"),
     ("png", "to_png"), ("jpg", "to_jpg"), ("jpeg", "to_jpg")],
    [("to_fits", "fits"), ("to_hdf", "h5"), ("to_npy", "npy"), ("to_txt", "txt"), ("to_csv", "csv"),
     ("to_png", "png"), ("to_jpg", "jpg")],
    (False, True, True, True),
)
