"""General, behaviour-preserving normalisations of python ASTs, applied by translator/c11.py BEFORE its extractors read
a function, so that equivalent shapes translate to the same table (never keyed on any particular text):

  * `inline_calls`   — calls of private helpers defined in the same class / module (`self._h(...)`, `_h(...)`) that are
                       a whole statement (`_h(..)`, `x = _h(..)`, `x: T = _h(..)`, `x += _h(..)`, `return _h(..)`) are
                       replaced by the helper's body (parameters substituted / bound, locals renamed, guard clauses and
                       early returns turned into nested if/else); a helper extracted from the function that is read
                       therefore translates like the inlined code.  Helpers that cannot be inlined safely (loops or
                       try blocks containing `return`, *args, generators, decorators, recursion) are left alone — the
                       extractors then fail closed as before.
  * `swap_negated_ifs` — `if not c: A else: B`  ->  `if c: B else: A`.
  * `subst_aliases`  — single-assignment local aliases of side-effect-free paths (`w = self.weighting`,
                       `geo = processor.detector.geometry`, `data = target_data`) are substituted at their uses, when
                       neither the alias nor anything on the aliased path is assigned in the function (nor, for
                       `self.<attr>`, in a method the function calls).
  * `module_constants` / `resolve_constants` — a Name whose only binding is ONE module-level assignment of a literal
                       (tuple / list / string / number) is replaced by the literal.
  * `ifexp_assign`   — `x = a if c else b`  ->  `if c: x = a else: x = b`.
  * `match_to_if`    — `match s: case <literal|dotted name>: ...` -> if/elif on `==`; `case Cls():` -> `isinstance(s, Cls)`
                       (other patterns: left alone).
  * `merge_same_test_ifs` — `if c: A else: B` directly followed by `if c: C else: D` on the same pure attribute path that
                       A / B do not write -> `if c: A; C else: B; D`.
  * `sink_into_branches` — tail duplication: `if c: A else: B` followed by `S` -> `if c: A; S else: B; S` for a landmark
                       statement `S` (and the plain local assignments / logging between the `if` and `S`) — a call that
                       was duplicated in the two branches and is hoisted behind the if/else reads like the duplicated
                       code.
"""
from __future__ import annotations

import ast
import copy

PURE_CALLS = {"len", "int", "float", "tuple", "bool", "str"}


# ----------------------------------------------------------------------------------------------- small helpers

def _names_assigned(fn) -> dict:
    """name -> number of bindings in `fn` (assignments, loop targets, with-targets, walrus, imports, params)"""
    cnt: dict = {}

    def add(t):
        for e in ast.walk(t):
            if isinstance(e, ast.Name) and isinstance(e.ctx, (ast.Store, ast.Del)):
                cnt[e.id] = cnt.get(e.id, 0) + 1
    for a in fn.args.args + fn.args.kwonlyargs + fn.args.posonlyargs:
        cnt[a.arg] = cnt.get(a.arg, 0) + 1
    for a in (fn.args.vararg, fn.args.kwarg):
        if a is not None:
            cnt[a.arg] = cnt.get(a.arg, 0) + 1
    for n in ast.walk(fn):
        if isinstance(n, (ast.Assign, ast.Delete)):
            for t in n.targets:
                add(t)
        elif isinstance(n, (ast.AnnAssign, ast.AugAssign)):
            add(n.target)
            if isinstance(n, ast.AugAssign):        # an in-place update is a second binding
                add(n.target)
        elif isinstance(n, (ast.For, ast.AsyncFor, ast.comprehension)):
            add(n.target)
        elif isinstance(n, (ast.With, ast.AsyncWith)):
            for it in n.items:
                if it.optional_vars is not None:
                    add(it.optional_vars)
        elif isinstance(n, ast.NamedExpr):
            add(n.target)
        elif isinstance(n, (ast.Import, ast.ImportFrom)):
            for al in n.names:
                nm = (al.asname or al.name).split(".")[0]
                cnt[nm] = cnt.get(nm, 0) + 1
        elif isinstance(n, ast.ExceptHandler) and n.name:
            cnt[n.name] = cnt.get(n.name, 0) + 1
        elif isinstance(n, (ast.Global, ast.Nonlocal)):
            for nm in n.names:
                cnt[nm] = cnt.get(nm, 0) + 2
        elif n is not fn and isinstance(n, (ast.FunctionDef, ast.AsyncFunctionDef, ast.ClassDef)):
            cnt[n.name] = cnt.get(n.name, 0) + 1
    return cnt


def _is_path(node) -> bool:
    """Name | path.attr  — reading it has no side effect and raises only AttributeError on a missing attribute"""
    while isinstance(node, ast.Attribute):
        node = node.value
    return isinstance(node, ast.Name)


def _path_prefixes(node) -> list[str]:
    out = []
    while isinstance(node, ast.Attribute):
        out.append(ast.unparse(node))
        node = node.value
    out.append(ast.unparse(node))
    return out


def _stored_paths(fn) -> dict:
    """source text of every assignment / deletion / in-place target (and its sub-targets) in `fn` -> the last line
    where it is stored (infinity when a store sits in a loop: it may run again later)"""
    out: dict = {}
    in_loop = set()
    for n in ast.walk(fn):
        if isinstance(n, (ast.For, ast.While, ast.AsyncFor)):
            for m in ast.walk(n):
                in_loop.add(id(m))
    for n in ast.walk(fn):
        tg = []
        if isinstance(n, (ast.Assign, ast.Delete)):
            tg = list(n.targets)
        elif isinstance(n, (ast.AnnAssign, ast.AugAssign)):
            tg = [n.target]
        elif isinstance(n, (ast.For, ast.AsyncFor, ast.comprehension)):
            tg = [n.target]
        elif isinstance(n, (ast.With, ast.AsyncWith)):
            tg = [it.optional_vars for it in n.items if it.optional_vars is not None]
        line = float("inf") if id(n) in in_loop or not hasattr(n, "lineno") else n.lineno
        for t in tg:
            for e in ast.walk(t):
                key = None
                if not isinstance(getattr(e, "ctx", None), (ast.Store, ast.Del)):
                    continue
                if isinstance(e, (ast.Name, ast.Attribute)):
                    key = ast.unparse(e)
                if isinstance(e, ast.Subscript):
                    key = ast.unparse(e.value)
                if key is not None:
                    out[key] = max(out.get(key, 0), line)
    return out


class _Subst(ast.NodeTransformer):
    def __init__(self, mapping: dict):
        self.mapping = mapping

    def visit_Name(self, node):
        if isinstance(node.ctx, ast.Load) and node.id in self.mapping:
            return copy.deepcopy(self.mapping[node.id])
        return node


class _Rename(ast.NodeTransformer):
    def __init__(self, mapping: dict):
        self.mapping = mapping

    def visit_Name(self, node):
        if node.id in self.mapping:
            return ast.copy_location(ast.Name(id=self.mapping[node.id], ctx=node.ctx), node)
        return node


def _fix(node, ref):
    ast.copy_location(node, ref)
    ast.fix_missing_locations(node)
    return node


# ----------------------------------------------------------------------------------------------- simple rewrites

class _SwapNot(ast.NodeTransformer):
    def visit_If(self, node):
        self.generic_visit(node)
        t = node.test
        if node.orelse and isinstance(t, ast.UnaryOp) and isinstance(t.op, ast.Not) \
                and not (len(node.orelse) == 1 and isinstance(node.orelse[0], ast.If)):
            node.test, node.body, node.orelse = t.operand, node.orelse, node.body
        return node


def swap_negated_ifs(fn):
    return _SwapNot().visit(fn)


class _IfExp(ast.NodeTransformer):
    def _split(self, node, target, value, mk):
        if isinstance(value, ast.IfExp) and isinstance(target, ast.Name):
            new = ast.If(test=value.test, body=[mk(value.body)], orelse=[mk(value.orelse)])
            return _fix(new, node)
        return node

    def visit_Assign(self, node):
        if len(node.targets) == 1:
            return self._split(node, node.targets[0], node.value,
                               lambda v: ast.Assign(targets=[copy.deepcopy(node.targets[0])], value=v))
        return node

    def visit_AnnAssign(self, node):
        if node.value is not None:
            return self._split(node, node.target, node.value,
                               lambda v: ast.Assign(targets=[copy.deepcopy(node.target)], value=v))
        return node


def ifexp_assign(fn):
    return _IfExp().visit(fn)


def _literal_pattern(p):
    """the expression a `case` pattern compares with by `==` (literal, dotted name), else None"""
    if isinstance(p, ast.MatchValue) and (isinstance(p.value, ast.Constant) or _is_path(p.value)
                                          or (isinstance(p.value, ast.UnaryOp) and isinstance(p.value.operand, ast.Constant))):
        return p.value
    return None


class _Match(ast.NodeTransformer):
    def visit_Match(self, node):
        self.generic_visit(node)
        if not _is_path(node.subject):
            return node
        branches, default = [], None
        for i, c in enumerate(node.cases):
            if c.guard is not None:
                return node
            p = c.pattern
            if isinstance(p, ast.MatchAs) and p.pattern is None and p.name is None and i == len(node.cases) - 1:
                default = c.body
                continue
            alts = p.patterns if isinstance(p, ast.MatchOr) else [p]
            tests = []
            for a in alts:
                v = _literal_pattern(a)
                if v is not None:
                    tests.append(ast.Compare(left=copy.deepcopy(node.subject), ops=[ast.Eq()], comparators=[v]))
                elif isinstance(a, ast.MatchClass) and not a.patterns and not a.kwd_patterns and _is_path(a.cls):
                    # `case Cls():` (no sub-patterns, no capture) is by definition `isinstance(<subject>, Cls)`
                    tests.append(ast.Call(func=ast.Name(id="isinstance", ctx=ast.Load()),
                                          args=[copy.deepcopy(node.subject), a.cls], keywords=[]))
                else:
                    # `case None/True/False` compare by identity: not an `==` chain; captures / sub-patterns: left alone
                    return node
            branches.append((tests[0] if len(tests) == 1 else ast.BoolOp(op=ast.Or(), values=tests), c.body))
        if not branches:
            return node
        cur = default or []
        for test, body in reversed(branches):
            cur = [_fix(ast.If(test=test, body=body, orelse=cur), node)]
        return cur[0]


def match_to_if(fn):
    return _Match().visit(fn)


# ----------------------------------------------------------------------------------------------- module constants

def module_constants(tree: ast.Module) -> dict:
    """NAME -> literal node, for names bound exactly once in the module, at top level, to a literal"""
    def literal(v):
        if isinstance(v, ast.Constant):
            return True
        if isinstance(v, (ast.Tuple, ast.List)):
            return all(literal(e) for e in v.elts)
        if isinstance(v, ast.UnaryOp) and isinstance(v.op, (ast.USub, ast.UAdd)):
            return literal(v.operand)
        return False
    count: dict = {}
    vals: dict = {}
    for n in ast.walk(tree):
        if isinstance(n, ast.Name) and isinstance(n.ctx, (ast.Store, ast.Del)):
            count[n.id] = count.get(n.id, 0) + 1
        elif isinstance(n, (ast.Global, ast.Nonlocal)):
            for nm in n.names:
                count[nm] = count.get(nm, 0) + 2
        elif isinstance(n, (ast.FunctionDef, ast.ClassDef, ast.AsyncFunctionDef)):
            count[n.name] = count.get(n.name, 0) + 1
        elif isinstance(n, ast.arg):
            count[n.arg] = count.get(n.arg, 0) + 1
    for st in tree.body:
        tgt = val = None
        if isinstance(st, ast.Assign) and len(st.targets) == 1 and isinstance(st.targets[0], ast.Name):
            tgt, val = st.targets[0].id, st.value
        elif isinstance(st, ast.AnnAssign) and isinstance(st.target, ast.Name) and st.value is not None:
            tgt, val = st.target.id, st.value
        if tgt is not None and literal(val):
            vals[tgt] = val
    return {k: v for k, v in vals.items() if count.get(k, 0) == 1}


def resolve_constants(fn, consts: dict):
    """replace loads of module-level literal constants (not shadowed in `fn`) by the literal"""
    if not consts:
        return fn
    local = _names_assigned(fn)
    return _Subst({k: v for k, v in consts.items() if k not in local}).visit(fn)


# ----------------------------------------------------------------------------------------------- aliases

def subst_aliases(fn, written_by_callees: set = frozenset()):
    """`a = <path>` (bound once, path not written in the function) -> uses of `a` replaced by the path.
    `written_by_callees`: attribute names of `self` written by methods the function calls (an alias of `self.<attr>`
    taken before such a call could be stale: left alone)."""
    for _ in range(4):
        fn = renumber(fn)
        cnt = _names_assigned(fn)
        stored = _stored_paths(fn)
        mapping, drop = {}, []
        for n in ast.walk(fn):
            tgt = val = None
            if isinstance(n, ast.Assign) and len(n.targets) == 1 and isinstance(n.targets[0], ast.Name):
                tgt, val = n.targets[0].id, n.value
            elif isinstance(n, ast.AnnAssign) and isinstance(n.target, ast.Name) and n.value is not None:
                tgt, val = n.target.id, n.value
            if tgt is None or cnt.get(tgt, 0) != 1 or not _is_path(val) or isinstance(val, ast.Name) and val.id == tgt:
                continue
            pre = _path_prefixes(val)
            root = pre[-1]
            # nothing on the aliased path is stored at or after the alias (stores before it are what it reads)
            if any(stored.get(p, 0) >= n.lineno for p in pre):
                continue
            if root == "self" and len(pre) >= 2:
                attr = pre[-2].split(".", 1)[1]
                if attr in written_by_callees:
                    continue
            mapping[tgt] = val
            drop.append(n)
        if not mapping:
            break
        # aliases of aliases are resolved by the next round
        fn = _Subst(mapping).visit(fn)
        dropped = set(map(id, drop))

        class _Drop(ast.NodeTransformer):
            def generic_visit(self, node):
                super().generic_visit(node)
                for field in ("body", "orelse", "finalbody"):
                    blk = getattr(node, field, None)
                    if isinstance(blk, list) and any(id(s) in dropped for s in blk):
                        new = [s for s in blk if id(s) not in dropped]
                        setattr(node, field, new or ([_fix(ast.Pass(), blk[0])] if field == "body" else []))
                return node
        fn = _Drop().visit(fn)
    return fn


# ----------------------------------------------------------------------------------------------- inlining

class NoInline(Exception):
    pass


def _always_returns(stmts) -> bool:
    for st in stmts:
        if isinstance(st, (ast.Return, ast.Raise)):
            return True
        if isinstance(st, ast.If) and st.orelse and _always_returns(st.body) and _always_returns(st.orelse):
            return True
    return False


def _has_return(st) -> bool:
    return any(isinstance(n, ast.Return) for n in ast.walk(st))


def _lower(stmts, emit):
    """statement list with early returns -> nested if/else without `return`; `emit(value node | None)` gives the
    statements standing for `return value`"""
    out = []
    for i, st in enumerate(stmts):
        rest = stmts[i + 1:]
        if isinstance(st, ast.Return):
            return out + emit(st.value)
        if isinstance(st, ast.Raise):
            return out + [st]
        if not _has_return(st):
            out.append(st)
            continue
        if not isinstance(st, ast.If):
            raise NoInline("return inside a loop / try / with block")
        body = _lower(st.body + ([] if _always_returns(st.body) else copy.deepcopy(rest)), emit)
        orelse = _lower(st.orelse + ([] if (st.orelse and _always_returns(st.orelse)) else copy.deepcopy(rest)), emit)
        new = ast.If(test=st.test, body=body or [_fix(ast.Pass(), st)], orelse=orelse)
        return out + [_fix(new, st)]
    return out + emit(None)


class Inliner:
    """resolve(call) -> (FunctionDef, is_method) | None decides which calls are inlined"""

    def __init__(self, resolve, max_depth: int = 3):
        self.resolve = resolve
        self.k = 0
        self.max_depth = max_depth

    def _bind(self, callee, call, is_method):
        a = callee.args
        if a.vararg or a.kwarg or a.posonlyargs or callee.decorator_list:
            raise NoInline("signature")
        if any(isinstance(n, (ast.Yield, ast.YieldFrom, ast.Await, ast.Global, ast.Nonlocal, ast.Lambda, ast.FunctionDef,
                              ast.ClassDef, ast.AsyncFunctionDef)) for s in callee.body for n in ast.walk(s)):
            raise NoInline("body")
        params = [x.arg for x in a.args]
        if is_method:
            params = params[1:]
        if any(isinstance(x, ast.Starred) for x in call.args) or any(k.arg is None for k in call.keywords):
            raise NoInline("star arguments")
        bound = dict(zip(params, call.args))
        if len(call.args) > len(params):
            raise NoInline("too many arguments")
        kwonly = [x.arg for x in a.kwonlyargs]
        for k in call.keywords:
            if k.arg in bound or k.arg not in params + kwonly:
                raise NoInline("keyword")
            bound[k.arg] = k.value
        defaults = dict(zip(reversed([x.arg for x in a.args]), reversed(a.defaults)))
        for x, d in zip(a.kwonlyargs, a.kw_defaults):
            if d is not None:
                defaults[x.arg] = d
        for p in params + kwonly:
            if p not in bound:
                if p not in defaults:
                    raise NoInline("missing argument")
                bound[p] = defaults[p]
        return bound

    def expand(self, call, emit, caller_names, depth):
        r = self.resolve(call)
        if r is None or depth > self.max_depth:
            return None
        callee, is_method = r
        try:
            bound = self._bind(callee, call, is_method)
            self.k += 1
            tag = f"__i{self.k}"
            body = copy.deepcopy(callee.body)
            if body and isinstance(body[0], ast.Expr) and isinstance(body[0].value, ast.Constant) \
                    and isinstance(body[0].value.value, str):
                body = body[1:]
            holder = ast.Module(body=body, type_ignores=[])
            local = _names_assigned(callee)
            writes_self = bool(self_writes(callee)) or any(
                isinstance(n, ast.Call) and isinstance(n.func, ast.Attribute) and isinstance(n.func.value, ast.Name)
                and n.func.value.id == "self" for n in ast.walk(callee))
            pre, subst, rename = [], {}, {}
            for p, v in bound.items():
                simple = isinstance(v, ast.Constant) or (_is_path(v) and local.get(p, 0) == 1
                                                         and not (writes_self and _path_prefixes(v)[-1] == "self"))
                if simple:
                    subst[p] = v
                else:
                    rename[p] = p + tag
                    pre.append(ast.Assign(targets=[ast.Name(id=p + tag, ctx=ast.Store())], value=copy.deepcopy(v)))
            self_name = callee.args.args[0].arg if is_method else None
            for nm in local:
                if nm not in bound and nm != self_name:
                    rename[nm] = nm + tag
            if self_name is not None and self_name != "self":
                rename[self_name] = "self"
            holder = _Rename(rename).visit(holder)
            holder = _Subst(subst).visit(holder)
            stmts = pre + _lower(holder.body, emit)
            for s in stmts:
                _fix(s, call)
            return self.block(stmts, caller_names, depth + 1)
        except NoInline:
            return None

    def stmt(self, st, names, depth):
        """-> replacement statements for `st`, or None"""
        def as_call(v):
            return v if isinstance(v, ast.Call) else None
        if isinstance(st, ast.Expr) and as_call(st.value):
            return self.expand(st.value, lambda v: ([ast.Expr(value=v)] if v is not None and not isinstance(v, (ast.Constant, ast.Name)) else []), names, depth)
        if isinstance(st, ast.Return) and st.value is not None and as_call(st.value):
            return self.expand(st.value, lambda v: [ast.Return(value=v)], names, depth)
        if isinstance(st, ast.Assign) and len(st.targets) == 1 and isinstance(st.targets[0], ast.Name) and as_call(st.value):
            t = st.targets[0]
            return self.expand(st.value, lambda v: [ast.Assign(targets=[copy.deepcopy(t)], value=v or ast.Constant(value=None))], names, depth)
        if isinstance(st, ast.AnnAssign) and isinstance(st.target, ast.Name) and st.value is not None and as_call(st.value):
            t = st.target
            return self.expand(st.value, lambda v: [ast.Assign(targets=[copy.deepcopy(t)], value=v or ast.Constant(value=None))], names, depth)
        if isinstance(st, ast.AugAssign) and isinstance(st.target, ast.Name) and as_call(st.value):
            t, op = st.target, st.op
            self.k += 1
            tmp = f"term__i{self.k}"
            r = self.expand(st.value, lambda v: [ast.Assign(targets=[ast.Name(id=tmp, ctx=ast.Store())], value=v or ast.Constant(value=None))], names, depth)
            if r is None:
                return None
            return r + [_fix(ast.AugAssign(target=copy.deepcopy(t), op=op, value=ast.Name(id=tmp, ctx=ast.Load())), st)]
        return None

    def block(self, stmts, names, depth=0):
        out = []
        for st in stmts:
            r = self.stmt(st, names, depth)
            if r is not None:
                out += r
                continue
            for field in ("body", "orelse", "finalbody"):
                blk = getattr(st, field, None)
                if isinstance(blk, list) and blk and isinstance(blk[0], ast.stmt):
                    setattr(st, field, self.block(blk, names, depth))
            if isinstance(st, ast.Try):
                for h in st.handlers:
                    h.body = self.block(h.body, names, depth)
            if isinstance(st, ast.Match):
                for c in st.cases:
                    c.body = self.block(c.body, names, depth)
            out.append(st)
        return out

    def function(self, fn):
        fn = copy.deepcopy(fn)
        fn.body = self.block(fn.body, _names_assigned(fn))
        ast.fix_missing_locations(fn)
        return fn


def renumber(fn):
    """consistent line numbers (source order of the NORMALISED text) for extractors that compare positions"""
    return ast.parse(ast.unparse(ast.fix_missing_locations(fn))).body[0]


def _pure_arg(v) -> bool:
    if isinstance(v, ast.Constant) or _is_path(v):
        return True
    if isinstance(v, ast.Subscript):
        return _pure_arg(v.value) and _pure_arg(v.slice)
    if isinstance(v, ast.UnaryOp) and isinstance(v.op, (ast.USub, ast.UAdd)):
        return _pure_arg(v.operand)
    return False


class _ExprInline(ast.NodeTransformer):
    """calls of helpers whose body is ONE `return <expression>` (no statement, no side effect of its own), with
    side-effect-free arguments, are replaced by the expression — wherever they stand (conditions included)"""

    def __init__(self, inliner, depth=0):
        self.inl, self.depth = inliner, depth

    def visit_Call(self, node):
        self.generic_visit(node)
        r = self.inl.resolve(node)
        if r is None or self.depth > self.inl.max_depth:
            return node
        callee, is_method = r
        body = list(callee.body)
        if body and isinstance(body[0], ast.Expr) and isinstance(body[0].value, ast.Constant) and isinstance(body[0].value.value, str):
            body = body[1:]
        if len(body) != 1 or not isinstance(body[0], ast.Return) or body[0].value is None:
            return node
        try:
            bound = self.inl._bind(callee, node, is_method)
        except NoInline:
            return node
        if not all(_pure_arg(v) for v in bound.values()):
            return node
        expr = copy.deepcopy(body[0].value)
        if any(isinstance(n, (ast.NamedExpr, ast.Lambda, ast.ListComp, ast.SetComp, ast.DictComp, ast.GeneratorExp, ast.Await,
                              ast.Yield, ast.YieldFrom)) for n in ast.walk(expr)):
            return node
        self_name = callee.args.args[0].arg if is_method else None
        mapping = dict(bound)
        if self_name is not None and self_name != "self":
            mapping[self_name] = ast.Name(id="self", ctx=ast.Load())
        expr = _Subst(mapping).visit(ast.Expression(body=expr)).body
        expr = _ExprInline(self.inl, self.depth + 1).visit(ast.Expression(body=expr)).body
        return _fix(expr, node)


def inline_expr_calls(fn, resolve):
    return _ExprInline(Inliner(resolve)).visit(fn)


def lower_returns(fn):
    """a function that returns nothing: guard clauses / early `return` -> nested if/else (left alone when a `return`
    sits inside a loop / try / with block or returns a value)"""
    if any(isinstance(n, ast.Return) and n.value is not None and not (isinstance(n.value, ast.Constant) and n.value.value is None)
           for n in ast.walk(fn)):
        return fn
    if not any(isinstance(n, ast.Return) for n in ast.walk(fn)):
        return fn
    try:
        body = _lower(copy.deepcopy(fn.body), lambda v: [])
    except NoInline:
        return fn
    fn.body = body or [_fix(ast.Pass(), fn)]
    ast.fix_missing_locations(fn)
    return fn


LOG_ROOTS = {"logging", "logger", "log", "warnings", "_logger", "LOGGER"}


def is_logging(st) -> bool:
    """`logging.debug(...)`, `logger.info(...)`, `warnings.warn(...)` as a statement"""
    if not (isinstance(st, ast.Expr) and isinstance(st.value, ast.Call)):
        return False
    f = st.value.func
    while isinstance(f, ast.Attribute):
        f = f.value
    return isinstance(f, ast.Name) and f.id in LOG_ROOTS and isinstance(st.value.func, ast.Attribute)


def counter_to_enumerate(fn):
    """`i = 0` ... `for x in it: ...; i += 1`  ->  `for i, x in enumerate(it): ...`  when `i` is bound nowhere else, the
    increment is the last statement of the loop body, the loop has no `continue`, and `i` is not read after the loop"""
    def blocks(node):
        for field in ("body", "orelse", "finalbody"):
            blk = getattr(node, field, None)
            if isinstance(blk, list) and blk and isinstance(blk[0], ast.stmt):
                yield blk
                for st in blk:
                    yield from blocks(st)
        if isinstance(node, ast.Try):
            for h in node.handlers:
                yield h.body
                for st in h.body:
                    yield from blocks(st)
    for blk in list(blocks(fn)):
        for li, loop in enumerate(blk):
            if not isinstance(loop, ast.For) or not loop.body:
                continue
            last = loop.body[-1]
            if not (isinstance(last, ast.AugAssign) and isinstance(last.op, ast.Add) and isinstance(last.target, ast.Name)
                    and isinstance(last.value, ast.Constant) and last.value.value == 1 and type(last.value.value) is int):
                continue
            name = last.target.id
            inits = [(j, st) for j, st in enumerate(blk[:li])
                     if isinstance(st, (ast.Assign, ast.AnnAssign)) and st.value is not None
                     and isinstance(st.targets[0] if isinstance(st, ast.Assign) else st.target, ast.Name)
                     and (st.targets[0] if isinstance(st, ast.Assign) else st.target).id == name]
            binds = _names_assigned(fn).get(name, 0)
            if len(inits) != 1 or binds != 3:          # init + the in-place update (counted twice)
                continue
            j, init = inits[0]
            if not (isinstance(init.value, ast.Constant) and init.value.value == 0 and type(init.value.value) is int):
                continue
            if any(isinstance(n, ast.Continue) for st in loop.body for n in ast.walk(st)):
                continue
            used_between = any(isinstance(n, ast.Name) and n.id == name for st in blk[j + 1:li] for n in ast.walk(st))
            used_after = any(isinstance(n, ast.Name) and n.id == name for st in blk[li + 1:] + loop.orelse for n in ast.walk(st))
            if used_between or used_after:
                continue
            loop.target = ast.Tuple(elts=[ast.Name(id=name, ctx=ast.Store()), loop.target], ctx=ast.Store())
            loop.iter = ast.Call(func=ast.Name(id="enumerate", ctx=ast.Load()), args=[loop.iter], keywords=[])
            loop.body = loop.body[:-1] or [ast.Pass()]
            del blk[j]
            ast.fix_missing_locations(fn)
            return counter_to_enumerate(fn)
    return fn


def self_writes(fn) -> set:
    """names of attributes of `self` assigned (directly) in `fn`"""
    out = set()
    for n in ast.walk(fn):
        tg = []
        if isinstance(n, (ast.Assign, ast.Delete)):
            tg = n.targets
        elif isinstance(n, (ast.AnnAssign, ast.AugAssign)):
            tg = [n.target]
        for t in tg:
            for e in ast.walk(t):
                if isinstance(e, ast.Attribute) and isinstance(e.value, ast.Name) and e.value.id == "self":
                    out.add(e.attr)
    return out


# ----------------------------------------------------------------------------------------------- tail duplication

def _blocks_of(node):
    for field in ("body", "orelse", "finalbody"):
        blk = getattr(node, field, None)
        if isinstance(blk, list) and blk and isinstance(blk[0], ast.stmt):
            yield blk
            for st in blk:
                yield from _blocks_of(st)
    if isinstance(node, ast.Try):
        for h in node.handlers:
            yield h.body
            for st in h.body:
                yield from _blocks_of(st)


def _local_assignment(st) -> bool:
    """`x = e` / `x: T = e` / `a, b = e` binding plain local names only (or a bare annotation / pass / logging)"""
    if isinstance(st, ast.Pass) or is_logging(st):
        return True
    if isinstance(st, ast.AnnAssign):
        return isinstance(st.target, ast.Name)
    if isinstance(st, ast.Assign):
        return all(isinstance(t, ast.Name) or (isinstance(t, (ast.Tuple, ast.List))
                                                and all(isinstance(e, ast.Name) for e in t.elts)) for t in st.targets)
    return False


def sink_into_branches(fn, is_landmark):
    """`if c: A else: B` followed (in the same block) by plain local assignments and then a landmark statement `S`
    (`is_landmark(stmt)`), where neither branch contains a landmark  ->  `if c: A; ...; S  else: B; ...; S`.
    Always behaviour-preserving (the continuation of an if/else is the continuation of each of its branches); applied
    only when the branches contain no `return` / `break` / `continue` (so that what is appended is reached exactly when
    the branch falls through) and only across statements that bind local names."""
    def has_landmark(stmts):
        return any(isinstance(n, ast.stmt) and is_landmark(n) for st in stmts for n in ast.walk(st))

    changed = True
    rounds = 0
    while changed and rounds < 4:
        changed, rounds = False, rounds + 1
        for blk in list(_blocks_of(fn)):
            for i, node in enumerate(blk):
                if not (isinstance(node, ast.If) and node.orelse):
                    continue
                if has_landmark(node.body) or has_landmark(node.orelse):
                    continue
                if any(isinstance(n, (ast.Return, ast.Break, ast.Continue, ast.FunctionDef, ast.Lambda, ast.ClassDef))
                       for n in ast.walk(node)):
                    continue
                j = i + 1
                while j < len(blk) and _local_assignment(blk[j]) and not is_landmark(blk[j]):
                    j += 1
                if j >= len(blk) or not is_landmark(blk[j]):
                    continue
                moved = blk[i + 1:j + 1]
                node.body = node.body + copy.deepcopy(moved)
                node.orelse = node.orelse + moved
                del blk[i + 1:j + 1]
                changed = True
                break
            if changed:
                break
    ast.fix_missing_locations(fn)
    return fn


# ----------------------------------------------------------------------------------------------- adjacent ifs, same test

def merge_same_test_ifs(fn, written_by_callees: set = frozenset()):
    """`if c: A else: B` directly followed by `if c: C else: D` (same side-effect-free attribute path `c`; either `else`
    may be missing) -> `if c: A; C else: B; D`, when nothing in A / B stores a name or attribute on the path of `c` (nor,
    for `self.<attr>`, does a method the function calls write that attribute) and A / B contain no return / break /
    continue: the second test then evaluates like the first."""
    changed, rounds = True, 0
    while changed and rounds < 6:
        changed, rounds = False, rounds + 1
        for blk in list(_blocks_of(fn)):
            for i in range(len(blk) - 1):
                a, b = blk[i], blk[i + 1]
                if not (isinstance(a, ast.If) and isinstance(b, ast.If) and _is_path(a.test)
                        and ast.unparse(a.test) == ast.unparse(b.test)):
                    continue
                if any(isinstance(n, (ast.Return, ast.Break, ast.Continue, ast.FunctionDef, ast.Lambda, ast.ClassDef,
                                      ast.Global, ast.Nonlocal, ast.NamedExpr)) for n in ast.walk(a)):
                    continue
                pre = _path_prefixes(a.test)
                stored = _stored_paths(ast.Module(body=a.body + a.orelse, type_ignores=[]))
                if any(p in stored for p in pre):
                    continue
                if pre[-1] == "self" and len(pre) >= 2 and pre[-2].split(".", 1)[1] in written_by_callees:
                    continue
                a.body = a.body + b.body
                a.orelse = a.orelse + b.orelse
                del blk[i + 1]
                changed = True
                break
            if changed:
                break
    ast.fix_missing_locations(fn)
    return fn
